#!/usr/bin/env python3
"""seeded_all.py [ids | property ids | rN ...]
Re-runs the stored seeded changes against the current checks: each is applied to /repo (git apply), the
property's quick check is run from /verif, and the change is undone (git checkout) straight afterwards;
updates seeded/*/meta.json and seeded/SUMMARY.md.  Newest rounds first; SEEDED_RUN_TAG=<tag> makes the run
resumable (changes whose meta.json already carries the tag are skipped)."""
import json, os, subprocess, sys, glob, time
V = "/verif"
EXTRA = {"C09-B": ["C05"], "C09-r2C": ["C05"], "C10-r2C": ["C09"], "C03-r2C": ["C04"], "C19-r2C": ["C05"], "C06-r3A": ["C16"], "C18-r3A": ["C17"]}
only = sys.argv[1:]
import tempfile, shutil, atexit
SCRATCH = tempfile.mkdtemp(prefix="vsym-seeded-")
atexit.register(lambda: shutil.rmtree(SCRATCH, ignore_errors=True))
rows = []
TAG = os.environ.get("SEEDED_RUN_TAG", "")


def order(d):
    sid = os.path.basename(d.rstrip("/"))
    suffix = sid.split("-", 1)[1]
    rnd = int(suffix[1]) if suffix.startswith("r") else 1
    return (-rnd, sid)


for d in sorted(glob.glob(V + "/seeded/*/"), key=order):
    sid = os.path.basename(d.rstrip("/"))
    if only and sid not in only and sid.split("-")[0] not in only and not any(o.startswith("r") and ("-"+o) in sid for o in only):
        continue
    meta = json.load(open(d + "meta.json"))
    pid = meta["property"]
    if TAG and meta.get("authoritative_run") == TAG:
        continue
    if subprocess.run("git -C /repo status --porcelain", shell=True, capture_output=True, text=True).stdout.strip():
        print("/repo not clean"); sys.exit(3)
    subprocess.run("git -C /repo apply %spatch.diff" % d, shell=True, check=True)
    res = {}
    try:
        for p in [pid] + EXTRA.get(sid, []):
            t0 = time.time()
            # evidence/ and replays/ of /verif describe the unchanged tree: the runs
            # against a changed /repo write to a scratch directory; the remaining
            # harness files are skipped once one has fired (a run that does not
            # end in a reproduced violation is repeated in full)
            env = dict(os.environ, VSYM_SCRATCH=SCRATCH, VSYM_FIRST_VIOLATION="1")
            r = subprocess.run("bin/vcheck %s quick" % p, shell=True, cwd=V, capture_output=True, text=True, timeout=3600, env=env)
            if r.returncode != 1:
                env.pop("VSYM_FIRST_VIOLATION")
                r = subprocess.run("bin/vcheck %s quick" % p, shell=True, cwd=V, capture_output=True, text=True, timeout=3600, env=env)
            lines = [l for l in r.stdout.splitlines() if l.startswith(("VIOLATION", "INCONCLUSIVE", "  replay", "  obligation"))]
            res[p] = {"exit": r.returncode, "wall_s": round(time.time() - t0, 1), "lines": lines[:10]}
    finally:
        subprocess.run("git -C /repo checkout -- .", shell=True)
    meta["check_result"] = res
    meta["authoritative_run"] = TAG or time.strftime("%Y-%m-%dT%H:%M")
    meta["checked_against"] = "/repo (patch applied with git apply, undone with git checkout)"
    meta["detected"] = any(v["exit"] == 1 for v in res.values())
    meta["detected_by"] = [p for p, v in res.items() if v["exit"] == 1]
    json.dump(meta, open(d + "meta.json", "w"), indent=1)
    labels = sorted(set(l.split(" in ")[0].replace("  obligation ", "") for v in res.values() for l in v["lines"] if l.startswith("  obligation")))
    repl = sorted(set(l.strip()[8:60] for v in res.values() for l in v["lines"] if l.startswith("  replay")))
    rows.append((sid, pid, meta["detected"], ",".join(meta["detected_by"]), "; ".join(labels)[:120], "; ".join(repl)[:80], meta.get("what_it_breaks", "")[:110]))
    print(sid, meta["detected"], meta["detected_by"], flush=True)
rows = []
for d in sorted(glob.glob(V + "/seeded/*/")):
    meta = json.load(open(d + "meta.json"))
    res = meta.get("check_result") or {}
    labels = sorted(set(l.split(" in ")[0].replace("  obligation ", "") for v in res.values() for l in v.get("lines", []) if l.startswith("  obligation")))
    repl = sorted(set(l.strip()[8:60] for v in res.values() for l in v.get("lines", []) if l.startswith("  replay")))
    rows.append((os.path.basename(d.rstrip("/")), meta["property"], meta.get("detected"), ",".join(meta.get("detected_by") or []), "; ".join(labels)[:120], "; ".join(repl)[:80], (meta.get("what_it_breaks") or "")[:110].replace("|", "/").replace("\n", " "), meta.get("authoritative_run", "")))
if True:
    with open(V + "/seeded/SUMMARY.md", "w") as f:
        f.write("| id | property | detected | by check | failing obligations | replay | what it breaks | last run against /repo |\n|---|---|---|---|---|---|---|---|\n")
        for r in rows:
            f.write("| %s | %s | %s | %s | %s | %s | %s | %s |\n" % r)
