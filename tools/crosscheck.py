#!/usr/bin/env python3
"""crosscheck.py <qlog-dir> — replays the per-worker SMT-LIB logs through z3 4.8.12, z3 5.1.0 (z3-new) and
cvc5 and compares the sequences of check-sat answers.  Exit 0 = all agree (unknown/timeouts are reported, not counted as disagreement).
Logs above VSYM_CROSS_MAX_MB (default 8) are skipped and counted; files and solvers run side by side."""
import subprocess, sys, glob, os
from concurrent.futures import ThreadPoolExecutor
d = sys.argv[1]
limit = int(os.environ.get("VSYM_CROSS_MAX_MB", "8")) * (1 << 20)
tot = {"files": 0, "answers": 0, "disagree": 0, "unknown": 0, "skipped": 0}
out_lines = []


def run(job):
    name, cmd, inp = job
    try:
        r = subprocess.run(cmd, input=inp, capture_output=True, text=True, timeout=1200)
        seq = [l.strip() for l in r.stdout.split("\n") if l.strip() in ("sat", "unsat", "unknown", "timeout")]
        errs = [l for l in r.stdout.split("\n") if l.startswith("(error")]
        return name, seq, errs, None
    except Exception as e:
        return name, None, [], str(e)


def one(f):
    res = {"answers": 0, "disagree": 0, "unknown": 0, "lines": []}
    txt = open(f).read()
    lines = txt.split("\n")
    cvc = "(set-logic ALL)\n(set-option :produce-models true)\n" + "\n".join(l for l in lines if not l.startswith("(set-option") and not l.startswith("(get-value"))
    z = "\n".join(l for l in lines if not l.startswith("(get-value"))
    jobs = (("z3", ["z3", "-in"], z), ("z3-new", ["z3-new", "-in"], z), ("cvc5", ["cvc5", "--incremental", "--lang=smt2", "--tlimit-per=20000"], cvc))
    seqs = {}
    with ThreadPoolExecutor(max_workers=3) as ex:
        for name, seq, errs, exc in ex.map(run, jobs):
            seqs[name] = seq
            if exc:
                res["lines"].append("CROSS %s: %s failed: %s" % (os.path.basename(f), name, exc))
            if errs:
                res["lines"].append("CROSS %s: %s reported %d error lines, first: %s" % (os.path.basename(f), name, len(errs), errs[0][:160]))
                res["unknown"] += 1
    base = seqs.get("z3") or []
    res["answers"] = len(base)
    for other in ("z3-new", "cvc5"):
        s = seqs.get(other)
        if s is None:
            continue
        if len(s) < len(base) and all(a == b or "unknown" in (a, b) or "timeout" in (a, b) for a, b in zip(base, s)):
            # the other solver gave up part-way (time limit, resource limit): what it did answer agrees
            res["lines"].append("CROSS %s: %s stopped after %d of %d answers, all of them in agreement" % (os.path.basename(f), other, len(s), len(base)))
            res["unknown"] += len(base) - len(s)
            continue
        if len(s) != len(base):
            res["lines"].append("CROSS %s: %s gave %d answers, z3 gave %d" % (os.path.basename(f), other, len(s), len(base)))
            res["disagree"] += 1
            continue
        for i, (a, b) in enumerate(zip(base, s)):
            if a != b:
                if "unknown" in (a, b) or "timeout" in (a, b):
                    res["unknown"] += 1
                else:
                    res["disagree"] += 1
                    res["lines"].append("CROSS DISAGREEMENT %s query #%d: z3=%s %s=%s" % (os.path.basename(f), i, a, other, b))
    return res


files = []
for f in sorted(glob.glob(d + "/*.smt2")):
    if os.path.getsize(f) > limit:
        tot["skipped"] += 1
    else:
        files.append(f)
with ThreadPoolExecutor(max_workers=int(os.environ.get("VSYM_CROSS_JOBS", "5"))) as ex:
    for r in ex.map(one, files):
        tot["files"] += 1
        tot["answers"] += r["answers"]
        tot["disagree"] += r["disagree"]
        tot["unknown"] += r["unknown"]
        for l in r["lines"]:
            print(l)
print("CROSS files=%(files)d answers=%(answers)d disagreements=%(disagree)d unknown-or-error=%(unknown)d skipped-large=%(skipped)d" % tot)
sys.exit(1 if tot["disagree"] else 0)
