#!/usr/bin/env python3
"""crosscheck.py <qlog-dir> — replays every per-worker SMT-LIB log through z3 4.8.12, z3 5.1.0 (z3-new) and
cvc5 and compares the sequences of check-sat answers.  Exit 0 = all agree (unknown/timeouts are reported, not counted as disagreement)."""
import subprocess, sys, glob, os
d = sys.argv[1]
limit = int(os.environ.get("VSYM_CROSS_MAX_MB", "40")) * (1 << 20)
tot = {"files": 0, "answers": 0, "disagree": 0, "unknown": 0, "skipped": 0}
for f in sorted(glob.glob(d + "/*.smt2")):
    if os.path.getsize(f) > limit:
        tot["skipped"] += 1
        continue
    txt = open(f).read()
    lines = txt.split("\n")
    cvc = "(set-logic ALL)\n(set-option :produce-models true)\n" + "\n".join(l for l in lines if not l.startswith("(set-option") and not l.startswith("(get-value"))
    z = "\n".join(l for l in lines if not l.startswith("(get-value"))
    seqs = {}
    for name, cmd, inp in (("z3", ["z3", "-in"], z), ("z3-new", ["z3-new", "-in"], z), ("cvc5", ["cvc5", "--incremental", "--lang=smt2", "--tlimit-per=60000"], cvc)):
        try:
            r = subprocess.run(cmd, input=inp, capture_output=True, text=True, timeout=3600)
            seqs[name] = [l.strip() for l in r.stdout.split("\n") if l.strip() in ("sat", "unsat", "unknown", "timeout")]
            errs = [l for l in r.stdout.split("\n") if l.startswith("(error")]
            if errs:
                print("CROSS %s: %s reported %d error lines, first: %s" % (os.path.basename(f), name, len(errs), errs[0][:160]))
                tot["unknown"] += 1
        except Exception as e:
            print("CROSS %s: %s failed: %s" % (os.path.basename(f), name, e)); seqs[name] = None
    tot["files"] += 1
    base = seqs.get("z3") or []
    tot["answers"] += len(base)
    for other in ("z3-new", "cvc5"):
        s = seqs.get(other)
        if s is None:
            continue
        if len(s) != len(base):
            print("CROSS %s: %s gave %d answers, z3 gave %d" % (os.path.basename(f), other, len(s), len(base))); tot["disagree"] += 1
            continue
        for i, (a, b) in enumerate(zip(base, s)):
            if a != b:
                if "unknown" in (a, b) or "timeout" in (a, b):
                    tot["unknown"] += 1
                else:
                    tot["disagree"] += 1
                    print("CROSS DISAGREEMENT %s query #%d: z3=%s %s=%s" % (os.path.basename(f), i, a, other, b))
print("CROSS files=%(files)d answers=%(answers)d disagreements=%(disagree)d unknown-or-error=%(unknown)d skipped-large=%(skipped)d" % tot)
sys.exit(1 if tot["disagree"] else 0)
