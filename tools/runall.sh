#!/bin/sh
# runall.sh [tier] — run every claimed check on the current tree
tier=${1:-quick}
for p in $(python3 -c "import json;print(' '.join(c['property_id'] for c in json.load(open('/verif/MANIFEST.json'))['checks']))"); do
  s=$(date +%s); out=$(timeout 7200 bin/vcheck $p $tier 2>/dev/null); rc=$?; e=$(date +%s)
  echo "$p rc=$rc $((e-s))s $(echo "$out" | tail -1)"
  echo "$out" | grep -E "^(VIOLATION|INCONCLUSIVE|KNOWN)" | head -5
done
