#!/usr/bin/env python3
"""mutant.py <property> <agent-worktree> <A|B> [--tier quick]
Confirms a seeded change independently in a scratch worktree (builds, existing
suite passes, demo fails with / passes without), then applies it to /repo, runs
the property's check, undoes it, and stores everything under /verif/seeded/."""
import json, os, subprocess, sys, shutil, time
ENV = dict(os.environ, GOFLAGS="-mod=mod", GOPROXY="off", GOSUMDB="off", GOTOOLCHAIN="local")
V = os.environ.get("VSYM_HOME") or os.path.dirname(os.path.dirname(os.path.abspath(__file__)))

def sh(cmd, cwd=None, timeout=1800):
    r = subprocess.run(cmd, shell=True, cwd=cwd, env=ENV, capture_output=True, text=True, timeout=timeout)
    return r.returncode, r.stdout + r.stderr

def main():
    pid, wt, x = sys.argv[1], sys.argv[2], sys.argv[3]
    tier = "quick"
    if "--tier" in sys.argv:
        tier = sys.argv[sys.argv.index("--tier") + 1]
    src = os.path.join(wt, "MUTANT", x)
    meta = json.load(open(os.path.join(src, "meta.json")))
    patch = os.path.join(src, "patch.diff")
    demo = os.path.join(src, "demo_test.go")
    sid = "%s-%s%s" % (pid, os.environ.get("MUT_PREFIX", ""), x)
    scratch = "/tmp/confirm-%s" % sid
    sh("git -C /repo worktree remove --force %s" % scratch)
    rc, out = sh("git -C /repo worktree add -q --detach %s HEAD" % scratch)
    res = {"property": pid, "id": sid}
    try:
        pkgdir = meta["package_dir"].strip("./")
        demoname = "zz_demo_%s_test.go" % x
        run = meta.get("demo_run") or ("go test -mod=mod -vet=off -count=1 -run 'TestDemo%s$' ./%s/" % (x, pkgdir))
        # demo on the original
        shutil.copy(demo, os.path.join(scratch, pkgdir, demoname))
        rc0, out0 = sh(run, cwd=scratch)
        res["demo_on_original"] = "pass" if rc0 == 0 else "FAIL"
        os.remove(os.path.join(scratch, pkgdir, demoname))
        rc, out = sh("git apply %s" % patch, cwd=scratch)
        res["patch_applies"] = rc == 0
        if rc != 0:
            res["error"] = out[-500:]
            return res
        rcb, outb = sh("go build ./...", cwd=scratch)
        res["builds"] = rcb == 0
        rct, outt = sh("go test -mod=mod -vet=off -count=1 ./...", cwd=scratch)
        res["existing_suite_with_change"] = "pass" if rct == 0 else "FAIL: " + outt[-400:]
        shutil.copy(demo, os.path.join(scratch, pkgdir, demoname))
        rc1, out1 = sh(run, cwd=scratch)
        res["demo_with_change"] = "fail" if rc1 != 0 else "PASSES"
        res["confirmed"] = (rc0 == 0 and rcb == 0 and rct == 0 and rc1 != 0)
        if os.environ.get("MUT_SCRATCH"):
            # triage run beside other work: the checks read the scratch worktree
            # (VSYM_REPO) and write to a scratch directory; /repo is not touched
            os.remove(os.path.join(scratch, pkgdir, demoname))
            sh("git checkout -- go.sum go.mod", cwd=scratch)
            import tempfile
            outdir = tempfile.mkdtemp(prefix="vsym-mut-")
            t0 = time.time()
            res["checks"] = {}
            for p in [pid] + [p for p in sys.argv[4:] if p.startswith("C")]:
                r = subprocess.run("bin/vcheck %s %s" % (p, tier), shell=True, cwd=V, env=dict(ENV, VSYM_REPO=scratch, VSYM_SCRATCH=outdir), capture_output=True, text=True, timeout=3600)
                outc = r.stdout + r.stderr
                lines = [l for l in outc.splitlines() if l.startswith(("VIOLATION", "INCONCLUSIVE", "KNOWN", "  replay", "  obligation")) or l.startswith(p + " ")]
                res["checks"][p] = {"exit": r.returncode, "lines": lines[:12]}
            res["check_wall_s"] = round(time.time() - t0, 1)
            shutil.rmtree(outdir, ignore_errors=True)
    finally:
        sh("git -C /repo worktree remove --force %s" % scratch)
        shutil.rmtree(scratch, ignore_errors=True)
    if os.environ.get("MUT_SCRATCH"):
        return finish(res, pid, sid, tier, patch, demo, meta)
    # run the check against /repo with the change applied
    rc, out = sh("git -C /repo status --porcelain")
    if out.strip():
        res["error"] = "/repo not clean"
        return res
    rc, out = sh("git -C /repo apply %s" % patch)
    t0 = time.time()
    try:
        props = [pid] + [p for p in sys.argv[4:] if p.startswith("C")]
        res["checks"] = {}
        for p in props:
            rcc, outc = sh("bin/vcheck %s %s" % (p, tier), cwd=V, timeout=3600)
            lines = [l for l in outc.splitlines() if l.startswith(("VIOLATION", "INCONCLUSIVE", "KNOWN", "  replay", "  obligation")) or l.startswith(p + " ")]
            res["checks"][p] = {"exit": rcc, "lines": lines[:12]}
    finally:
        sh("git -C /repo checkout -- .")
    res["check_wall_s"] = round(time.time() - t0, 1)
    return finish(res, pid, sid, tier, patch, demo, meta)


def finish(res, pid, sid, tier, patch, demo, meta):
    det = any(c["exit"] == 1 for c in (res.get("checks") or {}).values())
    res["detected"] = det
    if not res.get("confirmed"):
        return res  # not kept: the change or its demonstration did not hold up
    out = os.path.join(V, "seeded", sid)
    os.makedirs(out, exist_ok=True)
    shutil.copy(patch, os.path.join(out, "patch.diff"))
    shutil.copy(demo, os.path.join(out, "demo_test.go"))
    meta["id"] = sid
    meta["confirmation"] = {k: res.get(k) for k in ("demo_on_original", "patch_applies", "builds", "existing_suite_with_change", "demo_with_change", "confirmed")}
    meta["what_i_ran"] = ["git worktree add <scratch> HEAD; demo test on the original; git apply patch.diff; go build ./...; go test -mod=mod -vet=off -count=1 ./... ; demo test with the change; worktree removed",
                          "git -C /repo apply patch.diff; bin/vcheck %s %s; git -C /repo checkout -- ." % (pid, tier)]
    meta["check_result"] = res.get("checks")
    meta["detected"] = det
    json.dump(meta, open(os.path.join(out, "meta.json"), "w"), indent=1)
    return res

if __name__ == "__main__":
    r = main()
    print(json.dumps(r, indent=1))
