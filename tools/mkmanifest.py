#!/usr/bin/env python3
"""Regenerates /verif/MANIFEST.json from the table below."""
import json, os
V = os.path.dirname(os.path.dirname(os.path.abspath(__file__)))
props = [json.loads(l)["id"] for l in open(os.path.join(V, "properties.jsonl"))]

LEVEL_NOTE = ("Trusted base: go/ssa's translation of /repo's source; the vsym interpreter's SSA semantics and SMT printer; z3 4.8.12; "
              "the harness models of library contracts listed in the evidence 'assumptions'/'models'; the oracle written in the harness from the property statement. "
              "Bounded: every claim holds for all values of the symbolic scalars on the explored shapes within the bounds listed in the evidence, nothing beyond.")

claimed = json.load(open(os.path.join(V, "tools", "claims.json")))

checks, na = [], []
for p in props:
    c = claimed.get(p)
    if not c or c.get("na"):
        na.append({"property_id": p, "reason": (c or {}).get("na", "check not built yet (engine under construction); will be claimed once its check runs clean")})
        continue
    checks.append({
        "property_id": p,
        "quick_cmd": "bin/vcheck %s quick" % p,
        "thorough_cmd": "bin/vcheck %s thorough" % p,
        "evidence_file": "/verif/evidence/%s.json" % p,
        "replay_cmd_template": "bin/vcheck --replay {path}",
        "engine": "vsym",
        "level_claimed": {"category": "model_checking", "text": c["text"], "design_ref": c.get("design_ref", "DESIGN.md section 4, " + p)},
        "level_note": LEVEL_NOTE + " " + c.get("note", ""),
        "technique": c.get("technique", "bounded symbolic execution of the real Go code (go/ssa -> SMT-LIB2 path conditions), obligations decided by z3, counterexamples replayed natively"),
    })
m = {
    "version": 1,
    "setup_cmd": "cd /verif/engine && GOFLAGS=-mod=mod GOPROXY=off GOSUMDB=off GOTOOLCHAIN=local go build -o /verif/bin/vsym .",
    "hooks": {"guard": "verif", "enable": "not needed: harnesses are injected with go/packages overlays (symbolic run) and go test -overlay (native replay); /repo is never modified by a check",
              "baseline_off_cmd": "cd /repo && go test -mod=mod -vet=off -count=1 -timeout 25m ./...", "source_commits": [], "add_only": True},
    "engines": [{"name": "vsym", "path": "/verif/engine", "serves_properties": [c["property_id"] for c in checks],
                 "kind_free_text": "path-forking symbolic interpreter for Go SSA (golang.org/x/tools/go/ssa v0.29.0) with symbolic scalars, SMT-LIB2 back end (z3 -in), native counterexample replay via go test -overlay"}],
    "checks": checks,
    "not_applicable": na,
    "notes": "Exit codes of bin/vcheck: 0 held, 1 replayed VIOLATION, 2 inconclusive (never success). Known findings: /verif/known_findings.json.",
}
json.dump(m, open(os.path.join(V, "MANIFEST.json"), "w"), indent=1)
print("claimed:", [c["property_id"] for c in checks])
