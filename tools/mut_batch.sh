#!/bin/sh
# mut_batch.sh <prefix> <wtbase> <prop> <X>...   e.g. mut_batch.sh r2 /tmp/w2- C05 A B C
prefix=$1; base=$2; p=$3; shift 3
for x in "$@"; do
  echo "=== $p-$prefix$x"
  MUT_PREFIX=$prefix timeout 3000 python3 $(dirname $0)/mutant.py $p $base$p $x 2>&1 | python3 -c "
import json,sys
try:
    r=json.load(sys.stdin)
    print('confirmed',r.get('confirmed'),'detected',r.get('detected'),'wall',r.get('check_wall_s'), r.get('error',''))
    for p,c in (r.get('checks') or {}).items():
        print('  ',p,'exit',c['exit']); [print('     ',l[:170]) for l in c['lines'][:4]]
    if not r.get('confirmed'): print({k:r.get(k) for k in ('demo_on_original','patch_applies','builds','existing_suite_with_change','demo_with_change')})
except Exception as e: print('ERR',e)
"
done
