#!/usr/bin/env python3
"""benign.py <property> <agent-worktree> <A|B|C> [extra properties...]
Confirms a behaviour-preserving change produced by a sub-agent (applies, builds,
existing suite passes) in a scratch worktree, runs the property's check against
that worktree (never /repo), and stores the change under /verif/benign/<id>/.
Expected outcome: the check exits 0.  Exit 1 or 2 needs triage: either the
change is not behaviour-preserving after all, or the machinery raised a false
alarm / cannot follow the refactoring."""
import json, os, subprocess, sys, shutil, time, tempfile
ENV = dict(os.environ, GOFLAGS="-mod=mod", GOPROXY="off", GOSUMDB="off", GOTOOLCHAIN="local")
V = os.environ.get("VSYM_HOME") or os.path.dirname(os.path.dirname(os.path.abspath(__file__)))


def sh(cmd, cwd=None, timeout=3600, env=None):
    r = subprocess.run(cmd, shell=True, cwd=cwd, env=env or ENV, capture_output=True, text=True, timeout=timeout)
    return r.returncode, r.stdout + r.stderr


def main():
    pid, wt, x = sys.argv[1], sys.argv[2], sys.argv[3]
    src = os.path.join(wt, "BENIGN", x)
    meta = json.load(open(os.path.join(src, "meta.json")))
    patch = os.path.join(src, "patch.diff")
    sid = "%s-b%s%s" % (pid, os.environ.get("BEN_PREFIX", ""), x)
    scratch = "/tmp/benign-%s" % sid
    sh("git -C /repo worktree remove --force %s" % scratch)
    sh("git -C /repo worktree add -q --detach %s HEAD" % scratch)
    res = {"id": sid, "property": pid}
    out = tempfile.mkdtemp(prefix="vsym-benign-")
    try:
        rc, o = sh("git apply %s" % patch, cwd=scratch)
        res["patch_applies"] = rc == 0
        if rc != 0:
            res["error"] = o[-400:]
            return res
        rcb, ob = sh("go build ./...", cwd=scratch)
        res["builds"] = rcb == 0
        rct, ot = sh("go test -mod=mod -vet=off -count=1 ./...", cwd=scratch)
        res["existing_suite"] = "pass" if rct == 0 else "FAIL: " + ot[-400:]
        sh("git checkout -- go.sum go.mod", cwd=scratch)
        res["confirmed"] = rc == 0 and rcb == 0 and rct == 0
        res["checks"] = {}
        for p in [pid] + [a for a in sys.argv[4:] if a.startswith("C")]:
            t0 = time.time()
            rcc, oc = sh("bin/vcheck %s quick" % p, cwd=V, env=dict(ENV, VSYM_REPO=scratch, VSYM_SCRATCH=out))
            lines = [l for l in oc.splitlines() if l.startswith(("VIOLATION", "INCONCLUSIVE", "KNOWN", "  replay", "  obligation", "vsym:")) or l.startswith(p + " ")]
            res["checks"][p] = {"exit": rcc, "wall_s": round(time.time() - t0, 1), "lines": lines[:12]}
        res["quiet"] = all(c["exit"] == 0 for c in res["checks"].values())
    finally:
        sh("git -C /repo worktree remove --force %s" % scratch)
        shutil.rmtree(scratch, ignore_errors=True)
        shutil.rmtree(out, ignore_errors=True)
    dst = os.path.join(V, "benign", sid)
    os.makedirs(dst, exist_ok=True)
    shutil.copy(patch, os.path.join(dst, "patch.diff"))
    meta["id"] = sid
    meta["confirmation"] = {k: res.get(k) for k in ("patch_applies", "builds", "existing_suite", "confirmed")}
    meta["check_result"] = res.get("checks")
    meta["quiet"] = res.get("quiet")
    json.dump(meta, open(os.path.join(dst, "meta.json"), "w"), indent=1)
    return res


if __name__ == "__main__":
    r = main()
    print(json.dumps(r, indent=1))
