#!/bin/sh
# benign_batch.sh <wtbase> <prop>...   e.g. benign_batch.sh /tmp/wb- C05 C07
base=$1; shift
for p in "$@"; do
  for x in A B C; do
    [ -f $base$p/BENIGN/$x/patch.diff ] || continue
    python3 $(dirname $0)/benign.py $p $base$p $x 2>&1 | python3 -c "
import json,sys
try:
    r=json.load(sys.stdin); print(r['id'],'confirmed',r.get('confirmed'),'quiet',r.get('quiet'), r.get('error',''))
    for p,c in (r.get('checks') or {}).items():
        print('  ',p,'exit',c['exit'],c['wall_s'])
        if c['exit']!=0: [print('     ',l[:220]) for l in c['lines'][:8]]
    if not r.get('confirmed'): print('   ', {k:r.get(k) for k in ('patch_applies','builds','existing_suite')})
except Exception as e: print('ERR',e)
"
  done
done
