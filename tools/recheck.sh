#!/bin/sh
# recheck.sh <seeded-id> <property> [tier]  — apply a stored seeded change to /repo, run the check, undo
id=$1; p=$2; tier=${3:-quick}
cd /repo && git status --porcelain | grep -q . && { echo "/repo not clean"; exit 3; }
trap 'git -C /repo checkout -- .' EXIT INT TERM PIPE
git apply /verif/seeded/$id/patch.diff || exit 3
cd /verif && timeout 3600 bin/vcheck $p $tier > /verif/.work/recheck.out 2>&1
git -C /repo checkout -- .
grep -E "^(VIOLATION|INCONCLUSIVE|  replay|$p )" /verif/.work/recheck.out | head -8
