#!/bin/sh
# recheck.sh <seeded-id> <property> [tier]  — apply a stored seeded change to /repo, run the check, undo
id=$1; p=$2; tier=${3:-quick}
cd /repo && git status --porcelain | grep -q . && { echo "/repo not clean"; exit 3; }
git apply /verif/seeded/$id/patch.diff || exit 3
cd /verif && timeout 3600 bin/vcheck $p $tier 2>&1 | grep -E "^(VIOLATION|INCONCLUSIVE|  replay|$p )" | head -8
echo "exit=$?"
cd /repo && git checkout -- .
