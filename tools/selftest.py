#!/usr/bin/env python3
"""selftest.py — validates the translator: runs selftest/*.go in the engine (concrete mode) and natively
(go test -overlay) and compares the emitted observations; runs the symbolic entries and requires every
obligation discharged.  Exit 0 = agreement."""
import json, os, subprocess, sys, glob, re
V = "/verif"
ENV = dict(os.environ, GOFLAGS="-mod=mod", GOPROXY="off", GOSUMDB="off", GOTOOLCHAIN="local")
ok = True
for hf in sorted(glob.glob(V + "/selftest/*.go")):
    txt = open(hf).read()
    pkg = re.search(r"//vsym:pkg (\S+)", txt).group(1)
    out = V + "/.work/selftest.json"
    os.makedirs(V + "/.work", exist_ok=True)
    r = subprocess.run([V + "/bin/vsym", "run", "-harness", hf, "-api", V + "/harness/api/api.go", "-out", out], env=ENV, capture_output=True, text=True)
    res = json.load(open(out))
    if res.get("error"):
        print("SELFTEST engine error:", res["error"]); ok = False; continue
    emits = {}
    for e in res["entries"]:
        if e.get("inconclusive") or e.get("violated") or e.get("unknown"):
            print("SELFTEST", e["entry"], "not clean:", (e.get("inconclusive") or [])[:3], [v["label"] for v in e.get("violated") or []]); ok = False
        for line in e.get("emits") or []:
            k, v = line.split("=", 1)
            emits[k] = v
        print("  %s: paths=%d obligations=%d proved=%d" % (e["entry"], e["paths"], e["obligations"], e["proved"]))
    # native
    d = subprocess.run(["go", "list", "-f", "{{.Dir}} {{.Name}}", pkg], cwd="/repo", env=ENV, capture_output=True, text=True).stdout.split()
    pdir, pname = d[0], d[1]
    work = V + "/.work/selftest"
    os.makedirs(work, exist_ok=True)
    api = open(V + "/harness/api/api.go").read().replace("package PKGNAME", "package " + pname, 1)
    open(work + "/api.go", "w").write(api)
    ents = re.findall(r"//vsym:entry (\S+)", txt)
    test = "package %s\n\nimport \"testing\"\n\nfunc TestVsymSelf(t *testing.T) {\n%s}\n" % (pname, "".join("\t%s()\n" % e for e in ents if e.startswith("S_concrete")))
    open(work + "/self_test.go", "w").write(test)
    ov = {"Replace": {pdir + "/zz_vsym_api.go": work + "/api.go", pdir + "/zz_vsym_h0.go": hf, pdir + "/zz_vsym_self_test.go": work + "/self_test.go"}}
    json.dump(ov, open(work + "/overlay.json", "w"))
    r = subprocess.run(["go", "test", "-vet=off", "-count=1", "-overlay", work + "/overlay.json", "-run", "^TestVsymSelf$", "-v", "."], cwd=pdir, env=ENV, capture_output=True, text=True)
    native = {}
    cur = None
    for line in r.stdout.split("\n"):
        if line.startswith("VSYM-EMIT "):
            k, v = line[len("VSYM-EMIT "):].split("=", 1)
            native[k] = v; cur = k
        elif cur is not None and not line.startswith(("=== ", "--- ", "PASS", "ok ", "FAIL")):
            native[cur] += "\n" + line
    for k in sorted(set(emits) | set(native)):
        a, b = emits.get(k), (native.get(k) or "").rstrip("\n")
        if a is None or a.rstrip("\n") != b:
            ok = False
            print("SELFTEST DISAGREEMENT in", k)
            al, bl = (a or "").split("|"), b.split("|")
            for i in range(max(len(al), len(bl))):
                x = al[i] if i < len(al) else None; y = bl[i] if i < len(bl) else None
                if x != y:
                    print("   engine:", repr(x)[:200]); print("   native:", repr(y)[:200]); break
        else:
            print("  %s: engine and native agree (%d bytes)" % (k, len(b)))
print("SELFTEST", "OK" if ok else "FAILED")
sys.exit(0 if ok else 1)
