#!/usr/bin/env python3
"""seeded_scratch.py [--benign] [-j N] [ids or property ids...]
Like seeded_all.py, but every stored seeded change is applied to its own
scratch worktree of /repo (VSYM_REPO) and the check writes to a scratch
directory (VSYM_SCRATCH), so several can run side by side and /repo is not
touched.  Used for regression runs while developing; the authoritative run
against /repo itself is seeded_all.py.  Does not rewrite meta.json; prints
one line per change and a summary."""
import json, os, subprocess, sys, glob, time, tempfile, shutil
from concurrent.futures import ThreadPoolExecutor
V = os.environ.get("VSYM_HOME") or os.path.dirname(os.path.dirname(os.path.abspath(__file__)))
ENV = dict(os.environ, GOFLAGS="-mod=mod", GOPROXY="off", GOSUMDB="off", GOTOOLCHAIN="local")
EXTRA = {"C09-B": ["C05"], "C09-r2C": ["C05"], "C10-r2C": ["C09"], "C03-r2C": ["C04"], "C19-r2C": ["C05"], "C06-r3A": ["C16"], "C18-r3A": ["C17"]}


KIND = "seeded"


def one(sid):
    d = os.path.join(V, KIND, sid)
    meta = json.load(open(os.path.join(d, "meta.json")))
    pid = meta["property"]
    wt = "/tmp/%srun-%s" % (KIND, sid)
    subprocess.run("git -C /repo worktree remove --force %s" % wt, shell=True, capture_output=True)
    subprocess.run("git -C /repo worktree add -q --detach %s HEAD" % wt, shell=True, check=True, capture_output=True)
    out = tempfile.mkdtemp(prefix="vsym-seed-")
    res = {}
    try:
        r = subprocess.run("git apply %s/patch.diff" % d, shell=True, cwd=wt, capture_output=True, text=True)
        if r.returncode != 0:
            return sid, pid, None, "patch does not apply"
        for p in [pid] + EXTRA.get(sid, []):
            t0 = time.time()
            r = subprocess.run("bin/vcheck %s quick" % p, shell=True, cwd=V, env=dict(ENV, VSYM_REPO=wt, VSYM_SCRATCH=out, VSYM_WORKERS=os.environ.get("VSYM_WORKERS", "4")),
                               capture_output=True, text=True, timeout=3600)
            res[p] = (r.returncode, round(time.time() - t0))
            if r.returncode == 1:
                break
    finally:
        subprocess.run("git -C /repo worktree remove --force %s" % wt, shell=True, capture_output=True)
        shutil.rmtree(wt, ignore_errors=True)
        shutil.rmtree(out, ignore_errors=True)
    by = [p for p, (rc, _) in res.items() if rc == 1]
    return sid, pid, by, res


def main():
    global KIND
    args = sys.argv[1:]
    jobs = 3
    if args and args[0] == "--benign":
        # the stored behaviour-preserving changes: every check must stay quiet
        KIND = "benign"
        args = args[1:]
    if args and args[0] == "-j":
        jobs = int(args[1])
        args = args[2:]
    ids = sorted(os.path.basename(x.rstrip("/")) for x in glob.glob(V + "/" + KIND + "/*/"))
    if args:
        ids = [i for i in ids if i in args or i.split("-")[0] in args]
    missed = []
    if KIND == "benign":
        loud = []
        with ThreadPoolExecutor(max_workers=jobs) as ex:
            for sid, pid, by, res in ex.map(one, ids):
                bad = by is None or any(rc != 0 for rc, _ in res.values())
                print(sid, "NOT QUIET" if bad else "quiet", res, flush=True)
                if bad:
                    loud.append(sid)
        print("SUMMARY: %d benign changes, %d not quiet: %s" % (len(ids), len(loud), loud))
        return
    with ThreadPoolExecutor(max_workers=jobs) as ex:
        for sid, pid, by, res in ex.map(one, ids):
            own = by and pid in by
            print(sid, "DETECTED by own check" if own else ("detected by %s" % by if by else "MISSED"), res, flush=True)
            if not by:
                missed.append(sid)
    print("SUMMARY: %d changes, %d missed: %s" % (len(ids), len(missed), missed))


if __name__ == "__main__":
    main()
