package csr

// Translator self-test (DESIGN 2.10): (1) the interpreter's concrete semantics
// against native execution — both run this very code and the emitted
// observations must agree; (2) the SMT encoding of every operator against the
// interpreter's constant folder — decided by z3 on forced-symbolic operands.

//vsym:pkg github.com/theparanoids/ysshra/csr
//vsym:entry S_concrete
//vsym:entry S_symbolic
//vsym:entry S_summaries
//vsym:replay same-harness

import (
	"bytes"
	"fmt"
	"strconv"
	"strings"

	"github.com/theparanoids/ysshra/message"
	"github.com/theparanoids/ysshra/sshutils/version"
)

var sSeed uint64 = 0x9e3779b97f4a7c15

func sRand() uint64 {
	sSeed ^= sSeed << 13
	sSeed ^= sSeed >> 7
	sSeed ^= sSeed << 17
	return sSeed
}

func sP(sb *strings.Builder, format string, a ...interface{}) { sb.WriteString(fmt.Sprintf(format, a...)) }

func sOperands() []uint64 {
	xs := []uint64{0, 1, 2, 3, 7, 8, 9, 10, 15, 16, 31, 32, 63, 64, 65, 127, 128, 255, 256, 0x7fff, 0x8000, 0xffff, 0x7fffffff, 0x80000000, 0xffffffff,
		0x7fffffffffffffff, 0x8000000000000000, 0xffffffffffffffff, 0xfffffffffffffffe}
	for i := 0; i < 12; i++ {
		xs = append(xs, sRand())
	}
	return xs
}

func S_concrete() {
	xs := sOperands()
	var sb strings.Builder
	for i, a := range xs {
		b := xs[(i*7+3)%len(xs)]
		// 64-bit unsigned / signed
		sa, sbb := int64(a), int64(b)
		sP(&sb, "%d %d %d %d %d %d %d|", a+b, a-b, a*b, a&b, a|b, a^b, a&^b)
		if b != 0 {
			sP(&sb, "%d %d|", a/b, a%b)
		}
		if sbb != 0 {
			sP(&sb, "%d %d|", sa/sbb, sa%sbb)
		}
		sh := b % 70
		sP(&sb, "%d %d %d|", a<<sh, a>>sh, sa>>sh)
		sP(&sb, "%v %v %v %v %v %v|", a < b, a <= b, sa < sbb, sa >= sbb, a == b, a != b)
		// narrower widths and conversions
		sP(&sb, "%d %d %d %d %d %d|", uint8(a), int8(a), uint16(a), int16(a), uint32(a), int32(a))
		sP(&sb, "%d %d %d %d|", int64(int8(a)), uint64(uint8(a))+uint64(int64(int16(a))), uint32(int32(int8(b))), int16(uint8(a))*int16(int8(b)))
		sP(&sb, "%d %d %d|", uint8(a)+uint8(b), int8(a)-int8(b), uint16(a)*uint16(b))
		sP(&sb, "%d %d|", uint8(a)<<(b%10), int8(a)>>(b%10))
		sP(&sb, "%d %d %d\n", ^a, -sa, min(sa, sbb)+max(int64(int32(a)), 5))
	}
	vEmit("intops", sb.String())

	// strings and bytes summaries
	words := []string{"", " ", "a", "ab", "a b", " a  b ", "Slot 9a:", "req=u@h IFVer=6", "A=B=C", "\tx\n", "NONS NSOK", "aaa", "abcabc", "ÄÖ", "Hello, World"}
	seps := []string{" ", "=", "a", "ab", "@", "", "bc"}
	sb.Reset()
	for _, w := range words {
		for _, s := range seps {
			sP(&sb, "%d %d %v %v %v %q %q|", strings.Index(w, s), strings.Count(w, s), strings.Contains(w, s), strings.HasPrefix(w, s), strings.HasSuffix(w, s),
				strings.Split(w, s), strings.Join(strings.Split(w, s), "+"))
		}
		sP(&sb, "%q %q %q %v %d %d\n", strings.TrimSpace(w), strings.ToLower(w), strings.ToUpper(w), strings.EqualFold(w, strings.ToUpper(w)), len(w), strings.IndexByte(w, 'b'))
	}
	vEmit("strings", sb.String())

	// formatting and parsing
	sb.Reset()
	for _, a := range xs[:20] {
		sP(&sb, "%d %x %v %s %q %5d|%s %s|", a, uint8(a), int32(a), strconv.Itoa(int(int16(a))), strconv.Itoa(int(uint8(a))), int8(a), strconv.FormatInt(int64(a), 10), strconv.FormatUint(a, 16))
		n, err := strconv.Atoi(strconv.Itoa(int(int32(a))))
		u, err2 := strconv.ParseUint(strconv.FormatUint(a%100000, 10), 10, 16)
		bv, err3 := strconv.ParseBool([]string{"true", "false", "1", "x", "T", ""}[a%6])
		sP(&sb, "%d %v %d %v %v %v\n", n, err == nil, u, err2 == nil, bv, err3 == nil)
	}
	sP(&sb, "%s|%v|%x|%q|%v|%d%%", "s", []string{"a", "b"}, "\x00\xff", "q\"", true, 7)
	vEmit("fmt", sb.String())

	// repository kernels on the repository's own test inputs
	sb.Reset()
	for _, txt := range []string{
		"IFVer=6 SSHClientVersion=8.1 req=user@host.com HardKey=true",
		"IFVer=6 req=dummy@dummy.com HardKey=false Touch2SSH=true IsFirefighter=true TouchlessSudoHosts=host1,host2 TouchlessSudoTime=20 SSHClientVersion=8.1",
		"req=a@b", "req=a@b@c", "IFVer=x req=@", "", "  ", "HardKey=true", "req=u@h TouchlessSudoTime=abc k=v=w k=z",
	} {
		a, err := message.UnmarshalLegacy(txt)
		if err != nil {
			sP(&sb, "ERR %s|", err.Error())
			continue
		}
		out, merr := a.MarshalLegacy()
		sP(&sb, "%d %q %q %q %v %v %v %q %d %d|%q %v|", a.IfVer, a.SSHClientVersion, a.Username, a.Hostname, a.HardKey, a.Touch2SSH, a.TouchlessSudo.IsFirefighter,
			a.TouchlessSudo.Hosts, a.TouchlessSudo.Time, len(a.Exts), out, merr == nil)
	}
	for _, argv := range [][]string{{"/usr/bin/gensign", "NONS", "Regular"}, {"a b", "NSOK c"}, {"x"}, {"a", "b", "c", "d", "e", "f", "g"}, {"a", "nons", "h"}, {}} {
		p, h, err := parseForceCommand(argv)
		sP(&sb, "%q %q %v|", string(p), h, err == nil)
	}
	for _, v := range []string{"8.1", "0.0", "65535.65535", "65536.0", "8", "8.", ".1", "a.b", "08.01", "8.1.2"} {
		ver, err := version.Unmarshal(v)
		sP(&sb, "%s %v|", ver.Marshal(), err == nil)
	}
	vEmit("kernels", sb.String())
}

// S_symbolic: every operator on operands forced symbolic must agree with the
// constant folder (the assertion is decided by the solver).
func S_symbolic() {
	xs := sOperands()
	for i, a := range xs {
		b := xs[(i*5+1)%len(xs)]
		x, y := vNondetU64("x"), vNondetU64("y")
		vAssume(x == a)
		vAssume(y == b)
		sx, sy, sa, sb := int64(x), int64(y), int64(a), int64(b)
		ok := vAnd(x+y == a+b, x-y == a-b)
		ok = vAnd(ok, vAnd(x*y == a*b, vAnd(x&y == a&b, vAnd(x|y == a|b, vAnd(x^y == a^b, x&^y == a&^b)))))
		if b != 0 {
			ok = vAnd(ok, vAnd(x/y == a/b, x%y == a%b))
		}
		if sb != 0 && !(sa == -1<<63 && sb == -1) {
			ok = vAnd(ok, vAnd(sx/sy == sa/sb, sx%sy == sa%sb))
		}
		sh, k := y%70, b%70
		ok = vAnd(ok, vAnd(x<<sh == a<<k, vAnd(x>>sh == a>>k, sx>>sh == sa>>k)))
		ok = vAnd(ok, vAnd((x < y) == (a < b), vAnd((sx < sy) == (sa < sb), vAnd((x <= y) == (a <= b), (sx >= sy) == (sa >= sb)))))
		ok = vAnd(ok, vAnd(uint8(x) == uint8(a), vAnd(int8(x) == int8(a), vAnd(uint16(x) == uint16(a), vAnd(int32(x) == int32(a), uint32(x) == uint32(a))))))
		ok = vAnd(ok, vAnd(int64(int8(x)) == int64(int8(a)), vAnd(uint64(uint8(x)) == uint64(uint8(a)), int16(uint8(x))*int16(int8(y)) == int16(uint8(a))*int16(int8(b)))))
		ok = vAnd(ok, vAnd(uint8(x)+uint8(y) == uint8(a)+uint8(b), vAnd(uint8(x)<<(y%10) == uint8(a)<<(b%10), int8(x)>>(y%10) == int8(a)>>(b%10))))
		ok = vAnd(ok, vAnd(^x == ^a, -sx == -sa))
		vAssert(ok, "selftest.smt-encoding-agrees-with-the-folder")
	}
}

// reference implementations (plain loops) for the string summaries
func refIndex(s, sep string) int {
	for i := 0; i+len(sep) <= len(s); i++ {
		if s[i:i+len(sep)] == sep {
			return i
		}
	}
	return -1
}

func refCount(s, sep string) int {
	n := 0
	for i := 0; i+len(sep) <= len(s); {
		if s[i:i+len(sep)] == sep {
			n++
			i += len(sep)
		} else {
			i++
		}
	}
	return n
}

func refIsSpace(c byte) bool { return c == ' ' || (c >= 9 && c <= 13) }

func refTrim(s string) string {
	lo, hi := 0, len(s)
	for lo < hi && refIsSpace(s[lo]) {
		lo++
	}
	for hi > lo && refIsSpace(s[hi-1]) {
		hi--
	}
	return s[lo:hi]
}

func refLower(s string) string {
	b := []byte(s)
	for i := range b {
		if b[i] >= 'A' && b[i] <= 'Z' {
			b[i] += 32
		}
	}
	return string(b)
}

// S_summaries: the engine's summaries of strings.* over symbolic bytes agree
// with plain-loop reference implementations for every byte value (ASCII bound).
func refCompare(a, b string) int {
	for i := 0; i < len(a) && i < len(b); i++ {
		if a[i] < b[i] {
			return -1
		}
		if a[i] > b[i] {
			return 1
		}
	}
	if len(a) < len(b) {
		return -1
	}
	if len(a) > len(b) {
		return 1
	}
	return 0
}

func S_summaries() {
	n := vChoose(4, "len")
	s := vNondetString("s", n)
	for i := 0; i < n; i++ {
		vAssume(s[i] < 0x80)
	}
	for _, sep := range []string{" ", "=", "ab", "@"} {
		vAssert(strings.Index(s, sep) == refIndex(s, sep), "selftest.strings.Index")
		vAssert(strings.Count(s, sep) == refCount(s, sep), "selftest.strings.Count")
		vAssert(strings.Contains(s, sep) == (refIndex(s, sep) >= 0), "selftest.strings.Contains")
		parts := strings.Split(s, sep)
		vAssert(len(parts) == refCount(s, sep)+1, "selftest.strings.Split-count")
		vAssert(vEqString(strings.Join(parts, sep), s), "selftest.strings.Split-Join-inverse")
	}
	vAssert(vEqString(strings.TrimSpace(s), refTrim(s)), "selftest.strings.TrimSpace")
	vAssert(vEqString(strings.ToLower(s), refLower(s)), "selftest.strings.ToLower")
	vAssert(strings.EqualFold(s, refLower(s)), "selftest.strings.EqualFold")
	if n > 0 {
		vAssert(strings.IndexByte(s, s[0]) == 0, "selftest.strings.IndexByte")
	}
	// three-way comparison against a plain loop
	t := vNondetString("t", vChoose(3, "len-t"))
	vAssert(strings.Compare(s, t) == refCompare(s, t), "selftest.strings.Compare")
	vAssert(bytes.Compare([]byte(s), []byte(t)) == refCompare(s, t), "selftest.bytes.Compare")
	vAssert((s < t) == (refCompare(s, t) < 0), "selftest.string-less")
	vAssert(vEqString(fmt.Sprintf("%s=%s", s, s), s+"="+s), "selftest.fmt.Sprintf-%s")
	h := fmt.Sprintf("%x", s)
	vAssert(len(h) == 2*n, "selftest.fmt.Sprintf-%x-length")
	for i := 0; i < n; i++ {
		hi, lo := s[i]>>4, s[i]&15
		vAssert(vAnd(h[2*i] == "0123456789abcdef"[hi], h[2*i+1] == "0123456789abcdef"[lo]), "selftest.fmt.Sprintf-%x-digits")
	}
}
