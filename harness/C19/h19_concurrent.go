package keyid

//vsym:pkg github.com/theparanoids/ysshra/keyid
//vsym:entry H19_keyid_decoding_is_unaffected_by_concurrent_callers
//vsym:model encoding/json.Marshal t05Marshal
//vsym:model encoding/json.Unmarshal t05Unmarshal
//vsym:include C05/s05.go
//vsym:include C05/h05_text.go
//vsym:include C05/h05_reentrant.go
//vsym:replay adapter ../C05/h05_race_replay_test.go race
//vsym:expect-cover C05.concurrent.marshal C05.concurrent.unmarshal
//vsym:bound H19_keyid_decoding_is_unaffected_by_concurrent_callers: the type, label and suffix are functions of the certificate alone also when other requests decode KeyIDs at the same time: decoding shares no unsynchronised state and touches no pooled object after returning it (bounds of C05's H05_concurrent_callers)
//vsym:assume two callers suffice (a data race is a pairwise notion); see C05

// Shared with C05.
func H19_keyid_decoding_is_unaffected_by_concurrent_callers() {
	H05_concurrent_callers()
}
