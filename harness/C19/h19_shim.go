package shimagent

//vsym:pkg github.com/theparanoids/ysshra/agent/shimagent
//vsym:include shim/world.go
//vsym:include shim/peek.go || shim/peek_bb.go
//vsym:entry H19_label_survives_the_agent
//vsym:replay same-harness
//vsym:expect-cover C19.shim.label
//vsym:bound H19_label_survives_the_agent: type name, label and principal suffix of a certificate evaluated before and after the shim agent (the main consumer of the label) served 1..2 requests out of AddHardCert, List, Signers, Sign, Remove for that certificate, in both modes; the exported type-name table compared entry by entry
//vsym:assume the shim world of C07..C10 (certificate codec, hash and clock modelled; keyid.Unmarshal summarised: "Y" decodes)

import (
	certutil "github.com/theparanoids/ysshra/sshutils/cert"
	"golang.org/x/crypto/ssh"
)

// H19_label_survives_the_agent: "a fixed function": what other code of the
// repository does with the label must not change the function.
func H19_label_survives_the_agent() {
	mwClock = 1000
	up := &mwUpstream{failAt: -1}
	s := mwNewServer(up, vChoose(2, "no-upstream-mode") == 1)
	mwUpKey(up, 1, "k")
	c := mwNewCert(1, 0, 1<<40, true)
	names := map[certutil.Type]string{}
	for t, n := range certutil.TypeLabel {
		names[t] = n
	}
	typ0 := certutil.GetType(c)
	name0 := typ0.String()
	label0, err0 := certutil.Label(c)
	prins0 := certutil.GetPrincipals([]string{"u"}, typ0)
	vAssert(err0 == nil && label0 == name0+"SSH-t", "C19.label-is-type-name-SSH-transaction-id")

	n := 1 + vChoose(2, "requests")
	for i := 0; i < n; i++ {
		switch vChoose(5, "request") {
		case 0:
			s.AddHardCert(c, "hw")
		case 1:
			s.List()
		case 2:
			s.Signers()
		case 3:
			s.Sign(ssh.PublicKey(c), []byte("d"))
		case 4:
			s.Remove(c)
		}
	}

	typ1 := certutil.GetType(c)
	label1, err1 := certutil.Label(c)
	vAssert(typ1 == typ0 && typ1.String() == name0, "C19.type-unchanged-by-agent-requests")
	vAssert(err1 == nil && label1 == label0, "C19.label-unchanged-by-agent-requests")
	prins1 := certutil.GetPrincipals([]string{"u"}, typ1)
	vAssert(len(prins1) == len(prins0) && (len(prins0) == 0 || prins1[0] == prins0[0]), "C19.principals-unchanged-by-agent-requests")
	vAssert(len(certutil.TypeLabel) == len(names), "C19.type-name-table-unchanged-by-agent-requests")
	for t, n := range names {
		vAssert(certutil.TypeLabel[t] == n, "C19.type-name-table-unchanged-by-agent-requests")
	}
	vReach("C19.shim.label")
}
