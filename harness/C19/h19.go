package cert

//vsym:pkg github.com/theparanoids/ysshra/sshutils/cert
//vsym:entry H19_type
//vsym:entry H19_principals
//vsym:model github.com/theparanoids/ysshra/keyid.Unmarshal m19Unmarshal
//vsym:replay same-harness
//vsym:expect-cover C19.unknown C19.nonce C19.firefighter C19.inagent C19.sudoinagent C19.touchsudo C19.touchless C19.touchlesssudo C19.undecodable C19.nil
//vsym:bound H19_type: certificate nil or not; KeyID decodes or not; four flags symbolic, touch policy any 64-bit int, transaction id 0..2 symbolic bytes; critical options nil / empty / key with empty value / key with a 1-byte value / another key only
//vsym:bound H19_principals: 0..2 principals of 0..2 symbolic bytes each; every type value 0..8
//vsym:assume keyid.Unmarshal is summarised by its C05 guarantee: error, or a KeyID satisfying the consistency rules (headless / nonce); replay uses the real keyid.Unmarshal on real JSON

import (
	"encoding/json"
	"errors"

	"github.com/theparanoids/ysshra/keyid"
	"golang.org/x/crypto/ssh"
)

var m19Decodes bool
var m19Kid keyid.KeyID

func m19Unmarshal(s string) (*keyid.KeyID, error) {
	if !m19Decodes {
		return nil, errors.New("model: does not decode")
	}
	k := m19Kid
	return &k, nil
}

// s19Names: the type names, written from the documentation independently of TypeLabel.
func s19Name(t Type) string {
	switch t {
	case TouchSudoCert:
		return "TouchSudo"
	case TouchlessCert:
		return "Touchless"
	case TouchlessSudoCert:
		return "TouchlessSudo"
	case FirefighterCert:
		return "FireFighterSudo"
	case NonceCert:
		return "Nonce"
	case TouchlessInAgentCert:
		return "TouchlessInAgent"
	case TouchlessSudoInAgentCert:
		return "TouchlessSudoInAgent"
	}
	return ""
}

func H19_type() {
	certNil := vChoose(2, "cert-nil") == 1
	m19Decodes = vNondetBool("decodes")
	nonce := vNondetBool("nonce")
	ff := vNondetBool("firefighter")
	hw := vNondetBool("hwkey")
	headless := vNondetBool("headless")
	policy := vNondetI64("policy")
	tidLen := vChoose(3, "transid-len")
	tid := vNondetString("transid", tidLen)
	m19Kid = keyid.KeyID{Principals: []string{"p"}, TransID: tid, ReqUser: "u", ReqIP: "1.1.1.1", ReqHost: "h",
		IsFirefighter: ff, IsHWKey: hw, IsHeadless: headless, IsNonce: nonce, TouchPolicy: keyid.TouchPolicy(policy), Version: 1}
	// C05's guarantee for decoded KeyIDs
	vAssume(vImplies(headless, vAnd(vAnd(!hw, !ff), policy == 1)))
	vAssume(vImplies(nonce, vAnd(vAnd(!ff, !headless), policy == 1)))

	optShape := vChoose(5, "options")
	var opts map[string]string
	sudoHosts := false
	switch optShape {
	case 0:
		opts = nil
	case 1:
		opts = map[string]string{}
	case 2:
		opts = map[string]string{"touchless-sudo-hosts": ""}
	case 3:
		opts = map[string]string{"touchless-sudo-hosts": vNondetString("hosts", 1)}
		sudoHosts = true
	case 4:
		opts = map[string]string{"force-command": "x"}
	}
	var crt *ssh.Certificate
	if !certNil {
		crt = &ssh.Certificate{KeyId: "model", Permissions: ssh.Permissions{CriticalOptions: opts}}
		if vIsNative() {
			if m19Decodes {
				b, _ := json.Marshal(&m19Kid)
				crt.KeyId = string(b)
			} else {
				crt.KeyId = "not a key id"
			}
		}
	}

	// oracle: the decision table of the statement
	want := UnknownCertType
	if !certNil && m19Decodes {
		switch {
		case nonce:
			want = NonceCert
		case ff && hw:
			want = FirefighterCert
		case ff && !hw:
			want = TouchlessInAgentCert
			if sudoHosts {
				want = TouchlessSudoInAgentCert
			}
		case policy == 3 || policy == 2: // cached, always
			want = TouchSudoCert
		case policy == 1: // never
			want = TouchlessCert
			if sudoHosts {
				want = TouchlessSudoCert
			}
		}
	}

	got := GetType(crt)
	vAssert(got == want, "C19.type-table")

	label, err := Label(crt)
	if want == UnknownCertType {
		vAssert(err != nil, "C19.unknown-has-no-label")
		vAssert(label == "", "C19.unknown-label-empty")
	} else {
		vAssert(err == nil, "C19.known-has-label")
		vAssert(vEqString(label, s19Name(want)+"SSH-"+tid), "C19.label-format")
		vAssert(want.String() == s19Name(want), "C19.type-name")
	}

	switch {
	case certNil:
		vReach("C19.nil")
	case !m19Decodes:
		vReach("C19.undecodable")
	}
	switch want {
	case UnknownCertType:
		if !certNil && m19Decodes {
			vReach("C19.unknown")
		}
	case NonceCert:
		vReach("C19.nonce")
	case FirefighterCert:
		vReach("C19.firefighter")
	case TouchlessInAgentCert:
		vReach("C19.inagent")
	case TouchlessSudoInAgentCert:
		vReach("C19.sudoinagent")
	case TouchSudoCert:
		vReach("C19.touchsudo")
	case TouchlessCert:
		vReach("C19.touchless")
	case TouchlessSudoCert:
		vReach("C19.touchlesssudo")
	}
}

func H19_principals() {
	n := vChoose(3, "nprins")
	var prins []string
	for i := 0; i < n; i++ {
		prins = append(prins, vNondetString("prin", vChoose(3, "prin-len")))
	}
	t := Type(vChoose(9, "type"))
	if t == 6 {
		return // deprecated, unnamed value: not a "known type" of the statement
	}
	orig := append([]string(nil), prins...)
	vFreeze("C19.principal-list-argument-not-modified", prins)
	got := GetPrincipals(prins, t)
	vCheckFrozen()
	vThaw()
	// a second evaluation over the same list gives the same answer
	again := GetPrincipals(prins, t)
	vAssert(len(again) == len(got), "C19.principals-same-answer-for-the-same-list")
	for i := 0; i < len(got) && i < len(again); i++ {
		vAssert(vEqString(again[i], got[i]), "C19.principals-same-answer-for-the-same-list")
	}
	prins = orig
	switch t {
	case UnknownCertType:
		vAssert(got == nil, "C19.principals-withheld")
	case TouchSudoCert:
		vAssert(len(got) == n, "C19.principals-count")
		for i := 0; i < n && i < len(got); i++ {
			vAssert(vEqString(got[i], prins[i]+":touch"), "C19.principals-touch")
		}
	case TouchlessCert, TouchlessSudoCert:
		vAssert(len(got) == n, "C19.principals-count")
		for i := 0; i < n && i < len(got); i++ {
			vAssert(vEqString(got[i], prins[i]+":notouch"), "C19.principals-notouch")
		}
	default:
		vAssert(len(got) == n, "C19.principals-count")
		for i := 0; i < n && i < len(got); i++ {
			vAssert(vEqString(got[i], prins[i]), "C19.principals-unchanged")
		}
	}
}
