package shimagent

//vsym:pkg github.com/theparanoids/ysshra/agent/shimagent
//vsym:include shim/world.go
//vsym:include shim/peek.go || shim/peek_bb.go
//vsym:include C10/h10.go
//vsym:entry H12_relayed_reply_is_the_peers_own
//vsym:replay same-harness
//vsym:max-len 4
//vsym:expect-cover C10.forward-ok
//vsym:bound H12_relayed_reply_is_the_peers_own: ServeAgent writes the relayed reply to its peer after Forward has returned: a request served on another connection must not write into it - bounds of C10's H10_forward
//vsym:assume the shim world of C07..C10

// shared with C10 (the code is the shim server's)
func H12_relayed_reply_is_the_peers_own() { H10_forward() }
