package yubiagent

//vsym:pkg github.com/theparanoids/ysshra/agent/yubiagent
//vsym:entry H12_read
//vsym:entry H12_serve
//vsym:entry H12_limits
//vsym:model (*golang.org/x/crypto/ssh/agent.server).processRequestBytes m12Process
//vsym:model golang.org/x/crypto/ssh.ParsePublicKey m12ParsePublicKey
//vsym:model golang.org/x/crypto/ssh.Unmarshal m12SSHUnmarshal
//vsym:model golang.org/x/crypto/ssh.Marshal m12SSHMarshal
//vsym:model encoding/pem.EncodeToMemory m12PEMEncode
//vsym:replay same-harness
//vsym:max-len 4
//vsym:expect-cover C12.limits C12.read.eof C12.read.too-large C12.read.data C12.read.short C12.serve.clean-eof C12.serve.error C12.serve.answered
//vsym:bound H12_read: any 4 length bytes (declared length 0..2^32-1), 0..4 body bytes available, optional short reads of 1 byte, EOF anywhere; allocation lengths are restricted to <= 4 after the 16 MiB obligation
//vsym:bound H12_serve: 0..2 frames of 0..3 (thorough 0..5) symbolic bytes each followed by a clean EOF or a truncated frame; the served YubiAgent returns arbitrary results/errors
//vsym:bound H12_limits: frames of exactly 16 MiB and 16 MiB + 1 bytes (concrete zero bytes): what read accepts, write must be able to re-frame for the forwarder
//vsym:assume writes to the connection succeed (the quantifier is the peer's byte stream); x/crypto's request decoding (processRequestBytes, ParsePublicKey, ssh.Unmarshal/Marshal) and pem.EncodeToMemory are modelled as arbitrary results; agent.ServeAgent's own loop is executed from source

import (
	"crypto/x509"
	"encoding/pem"
	"errors"
	"io"
	"time"

	"golang.org/x/crypto/ssh"
	sshagent "golang.org/x/crypto/ssh/agent"
)

// ---- connection model ---------------------------------------------------

type m12Conn struct {
	in        []byte
	pos       int
	short     bool   // deliver at most one byte per Read
	out       []byte // everything written
	log       []byte // 'r' = a Read that started a new request (pos at a frame start), 'w' = a Write
	frameAt   map[int]bool
	failAfter int
}

func (c *m12Conn) Read(p []byte) (int, error) {
	if c.frameAt[c.pos] {
		c.log = append(c.log, 'r')
	}
	if c.pos >= len(c.in) {
		return 0, io.EOF
	}
	n := len(p)
	if c.short && n > 1 {
		n = 1
	}
	if n > len(c.in)-c.pos {
		n = len(c.in) - c.pos
	}
	copy(p, c.in[c.pos:c.pos+n])
	c.pos += n
	return n, nil
}

func (c *m12Conn) Write(p []byte) (int, error) {
	c.out = append(c.out, p...)
	c.log = append(c.log, 'w')
	return len(p), nil
}

// complete response frames in the written bytes; -1 if malformed
func (c *m12Conn) responses() int {
	n, i := 0, 0
	for i < len(c.out) {
		if i+4 > len(c.out) {
			return -1
		}
		l := int(c.out[i])<<24 | int(c.out[i+1])<<16 | int(c.out[i+2])<<8 | int(c.out[i+3])
		i += 4
		if l < 0 || i+l > len(c.out) {
			return -1
		}
		i += l
		n++
	}
	return n
}

// ---- library models -----------------------------------------------------

type m12Key struct{}

func (m12Key) Type() string                          { return "ssh-model-cert" }
func (m12Key) Marshal() []byte                       { return []byte{9} }
func (m12Key) Verify(d []byte, s *ssh.Signature) error { return nil }

var m12Pool []bool
var m12PoolPos int

func m12Flip() bool {
	if m12PoolPos >= len(m12Pool) {
		return false
	}
	b := m12Pool[m12PoolPos]
	m12PoolPos++
	return b
}

var m12Processed, m12Forwarded [][]byte

func m12Process(_ *int, req []byte) []byte {
	m12Processed = append(m12Processed, append([]byte(nil), req...))
	return []byte{5} // some reply; its content is x/crypto's business
}
func m12ParsePublicKey(in []byte) (ssh.PublicKey, error) {
	if m12Flip() {
		return nil, errors.New("model: not a key")
	}
	return m12Key{}, nil
}
func m12SSHUnmarshal(data []byte, out interface{}) error {
	if m12Flip() {
		return errors.New("model: malformed message")
	}
	if m, ok := out.(*agentAddHardCertReq); ok {
		m.KeyBlob = []byte{9}
		m.Comment = "c"
	}
	return nil
}
func m12SSHMarshal(msg interface{}) []byte   { return []byte{1, 2} }
func m12PEMEncode(b *pem.Block) []byte        { return []byte("PEM") }

// ---- served agent model -------------------------------------------------

type m12Agent struct{}

func m12Err() error {
	if m12Flip() {
		return errors.New("e")
	}
	return nil
}
func (m12Agent) List() ([]*sshagent.Key, error)                          { return nil, nil }
func (m12Agent) Sign(ssh.PublicKey, []byte) (*ssh.Signature, error)      { return nil, errors.New("e") }
func (m12Agent) Add(sshagent.AddedKey) error                             { return nil }
func (m12Agent) Remove(ssh.PublicKey) error                              { return nil }
func (m12Agent) RemoveAll() error                                        { return nil }
func (m12Agent) Lock([]byte) error                                       { return nil }
func (m12Agent) Unlock([]byte) error                                     { return nil }
func (m12Agent) Signers() ([]ssh.Signer, error)                          { return nil, nil }
func (m12Agent) SignWithFlags(ssh.PublicKey, []byte, sshagent.SignatureFlags) (*ssh.Signature, error) {
	return nil, errors.New("e")
}
func (m12Agent) Extension(string, []byte) ([]byte, error) { return nil, m12Err() }
func (m12Agent) Forward(req []byte) ([]byte, error) {
	m12Forwarded = append(m12Forwarded, append([]byte(nil), req...))
	if m12Flip() {
		return nil, errors.New("e")
	}
	if m12Flip() {
		return []byte{}, nil // the upstream agent answered with an empty frame: still one response frame
	}
	return []byte{7}, nil
}
func (m12Agent) AddHardCert(ssh.PublicKey, string) error { return m12Err() }
func (m12Agent) Wait(byte) error                         { return m12Err() }
func (m12Agent) Close() error                            { return nil }
func (m12Agent) ListSlots() ([]string, error) {
	if m12Flip() {
		return nil, errors.New("e")
	}
	return []string{"9a"}, nil
}
func (m12Agent) ReadSlot(string) (*x509.Certificate, error) {
	if m12Flip() {
		return nil, errors.New("e")
	}
	return &x509.Certificate{Raw: []byte{1}}, nil
}
func (m12Agent) AttestSlot(string) (*x509.Certificate, error) {
	if m12Flip() {
		return nil, errors.New("e")
	}
	return &x509.Certificate{Raw: []byte{1}}, nil
}
func (m12Agent) AddSmartcardKey(string, []byte, time.Duration, bool) error { return nil }
func (m12Agent) RemoveSmartcardKey(string, []byte) error                   { return nil }

// ---- harnesses ----------------------------------------------------------

func H12_read() {
	vAllocWatch()
	vMaxLen(4)
	hdr := vChoose(5, "header-bytes") // 0..4 length bytes available
	var in []byte
	in = append(in, vNondetBytes("len", hdr)...)
	avail := 0
	if hdr == 4 {
		avail = vChoose(5, "body-bytes")
		in = append(in, vNondetBytes("body", avail)...)
	}
	c := &m12Conn{in: in, short: vChoose(2, "short-reads") == 1, frameAt: map[int]bool{}}
	var data []byte
	var err error
	crashed := vCatch(func() { data, err = read(c) })
	vAssert(!crashed, "C12.read-no-crash")
	if crashed {
		return
	}
	if hdr == 0 {
		vAssert(err == io.EOF, "C12.read-eof-at-frame-boundary-is-io.EOF")
		vReach("C12.read.eof")
		return
	}
	if hdr < 4 {
		vAssert(err != nil, "C12.read-truncated-length-is-error")
		return
	}
	l := uint32(in[0])<<24 | uint32(in[1])<<16 | uint32(in[2])<<8 | uint32(in[3])
	vCover(l > 16<<20, "C12.read.too-large")
	if l > 16<<20 {
		vAssert(err != nil, "C12.read-refuses-frames-above-16MiB")
		return
	}
	if int(l) <= avail {
		vAssert(err == nil, "C12.read-complete-frame-ok")
		vAssert(len(data) == int(l), "C12.read-length")
		if err == nil && len(data) == int(l) {
			vAssert(vEqBytes(data, in[4:4+len(data)]), "C12.read-bytes")
		}
		vReach("C12.read.data")
	} else {
		vAssert(err != nil, "C12.read-short-body-is-error")
		vReach("C12.read.short")
	}
}

func H12_serve() {
	vAllocWatch()
	vMaxLen(4)
	maxFrames, maxLen := 2, 3
	if vThorough() {
		maxFrames, maxLen = 2, 5
	}
	m12Pool = make([]bool, 8)
	for i := range m12Pool {
		m12Pool[i] = vNondetBool("env")
	}
	nf := vChoose(maxFrames+1, "frames")
	c := &m12Conn{frameAt: map[int]bool{}}
	for i := 0; i < nf; i++ {
		l := vChoose(maxLen+1, "frame-len")
		c.frameAt[len(c.in)] = true
		c.in = append(c.in, 0, 0, 0, byte(l))
		c.in = append(c.in, vNondetBytes("frame", l)...)
	}
	c.frameAt[len(c.in)] = true
	tail := vChoose(3, "tail") // clean EOF / truncated length / truncated body
	switch tail {
	case 1:
		c.in = append(c.in, vNondetBytes("tail-len", 2)...)
	case 2:
		c.in = append(c.in, 0, 0, 0, 3)
		c.in = append(c.in, vNondetBytes("tail-body", 1)...)
	}
	var err error
	crashed := vCatch(func() { err = ServeAgent(m12Agent{}, c) })
	vRunGoroutines()
	vFact("frames", nf)
	if nf > 0 {
		vFact("first-frame-len", int(c.in[3]))
	}
	vAssert(!crashed, "C12.serve-no-crash")
	if crashed {
		return
	}
	resp := c.responses()
	vAssert(resp >= 0, "C12.serve-responses-well-framed")
	if err == nil {
		// service ended without error: the stream ended cleanly between
		// frames and every complete request was answered exactly once
		vAssert(tail == 0, "C12.serve-nil-only-on-clean-eof")
		vAssert(resp == nf, "C12.serve-one-response-per-request")
		vReach("C12.serve.clean-eof")
	} else {
		vAssert(resp <= nf, "C12.serve-at-most-one-response-per-request")
		vReach("C12.serve.error")
	}
	if tail == 0 && resp == nf && nf > 0 {
		vReach("C12.serve.answered")
	}
	// responses are written in request order: before request i+1 is read,
	// request i's response (both writes) is out
	reads, writes := 0, 0
	for _, e := range c.log {
		if e == 'r' {
			reads++
			vAssert(writes == 2*(reads-1), "C12.serve-response-before-next-request")
		} else {
			writes++
		}
	}
}

// H12_dispatch: which requests the served agent's own methods answer (through
// the ssh-agent library's server) and which are relayed raw.
func H12_dispatch() {
	m12Pool = make([]bool, 8)
	for i := range m12Pool {
		m12Pool[i] = vNondetBool("env")
	}
	m12Processed, m12Forwarded = nil, nil
	l := 2 + vChoose(2, "frame-len")
	frame := vNondetBytes("frame", l)
	c := &m12Conn{frameAt: map[int]bool{}}
	c.frameAt[0] = true
	c.in = append(c.in, 0, 0, 0, byte(l))
	c.in = append(c.in, frame...)
	c.frameAt[len(c.in)] = true
	crashed := vCatch(func() { ServeAgent(m12Agent{}, c) })
	vRunGoroutines()
	vAssert(!crashed, "C12.serve-no-crash")
	if crashed {
		return
	}
	code := frame[0]
	lib := false
	for _, k := range []byte{1, 11, 13, 17, 18, 19, 22, 23, 25} {
		lib = vOr(lib, code == k)
	}
	ext := vAnd(code >= 31, code <= 35)
	unclaimed := vOr(code == 9, code == 27)
	if lib {
		vAssert(len(m12Forwarded) == 0, "C13.library-requests-are-not-relayed")
		vAssert(len(m12Processed) == 1 && vEqBytes(m12Processed[0], frame), "C13.library-requests-reach-the-served-agent-unchanged")
		vReach("C13.dispatch.library")
	} else if !ext && !unclaimed {
		vAssert(len(m12Processed) == 0, "C13.other-requests-are-not-interpreted")
		vAssert(len(m12Forwarded) == 1 && vEqBytes(m12Forwarded[0], frame), "C13.other-requests-are-relayed-raw-once")
		vReach("C13.dispatch.relayed")
	}
}

// counting writer: keeps only the lengths
type m12Count struct{ n int }

func (c *m12Count) Write(p []byte) (int, error) { c.n += len(p); return len(p), nil }

type m12Zeros struct {
	hdr  []byte
	pos  int
	body int
}

func (z *m12Zeros) Read(p []byte) (int, error) {
	if z.pos < len(z.hdr) {
		n := copy(p, z.hdr[z.pos:])
		z.pos += n
		return n, nil
	}
	if z.body <= 0 {
		return 0, io.EOF
	}
	n := len(p)
	if n > z.body {
		n = z.body
	}
	z.body -= n
	return n, nil // p is left as it is (zero bytes)
}

func H12_limits() {
	const lim = 16 << 20
	which := vChoose(2, "size")
	n := lim + which // exactly the limit, or one more
	// read: a frame declared with exactly 16 MiB is accepted, one more is refused before allocating
	vAllocWatch()
	hdr := []byte{byte(n >> 24), byte(n >> 16), byte(n >> 8), byte(n)}
	data, rerr := read(&m12Zeros{hdr: hdr, body: n})
	if which == 0 {
		vAssert(rerr == nil && len(data) == lim, "C12.read-accepts-a-frame-of-exactly-16MiB")
		// … and such a request can be re-framed for the forwarded agent protocol
		w := &m12Count{}
		werr := write(w, data)
		vAssert(werr == nil && w.n == lim+4, "C12.write-can-frame-whatever-read-accepts")
	} else {
		vAssert(rerr != nil && data == nil, "C12.read-refuses-frames-above-16MiB")
	}
	vReach("C12.limits")
}
