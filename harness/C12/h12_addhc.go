package yubiagent

//vsym:pkg github.com/theparanoids/ysshra/agent/yubiagent
//vsym:include yubiagent/ctor.go || yubiagent/ctor_bb.go
//vsym:include C13/zz_stub.go
//vsym:include C13/h13_addhc.go
//vsym:entry H12_addhardcert_answered_once
//vsym:model golang.org/x/crypto/ssh.ParsePublicKey m13ParsePublicKey
//vsym:model golang.org/x/crypto/ssh.Unmarshal m13SSHUnmarshal
//vsym:model golang.org/x/crypto/ssh.Marshal m13SSHMarshal
//vsym:replay none
//vsym:expect-cover C13.addhc.legacy C13.addhc.current C13.addhc.malformed
//vsym:bound H12_addhardcert_answered_once: every well-formed add-hardware-certificate request, in the legacy or the current frame format (also a legacy frame that would decode as the structured request), is answered with exactly one response and does not end the connection - bounds of C13's H13_addhardcert
//vsym:assume as C13's h13_addhc.go

func H12_addhardcert_answered_once() { H13_addhardcert() }
