package shimagent

//vsym:pkg github.com/theparanoids/ysshra/agent/shimagent
//vsym:include shim/world.go
//vsym:include shim/peek.go || shim/peek_bb.go
//vsym:include C11/h11.go
//vsym:entry H12_no_request_leaves_the_agent_locked_up
//vsym:replay adapter ../C11/h11_replay_test.go race
//vsym:expect-cover C11.traced
//vsym:bound H12_no_request_leaves_the_agent_locked_up: the agent keeps answering: no operation of the served shim agent returns while still holding the shim lock (a later frame on any connection would never be answered), for each of the 12 operations from locked and unlocked pre-states - bounds of C11's H11_traces and its pairwise schedule queries
//vsym:assume as C11

// A request that overlaps a Lock must see either the state before or the
// state after it; shared with C11.
func H12_no_request_leaves_the_agent_locked_up() { H11_traces() }
