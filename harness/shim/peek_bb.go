package shimagent

// Black-box twin of peek.go, used when peek.go does not compile against the
// current tree: the same functions through the public operations of Server
// only.  What cannot be observed without disturbing the scenario is reported
// as unknown (mwPeek == false) and the harnesses skip those obligations.

import (
	"io"

	"golang.org/x/crypto/ssh"
)

const mwPeek = false

// mwPutMem registers the certificate through AddHardCert; the underlying
// agent lists the certificate's key for the duration of the call.
func mwPutMem(s *Server, c *ssh.Certificate) {
	up := mwCurrentUp
	calls, log, failAt := up.calls, up.log, up.failAt
	up.failAt = -1
	n := len(up.ids)
	kb := c.Key.Marshal()
	if !up.has(kb) {
		up.ids = append(up.ids, &mwIdent{format: c.Key.Type(), blob: kb, comment: "tmp"})
	}
	if err := s.AddHardCert(c, "mem"); err != nil {
		panic("mwPutMem (black-box): AddHardCert refused: " + err.Error())
	}
	up.ids = up.ids[:n]
	up.calls, up.log, up.failAt = calls, log, failAt
}

func mwInv(s *Server) bool                        { return mwCertsIntact() }
func mwMemHas(s *Server, c *ssh.Certificate) bool { return false }
func mwMemLen(s *Server) int                      { return 0 }
func mwCacheLen(s *Server) int                    { return 0 }
func mwCacheHas(s *Server, blob []byte) bool      { return false }
func mwLocked(s *Server) bool                     { return false }

// mwForceLocked: through Lock (this also locks the underlying agent model)
func mwForceLocked(s *Server) {
	up := mwCurrentUp
	calls, log, failAt := up.calls, up.log, up.failAt
	up.failAt = -1
	if err := s.Lock([]byte("p")); err != nil {
		panic("mwForceLocked (black-box): Lock refused: " + err.Error())
	}
	up.calls, up.log, up.failAt = calls, log, failAt
}

var mwBBConn io.ReadWriteCloser

// mwSetConn: not possible from outside; the scenario that needs another
// connection is skipped (vAssume(false)).
func mwSetConn(s *Server, c io.ReadWriteCloser) { vAssume(false) }
func mwConnOf(s *Server) io.ReadWriteCloser     { return nil }
