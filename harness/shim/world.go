package shimagent

// Shared world model for the shim-agent harnesses (C07-C11, C20): the
// underlying ssh-agent, keys and certificates with short injective blobs,
// the clock, sha256 and the certificate codec.

//vsym:pkg github.com/theparanoids/ysshra/agent/shimagent
//vsym:model crypto/sha256.Sum256 mwSum256
//vsym:model time.Now mwNow
//vsym:model golang.org/x/crypto/ssh.ParsePublicKey mwParsePublicKey
//vsym:model (*golang.org/x/crypto/ssh.Certificate).Marshal mwCertMarshal
//vsym:model (*golang.org/x/crypto/ssh.Certificate).Type mwCertType
//vsym:model github.com/theparanoids/ysshra/keyid.Unmarshal mwKeyIDUnmarshal
//vsym:model go.uber.org/multierr.Append mwMultierrAppend
//vsym:model github.com/theparanoids/ysshra/agent/ssh/connection.GetConn mwGetConn
//vsym:model golang.org/x/crypto/ssh/agent.NewClient mwNewClient
//vsym:assume sha256 is modelled as an injective padding of the (at most 31-byte) model blobs: collision-freeness; certificates and keys are model objects with injective 2-byte blobs, ssh.ParsePublicKey / (*Certificate).Marshal are the registry lookup between blob and object; keyid.Unmarshal is summarised as a per-certificate flag (decodes or not, C05); time.Now is an arbitrary instant; the underlying agent is a stateful protocol-level model that may fail at a chosen call; sort.Slice is the identity permutation

import (
	"crypto/ed25519"
	crand "crypto/rand"
	"errors"
	"io"
	"math"
	"net"
	"os"
	"path/filepath"
	"strings"
	"time"

	"github.com/theparanoids/ysshra/keyid"
	"golang.org/x/crypto/ssh"
	"golang.org/x/crypto/ssh/agent"
)

const mwCertFormat = "ssh-model-cert-v01@openssh.com"
const mwKeyFormat = "ssh-model"

func mwSum256(data []byte) [32]byte {
	var h [32]byte
	if len(data) > 31 {
		panic("mwSum256: blob too long for the injective hash model")
	}
	h[0] = byte(len(data))
	copy(h[1:], data)
	return h
}

var mwClock int64

func mwNow() time.Time { return time.Unix(mwClock, 0) }

func mwMultierrAppend(l, r error) error {
	if l == nil {
		return r
	}
	return l
}

// ---- keys and certificates ---------------------------------------------------

// Native replay world: when a counterexample is replayed against the real
// build (vIsNative), keys and certificates are real ed25519 keys / signed
// certificates, blobs are their real wire encodings, sha256 / the certificate
// codec / the KeyID decoder / the clock are the real ones; validity windows
// keep their order relation to the clock (deltas scaled from seconds to hours
// so that the few seconds a replay takes do not matter).

var nwKeys = map[int]ed25519.PrivateKey{}
var nwNow = time.Now().Unix()

func nwPriv(id int) ed25519.PrivateKey {
	if k, ok := nwKeys[id]; ok {
		return k
	}
	_, k, _ := ed25519.GenerateKey(crand.Reader)
	nwKeys[id] = k
	return k
}

// nwScale: real seconds per model clock unit
var nwScale int64 = 3600

// nwShift maps a model instant to a real one with the same order relation to the clock.
func nwShift(v uint64) uint64 {
	if v > math.MaxInt64 {
		return v
	}
	d := int64(v) - mwClock
	scale := nwScale
	if d > (math.MaxInt64-nwNow)/scale {
		return math.MaxInt64
	}
	r := nwNow + d*scale
	if d < 0 && (d < -nwNow/scale || r < 0) {
		return 0
	}
	return uint64(r)
}

// nwKeyIDText: natively, the real KeyID text with the attributes of mwKeyIDTemplate
func nwKeyIDText() string {
	k := mwKeyIDTemplate
	k.Principals, k.ReqUser, k.ReqIP, k.ReqHost = []string{"u"}, "u", "1.1.1.1", "h"
	s, err := k.Marshal()
	if err != nil {
		panic("nwKeyIDText: " + err.Error())
	}
	return s
}

// mwPlainKey: the public key with the given id (a model object, or a real key natively).
func mwPlainKey(id int) ssh.PublicKey {
	if vIsNative() {
		k, _ := ssh.NewPublicKey(nwPriv(id).Public())
		return k
	}
	return &mwKey{id: id}
}

func mwKeyBlob(id int) []byte { return mwPlainKey(id).Marshal() }

// mwUpKey / mwUpCert: put an identity into the underlying agent.
func mwUpKey(u *mwUpstream, id int, comment string) {
	k := mwPlainKey(id)
	u.ids = append(u.ids, &mwIdent{format: k.Type(), blob: k.Marshal(), comment: comment})
}

func mwUpCert(u *mwUpstream, c *ssh.Certificate, comment string) {
	format := mwCertFormat
	if vIsNative() {
		format = c.Type()
	}
	u.ids = append(u.ids, &mwIdent{format: format, blob: mwCertMarshal(c), comment: comment})
}

// mwCertByBlob: registry lookup (nil if the blob is not a registered certificate).
func mwCertByBlob(blob []byte) *ssh.Certificate {
	for _, c := range mwCerts {
		if string(mwCertMarshal(c)) == string(blob) {
			return c
		}
	}
	return nil
}

func mwCertDecodes(c *ssh.Certificate) bool {
	i := mwCertIndex(c)
	return i >= 0 && mwDecodes[i]
}

type mwKey struct{ id int }

func (k *mwKey) Type() string                            { return mwKeyFormat }
func (k *mwKey) Marshal() []byte                         { return []byte{'k', byte(k.id)} }
func (k *mwKey) Verify(d []byte, s *ssh.Signature) error { return nil }

var mwCerts []*ssh.Certificate // registry; blob of mwCerts[i] is {'c', i}
var mwDecodes []bool           // does the certificate's KeyID decode as a YSSHCA KeyID?

// mwPadKeyID: KeyIDs carry a trailing newline (what json.Encoder emits; the
// JSON decoder accepts surrounding white space)
var mwPadKeyID bool
var mwCertSnap []ssh.Certificate // the fields of every registered certificate as created

func mwNewCert(keyID int, va, vb uint64, decodes bool) *ssh.Certificate {
	c := &ssh.Certificate{Key: &mwKey{id: keyID}, ValidAfter: va, ValidBefore: vb, KeyId: "N"}
	if decodes {
		c.KeyId = "Y"
	}
	if mwPadKeyID {
		c.KeyId += "\n"
	}
	if vIsNative() {
		c = &ssh.Certificate{Key: mwPlainKey(keyID), ValidAfter: nwShift(va), ValidBefore: nwShift(vb), KeyId: "not a key id", CertType: ssh.UserCert,
			Nonce: []byte{byte(len(mwCerts))}, Serial: uint64(len(mwCerts))}
		if decodes {
			c.KeyId = nwKeyIDText()
		}
		if mwPadKeyID {
			c.KeyId += "\n"
		}
		sg, _ := ssh.NewSignerFromKey(nwPriv(100))
		if err := c.SignCert(crand.Reader, sg); err != nil {
			panic(err)
		}
	}
	mwCerts = append(mwCerts, c)
	mwDecodes = append(mwDecodes, decodes)
	mwCertSnap = append(mwCertSnap, *c)
	return c
}

// mwCertsIntact: no operation rewrote a field of a certificate it was handed
func mwCertsIntact() bool {
	ok := true
	for i, c := range mwCerts {
		sn := &mwCertSnap[i]
		if c.KeyId != sn.KeyId || c.Key == nil || string(c.Key.Marshal()) != string(sn.Key.Marshal()) || c.Serial != sn.Serial || c.CertType != sn.CertType || len(c.ValidPrincipals) != len(sn.ValidPrincipals) {
			ok = false
		}
		ok = vAnd(ok, vAnd(c.ValidAfter == sn.ValidAfter, c.ValidBefore == sn.ValidBefore))
	}
	return ok
}

func mwCertIndex(c *ssh.Certificate) int {
	for i, x := range mwCerts {
		if x == c {
			return i
		}
	}
	return -1
}

func mwCertBlob(i int) []byte { return []byte{'c', byte(i)} }

func mwCertMarshal(c *ssh.Certificate) []byte {
	if vIsNative() {
		return c.Marshal()
	}
	i := mwCertIndex(c)
	if i < 0 {
		return []byte{'c', 0xff}
	}
	if c.KeyId != mwCertSnap[i].KeyId {
		return []byte{'c', byte(i), '!'} // a different certificate now
	}
	return mwCertBlob(i)
}
func mwCertType(c *ssh.Certificate) string { return mwCertFormat }

func mwParsePublicKey(in []byte) (ssh.PublicKey, error) {
	if len(in) == 2 && in[0] == 'c' && int(in[1]) < len(mwCerts) {
		return mwCerts[in[1]], nil
	}
	if len(in) == 2 && in[0] == 'k' {
		return &mwKey{id: int(in[1])}, nil
	}
	return nil, errors.New("model: unknown key blob")
}

// mwKeyIDTemplate: what a decoding KeyID says (a harness may make the
// attributes arbitrary; by default a plain never-touch KeyID)
var mwKeyIDTemplate = keyid.KeyID{Version: 1, TransID: "t", TouchPolicy: keyid.NeverTouch}

func mwKeyIDUnmarshal(s string) (*keyid.KeyID, error) {
	if strings.TrimSpace(s) == "Y" {
		k := mwKeyIDTemplate
		return &k, nil
	}
	return nil, errors.New("model: not a YSSHCA KeyID")
}

// ---- the underlying agent ------------------------------------------------------

type mwIdent struct {
	format  string
	blob    []byte
	comment string
}

type mwUpstream struct {
	ids     []*mwIdent
	locked  bool
	pass    []byte
	calls   int
	failAt  int // index of the call that fails; -1 none
	failed  bool
	failText string // error text of the failing call ("" = a generic refusal)
	log     []string
	signReq []mwSignReq
	added   []agent.AddedKey
	nconns  []net.Conn // natively: the server side of the connections the shim opened
	// a second client of the underlying agent (which the shim lock does not
	// cover) acts just before the call with this index is served
	intrudeAt int
	intrude   func()
}

// dropNative: natively a transport failure is a dropped connection (the
// x/crypto client then reports "agent: client error: EOF")
func (u *mwUpstream) dropNative() {
	if vIsNative() && strings.HasPrefix(u.failText, "agent: client error") {
		for _, c := range u.nconns {
			c.Close()
		}
	}
}

type mwSignReq struct {
	blob  []byte
	data  []byte
	flags agent.SignatureFlags
}

func (u *mwUpstream) fault(op string) bool {
	// every call of the underlying-agent client holds the client's own mutex
	// around its request/reply exchange on the connection (agent.NewClient)
	vAccess("acqW", "client.mu")
	vAccess("wr", "conn")
	vAccess("relW", "client.mu")
	if u.intrude != nil && u.calls == u.intrudeAt {
		f := u.intrude
		u.intrude = nil
		f()
	}
	u.calls++
	u.log = append(u.log, op)
	if u.failAt >= 0 && u.calls-1 == u.failAt {
		u.failed = true
		return true
	}
	return false
}

func (u *mwUpstream) has(blob []byte) bool {
	for _, id := range u.ids {
		if string(id.blob) == string(blob) {
			return true
		}
	}
	return false
}

func (u *mwUpstream) List() ([]*agent.Key, error) {
	if u.fault("List") {
		return nil, errors.New("model: upstream list failed")
	}
	if u.locked {
		return []*agent.Key{}, nil
	}
	var out []*agent.Key
	for _, id := range u.ids {
		out = append(out, &agent.Key{Format: id.format, Blob: id.blob, Comment: id.comment})
	}
	return out, nil
}

func (u *mwUpstream) Remove(key ssh.PublicKey) error {
	blob := key.Marshal()
	if u.fault("Remove:" + string(blob)) {
		return errors.New("model: upstream remove failed")
	}
	if u.locked {
		return errors.New("model: upstream locked")
	}
	for i, id := range u.ids {
		if string(id.blob) == string(blob) {
			u.ids = append(u.ids[:i:i], u.ids[i+1:]...)
			return nil
		}
	}
	return errors.New("model: key not found upstream")
}

func (u *mwUpstream) RemoveAll() error {
	if u.fault("RemoveAll") {
		return errors.New("model: upstream removeall failed")
	}
	if u.locked {
		return errors.New("model: upstream locked")
	}
	u.ids = nil
	return nil
}

func (u *mwUpstream) Add(k agent.AddedKey) error {
	if u.fault("Add") {
		return errors.New("model: upstream add failed")
	}
	if u.locked {
		return errors.New("model: upstream locked")
	}
	u.added = append(u.added, k)
	return nil
}

func (u *mwUpstream) Sign(key ssh.PublicKey, data []byte) (*ssh.Signature, error) {
	return u.SignWithFlags(key, data, 0)
}

func (u *mwUpstream) SignWithFlags(key ssh.PublicKey, data []byte, flags agent.SignatureFlags) (*ssh.Signature, error) {
	blob := key.Marshal()
	if u.fault("Sign:" + string(blob)) {
		return nil, errors.New("model: upstream sign failed")
	}
	u.signReq = append(u.signReq, mwSignReq{blob: blob, data: data, flags: flags})
	if u.locked || !u.has(blob) {
		return nil, errors.New("model: upstream cannot sign with that key")
	}
	return &ssh.Signature{Format: "model", Blob: append([]byte{'s'}, blob...)}, nil
}

type mwSigner struct {
	u   *mwUpstream
	key *agent.Key
}

func (s *mwSigner) PublicKey() ssh.PublicKey { return s.key }
func (s *mwSigner) Sign(r io.Reader, data []byte) (*ssh.Signature, error) {
	return s.u.Sign(s.key, data)
}

func (u *mwUpstream) Signers() ([]ssh.Signer, error) {
	if u.fault("Signers") {
		return nil, errors.New("model: upstream signers failed")
	}
	if u.locked {
		return nil, nil
	}
	var out []ssh.Signer
	for _, id := range u.ids {
		out = append(out, &mwSigner{u: u, key: &agent.Key{Format: id.format, Blob: id.blob, Comment: id.comment}})
	}
	return out, nil
}

func (u *mwUpstream) Lock(p []byte) error {
	if u.fault("Lock") {
		u.dropNative()
		if u.failText != "" {
			return errors.New(u.failText)
		}
		return errors.New("agent: failure")
	}
	if u.locked {
		return errors.New("model: upstream already locked")
	}
	u.locked = true
	u.pass = append([]byte(nil), p...)
	return nil
}

func (u *mwUpstream) Unlock(p []byte) error {
	if u.fault("Unlock") {
		u.dropNative()
		if u.failText != "" {
			return errors.New(u.failText)
		}
		return errors.New("agent: failure")
	}
	if !u.locked {
		return errors.New("model: upstream not locked")
	}
	if len(p) != len(u.pass) || !vEqBytes(p, u.pass) {
		return errors.New("model: wrong passphrase")
	}
	u.locked = false
	return nil
}

func (u *mwUpstream) Extension(t string, c []byte) ([]byte, error) {
	if u.fault("Extension") {
		return nil, errors.New("model: upstream extension failed")
	}
	return []byte{'e'}, nil
}

// ---- the shim server in an arbitrary valid state ----------------------------------

type mwConn struct {
	closed bool
}

func (c *mwConn) Read(p []byte) (int, error)  { vAccess("wr", "conn"); return 0, io.EOF }
func (c *mwConn) Write(p []byte) (int, error) { vAccess("wr", "conn"); return len(p), nil }
func (c *mwConn) Close() error                { vAccess("wr", "conn"); c.closed = true; return nil }

// mwUpstreamConn: the connection handed to newShimAgent.  Under vsym the
// agent client is modelled (agent.NewClient returns the upstream model);
// natively the upstream model is served by x/crypto's real agent server over a pipe.
func mwUpstreamConn(up *mwUpstream) io.ReadWriteCloser {
	if vIsNative() {
		c1, c2 := net.Pipe()
		go agent.ServeAgent(up, c2)
		return c1
	}
	return &mwConn{}
}

// mwCurrentUp: the upstream model the next agent client connects to
var mwCurrentUp *mwUpstream

// mwNetConn: the model connection behind the net.Conn the constructor asks for
type mwNetConn struct {
	net.Conn
	c *mwConn
}

func (n *mwNetConn) Read(p []byte) (int, error)  { return n.c.Read(p) }
func (n *mwNetConn) Write(p []byte) (int, error) { return n.c.Write(p) }
func (n *mwNetConn) Close() error                { return n.c.Close() }

// mwLastConn: the connection of the most recently constructed server
var mwLastConn *mwConn

// mwNextConn: when set, the connection the next constructed server talks through
var mwNextConn io.ReadWriteCloser

type mwRWCConn struct {
	net.Conn
	c io.ReadWriteCloser
}

func (n *mwRWCConn) Read(p []byte) (int, error)  { return n.c.Read(p) }
func (n *mwRWCConn) Write(p []byte) (int, error) { return n.c.Write(p) }
func (n *mwRWCConn) Close() error                { return n.c.Close() }

func mwGetConn(address string) (net.Conn, error) {
	if mwNextConn != nil {
		c := mwNextConn
		mwNextConn = nil
		return &mwRWCConn{c: c}, nil
	}
	mwLastConn = &mwConn{}
	return &mwNetConn{c: mwLastConn}, nil
}
func mwNewClient(rw interface {
	Read([]byte) (int, error)
	Write([]byte) (int, error)
}) agent.ExtendedAgent {
	return mwCurrentUp
}

// mwNewServer: a shim agent over the upstream model, built by the exported
// constructor (the harnesses do not depend on the fields of Server).  Under
// vsym connection.GetConn and agent.NewClient are models; natively the
// upstream model is served by x/crypto's agent server on a unix socket.
func mwNewServer(up *mwUpstream, noUpstream bool) *Server {
	mwCurrentUp = up
	addr := "/model/agent.sock"
	if vIsNative() {
		dir, err := os.MkdirTemp("", "vsym-shim")
		if err != nil {
			panic(err)
		}
		addr = filepath.Join(dir, "a.sock")
		l, err := net.Listen("unix", addr)
		if err != nil {
			panic(err)
		}
		go func() {
			for {
				c, err := l.Accept()
				if err != nil {
					return
				}
				up.nconns = append(up.nconns, c)
				go agent.ServeAgent(up, c)
			}
		}()
	}
	calls, log := up.calls, up.log
	ag, err := New(Option{Address: addr, NoUpstream: noUpstream, PubKeyComp: func(x, y ssh.PublicKey) bool {
		return string(x.Marshal()) == string(y.Marshal())
	}})
	if err != nil {
		panic("mwNewServer: construction failed: " + err.Error())
	}
	up.calls, up.log = calls, log // the constructor's own listing is not part of the scenario
	s, ok := ag.(*Server)
	if !ok {
		panic("mwNewServer: New did not return a *Server")
	}
	return s
}

