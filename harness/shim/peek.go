package shimagent

// White-box helpers of the shim world: the only place where the harnesses
// touch unexported fields of Server (pre-states under the representation
// invariant, and obligations on the internal tables).  When this file does
// not compile against the current tree (a refactoring renamed or retyped a
// field) the driver falls back to peek_bb.go, which offers the same functions
// through the public operations only and reports what it cannot observe as
// unknown (mwPeek == false): the obligations on internal tables are then
// skipped, those on listings, signatures, errors and the underlying agent
// remain.

import (
	"io"

	"golang.org/x/crypto/ssh"
)

const mwPeek = true

// mwPutMem places a certificate into the in-memory table respecting the
// representation invariant: certs[hash(blob)] = {cert, blob, label}.
func mwPutMem(s *Server, c *ssh.Certificate) {
	blob := mwCertMarshal(c)
	s.certs[hash(blob)] = &certificate{c, blob, "mem"}
}

// mwInv: the representation invariant of the in-memory table, and no
// certificate handed to the shim was rewritten.
func mwInv(s *Server) bool {
	ok := mwCertsIntact()
	for h, c := range s.certs {
		if c == nil || c.Certificate == nil {
			return false
		}
		blob := mwCertMarshal(c.Certificate)
		if string(c.Blob) != string(blob) || h != hash(blob) {
			ok = false
		}
	}
	return ok
}

func mwMemHas(s *Server, c *ssh.Certificate) bool {
	_, ok := s.certs[hash(mwCertMarshal(c))]
	return ok
}

func mwMemLen(s *Server) int   { return len(s.certs) }
func mwCacheLen(s *Server) int { return len(s.upstreamSSHCACertCache) }
func mwCacheHas(s *Server, blob []byte) bool {
	_, ok := s.upstreamSSHCACertCache[hash(blob)]
	return ok
}
func mwLocked(s *Server) bool { return s.locked }

// mwForceLocked: the shim's own lock flag set (the underlying agent is the caller's business)
func mwForceLocked(s *Server) { s.locked = true }

func mwSetConn(s *Server, c io.ReadWriteCloser) { s.conn = c }
func mwConnOf(s *Server) io.ReadWriteCloser     { return s.conn }
