package yubiagent

// Black-box twin of ctor.go: NewClientFromConn / NewServer, with the agent
// client, the shim agent constructor and the PIV tool lookup modelled.  Only
// under vsym.

//vsym:model golang.org/x/crypto/ssh/agent.NewClient ygAgentNewClient
//vsym:model github.com/theparanoids/ysshra/agent/shimagent.New ygShimNew
//vsym:model github.com/theparanoids/ysshra/agent/yubiagent.getPivToolPath ygToolPath

import (
	"net"

	"github.com/theparanoids/ysshra/agent/shimagent"
	sshagent "golang.org/x/crypto/ssh/agent"
)

const ygPeek = false

var ygShim shimagent.ShimAgent
var ygTool string

func ygAgentNewClient(rw interface {
	Read([]byte) (int, error)
	Write([]byte) (int, error)
}) sshagent.ExtendedAgent {
	return nil
}
// only the construction made by ygNewServer is answered with the given shim
// agent; any other call reaches the real constructor
func ygShimNew(opt shimagent.Option) (shimagent.ShimAgent, error) {
	if ygPending {
		ygPending = false
		return ygShim, nil
	}
	return shimagent.New(opt)
}

var ygPending bool
func ygToolPath() (string, error)                                 { return ygTool, nil }

func ygNewClient(conn net.Conn) *client {
	if vIsNative() {
		panic("ygNewClient: no native construction in black-box mode")
	}
	y, err := NewClientFromConn(conn)
	if err != nil {
		panic("ygNewClient: " + err.Error())
	}
	c, ok := y.(*client)
	if !ok {
		panic("ygNewClient: NewClientFromConn did not return a *client")
	}
	return c
}

func ygNewServer(shim shimagent.ShimAgent, tool string, remote bool) *server {
	if vIsNative() {
		panic("ygNewServer: no native construction in black-box mode")
	}
	ygShim, ygTool, ygPending = shim, tool, true
	y, err := NewServer("/model/agent.sock", remote)
	if err != nil {
		panic("ygNewServer: " + err.Error())
	}
	s, ok := y.(*server)
	if !ok {
		panic("ygNewServer: NewServer did not return a *server")
	}
	return s
}
