package yubiagent

// White-box construction of the yubiagent client and server (struct
// literals).  Fallback: ctor_bb.go (exported constructors).

import (
	"net"

	"github.com/theparanoids/ysshra/agent/shimagent"
)

const ygPeek = true

func ygNewClient(conn net.Conn) *client { return &client{conn: conn} }

func ygNewServer(shim shimagent.ShimAgent, tool string, remote bool) *server {
	return &server{ShimAgent: shim, pivtoolpath: tool, remote: remote}
}
