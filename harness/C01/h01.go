package regular

//vsym:pkg github.com/theparanoids/ysshra/gensign/regular
//vsym:include regular/ctor.go || regular/ctor_bb.go
//vsym:entry H01_run
//vsym:model os.Stat m01Stat
//vsym:model os.ReadFile m01ReadFile
//vsym:model os.IsNotExist m01IsNotExist
//vsym:model path/filepath.Glob m01Glob
//vsym:model crypto/rand.Read m01RandRead
//vsym:model golang.org/x/crypto/ssh.ParseAuthorizedKey m01ParseAuthorizedKey
//vsym:replay same-harness
//vsym:expect-cover C01.real-accepts C01.real-rejects-policy C01.real-rejects-hardkey C01.real-rejects-signature C01.real-rejects-nofile C01.allauthfailed C01.model-handler-generates C01.pub-file-used C01.bare-file-used
//vsym:bound H01_run: 1..2 consecutive runs; handler list of 0..2 (thorough 0..3) slots, each the real regular handler (at most once) or a model handler with arbitrary verdict; namespace policy NONS / NSOK / 4 arbitrary bytes; hard-key flag symbolic; log name of 1..2 symbolic letters of either case; the directory also holds other users' key files (mallory, the lower-cased login name, a name that begins with the login name); the two candidate key files each absent / unreadable / holding the registered key, another user's key or garbage; the forwarded agent holds an arbitrary subset of the keys and answers a sign request with an error, an honest signature, a signature by another key it holds, a signature over other bytes (e.g. an earlier challenge), or garbage; every challenge byte symbolic
//vsym:assume signatures are unforgeable: the agent can produce a blob that verifies under key K only if it holds K (model of ssh.PublicKey.Verify); crypto/rand yields arbitrary bytes (unpredictability itself is not decided); os file access and ParseAuthorizedKey are modelled; path.Join is executed from source for names without '/' and '.'

import (
	"strings"
	"context"
	"crypto/ed25519"
	crand "crypto/rand"
	"errors"
	"io/fs"
	"os"
	"path/filepath"

	"github.com/theparanoids/crypki/proto"
	"github.com/theparanoids/ysshra/common"
	"github.com/theparanoids/ysshra/csr"
	"github.com/theparanoids/ysshra/gensign"
	"github.com/theparanoids/ysshra/message"
	"golang.org/x/crypto/ssh"
	ag "golang.org/x/crypto/ssh/agent"
)

// ---- world ----------------------------------------------------------------

const (
	f01Absent = iota
	f01Unreadable
	f01Registered // holds key 1
	f01OtherUser  // holds key 2
	f01Garbage
)

var w01Dir = "/keys"
var w01LogName string
var w01Pub, w01Bare int // state of <dir>/<logname>.pub and <dir>/<logname>
var w01Holds [4]bool    // keys the forwarded agent holds (index = key id; 3 = its own unrelated key)
var g01ForeignAccess bool
var g01Read []string // which of "pub"/"bare" were read, in order
var g01Rand [][]byte // outputs of crypto/rand.Read, in order
var g01Signed []m01SignReq
var g01Generated, g01CASigned, g01Added int
var g01RealAuthOK bool
var g01Events []string

type m01SignReq struct {
	key    int
	data   []byte
	blob   []byte
	err    bool
	honest bool // native: signed the given data with the requested key
}

type m01NotExist struct{}

func (m01NotExist) Error() string { return "model: file does not exist" }

type m01Perm struct{}

func (m01Perm) Error() string { return "model: permission denied" }

func m01Which(name string) int {
	switch {
	case vEqString(name, w01Dir+"/"+w01LogName+".pub"):
		return 1
	case vEqString(name, w01Dir+"/"+w01LogName):
		return 2
	}
	g01ForeignAccess = true
	if name == w01Dir+"/mallory.pub" {
		return 3 // the directory also holds the other users' keys
	}
	// ... among them a user whose name begins with this login name
	if vEqString(name, w01Dir+"/"+w01LogName+"x.pub") {
		return 3
	}
	// ... and the user whose name is this login name in lower case
	if low := strings.ToLower(w01LogName); !vEqString(low, w01LogName) && vEqString(name, w01Dir+"/"+low+".pub") {
		return 3
	}
	return 0
}

func m01State(name string) int {
	switch m01Which(name) {
	case 1:
		return w01Pub
	case 2:
		return w01Bare
	case 3:
		return f01OtherUser // mallory's registered key (key 2)
	}
	return f01Absent
}

func m01Stat(name string) (os.FileInfo, error) {
	switch m01State(name) {
	case f01Absent:
		return nil, m01NotExist{}
	}
	return nil, nil
}

// m01Glob: the directory as filepath.Glob sees it, for patterns "<prefix>*"
// (sorted matches); the directory holds the two files of the login name (in
// their states) and the other users' key files.
func m01Glob(pattern string) ([]string, error) {
	if !strings.HasSuffix(pattern, "*") || strings.ContainsAny(pattern[:len(pattern)-1], "*?[\\") {
		panic("m01Glob: only prefix patterns are modelled")
	}
	prefix := pattern[:len(pattern)-1]
	var names []string
	if w01Bare != f01Absent {
		names = append(names, w01LogName)
	}
	if w01Pub != f01Absent {
		names = append(names, w01LogName+".pub")
	}
	names = append(names, w01LogName+"x.pub", "mallory.pub")
	if low := strings.ToLower(w01LogName); !vEqString(low, w01LogName) {
		names = append(names, low+".pub")
	}
	var out []string
	for _, n := range names {
		full := w01Dir + "/" + n
		if !strings.HasPrefix(full, prefix) {
			continue
		}
		// insert in lexical order
		i := len(out)
		for i > 0 && strings.Compare(out[i-1], full) > 0 {
			i--
		}
		out = append(out, "")
		copy(out[i+1:], out[i:])
		out[i] = full
	}
	return out, nil
}

func m01IsNotExist(err error) bool {
	_, ok := err.(m01NotExist)
	return ok
}

func m01ReadFile(name string) ([]byte, error) {
	w := m01Which(name)
	if w == 1 {
		g01Read = append(g01Read, "pub")
	} else if w == 2 {
		g01Read = append(g01Read, "bare")
	}
	switch m01State(name) {
	case f01Absent:
		return nil, m01NotExist{}
	case f01Unreadable:
		return nil, m01Perm{}
	case f01Registered:
		return []byte{'K', 1}, nil
	case f01OtherUser:
		return []byte{'K', 2}, nil
	}
	return []byte{'G'}, nil
}

type m01Key struct{ id int }

func (k *m01Key) Type() string    { return "ssh-model" }
func (k *m01Key) Marshal() []byte { return []byte{byte(k.id)} }
func (k *m01Key) Verify(data []byte, sig *ssh.Signature) error {
	if sig == nil {
		return errors.New("model: nil signature")
	}
	if len(sig.Blob) == len(data)+1 && sig.Blob[0] == byte(k.id) && vEqBytes(sig.Blob[1:], data) {
		return nil
	}
	return errors.New("model: signature does not verify")
}

func m01ParseAuthorizedKey(in []byte) (ssh.PublicKey, string, []string, []byte, error) {
	if len(in) == 2 && in[0] == 'K' {
		return &m01Key{id: int(in[1])}, "", nil, nil, nil
	}
	return nil, "", nil, nil, errors.New("model: no key found")
}

func m01RandRead(b []byte) (int, error) {
	fresh := vNondetBytes("challenge", len(b))
	copy(b, fresh)
	g01Rand = append(g01Rand, fresh)
	return len(b), nil
}

// ---- the forwarded (adversarial) agent ---------------------------------------

type m01Agent struct{}

func (a m01Agent) Sign(key ssh.PublicKey, data []byte) (*ssh.Signature, error) {
	if vIsNative() {
		return a.nativeSign(key, data)
	}
	mk, _ := key.(*m01Key)
	req := m01SignReq{data: append([]byte(nil), data...)}
	if mk != nil {
		req.key = mk.id
	}
	behaviour := vChoose(5, "agent-behaviour")
	var sig *ssh.Signature
	switch behaviour {
	case 0: // refuses
		req.err = true
		g01Signed = append(g01Signed, req)
		return nil, errors.New("model: agent refused")
	case 1: // honest, if it holds the key; otherwise it can only refuse
		if mk == nil || !w01Holds[mk.id] {
			req.err = true
			g01Signed = append(g01Signed, req)
			return nil, errors.New("model: agent does not hold the key")
		}
		sig = &ssh.Signature{Format: "model", Blob: append([]byte{byte(mk.id)}, data...)}
	case 2: // signs the right data with some other key it holds
		other := 1 + vChoose(3, "other-key")
		if (mk != nil && other == mk.id) || !w01Holds[other] {
			req.err = true
			g01Signed = append(g01Signed, req)
			return nil, errors.New("model: no such behaviour")
		}
		sig = &ssh.Signature{Format: "model", Blob: append([]byte{byte(other)}, data...)}
	case 3: // signs other bytes (an earlier challenge, a constant, anything) with a key it holds
		kid := 1 + vChoose(3, "signing-key")
		if !w01Holds[kid] {
			req.err = true
			g01Signed = append(g01Signed, req)
			return nil, errors.New("model: no such behaviour")
		}
		stale := vNondetBytes("stale", len(data))
		if len(g01Rand) >= 2 && vChoose(2, "replay-earlier") == 1 {
			stale = append([]byte(nil), g01Rand[0]...)
		}
		vAssume(!vEqBytes(stale, data))
		sig = &ssh.Signature{Format: "model", Blob: append([]byte{byte(kid)}, stale...)}
	case 4: // garbage
		sig = &ssh.Signature{Format: "model", Blob: vNondetBytes("garbage", 3)}
	}
	req.blob = sig.Blob
	g01Signed = append(g01Signed, req)
	return sig, nil
}
func (m01Agent) List() ([]*ag.Key, error)         { return nil, nil }
func (m01Agent) Add(ag.AddedKey) error            { g01Added++; return nil }
func (m01Agent) Remove(ssh.PublicKey) error       { return nil }
func (m01Agent) RemoveAll() error                 { return nil }
func (m01Agent) Lock([]byte) error                { return nil }
func (m01Agent) Unlock([]byte) error              { return nil }
func (m01Agent) Signers() ([]ssh.Signer, error)   { return nil, nil }

// nativeSign: the same behaviours with real ed25519 keys.
func (m01Agent) nativeSign(key ssh.PublicKey, data []byte) (*ssh.Signature, error) {
	id := 0
	for i := 1; i <= 3; i++ {
		pk, _ := ssh.NewPublicKey(n01Keys[i].Public())
		if string(pk.Marshal()) == string(key.Marshal()) {
			id = i
		}
	}
	req := m01SignReq{key: id, data: append([]byte(nil), data...)}
	g01Rand = append(g01Rand, req.data) // natively the challenge is observed at the agent
	signWith := func(kid int, d []byte) (*ssh.Signature, error) {
		sg, _ := ssh.NewSignerFromKey(n01Keys[kid])
		return sg.Sign(crand.Reader, d)
	}
	fail := func() (*ssh.Signature, error) {
		req.err = true
		g01Signed = append(g01Signed, req)
		return nil, errors.New("scripted agent refuses")
	}
	var sig *ssh.Signature
	switch vChoose(5, "agent-behaviour") {
	case 0:
		return fail()
	case 1:
		if id == 0 || !w01Holds[id] {
			return fail()
		}
		sig, _ = signWith(id, data)
		req.honest = true
	case 2:
		other := 1 + vChoose(3, "other-key")
		if other == id || !w01Holds[other] {
			return fail()
		}
		sig, _ = signWith(other, data)
	case 3:
		kid := 1 + vChoose(3, "signing-key")
		if !w01Holds[kid] {
			return fail()
		}
		stale := make([]byte, len(data))
		if len(g01Rand) >= 2 {
			stale = g01Rand[0]
		}
		sig, _ = signWith(kid, stale)
	case 4:
		sig = &ssh.Signature{Format: key.Type(), Blob: []byte{1, 2, 3}}
	}
	g01Signed = append(g01Signed, req)
	return sig, nil
}

// ---- handlers, agent key, signer ---------------------------------------------

type m01AgentKey struct{ by string }

func (k *m01AgentKey) CSRs() []*proto.SSHCertificateSigningRequest {
	return []*proto.SSHCertificateSigningRequest{{KeyId: k.by}}
}
func (k *m01AgentKey) AddCertsToAgent(certs []ssh.PublicKey, comments []string) error {
	g01Added++
	g01Events = append(g01Events, "add:"+k.by)
	return nil
}

// the real handler with Generate replaced by a logging stub (Generate is C02/C03's subject)
type h01Real struct{ *Handler }

func (h h01Real) Authenticate(p *csr.ReqParam) error {
	g01Events = append(g01Events, "auth:real")
	nRand, nSigned := len(g01Rand), len(g01Signed)
	err := h.Handler.Authenticate(p)
	if err == nil {
		g01RealAuthOK = true
		h01CheckAccept(p, g01Rand[nRand:], g01Signed[nSigned:])
	}
	return err
}
func (h h01Real) Generate(p *csr.ReqParam) ([]csr.AgentKey, error) {
	g01Generated++
	g01Events = append(g01Events, "gen:real")
	return []csr.AgentKey{&m01AgentKey{by: "real"}}, nil
}

type m01Handler struct {
	name   string
	accept bool
}

func (h *m01Handler) Name() string { return h.name }
func (h *m01Handler) Authenticate(p *csr.ReqParam) error {
	g01Events = append(g01Events, "auth:"+h.name)
	if h.accept {
		return nil
	}
	return errors.New("model: rejected")
}
func (h *m01Handler) Generate(p *csr.ReqParam) ([]csr.AgentKey, error) {
	g01Generated++
	g01Events = append(g01Events, "gen:"+h.name)
	return []csr.AgentKey{&m01AgentKey{by: h.name}}, nil
}

type m01Signer struct{}

func (m01Signer) Sign(ctx context.Context, r *proto.SSHCertificateSigningRequest) ([]ssh.PublicKey, []string, error) {
	g01CASigned++
	g01Events = append(g01Events, "casign:"+r.KeyId)
	return []ssh.PublicKey{&m01Key{id: 9}}, []string{""}, nil
}

// h01CheckAccept: what must be true whenever the real handler accepted.
func h01CheckAccept(p *csr.ReqParam, rands [][]byte, signed []m01SignReq) {
	vAssert(vEqString(string(p.NamespacePolicy), "NONS"), "C01.accept-only-without-foreign-namespace")
	vAssert(!p.Attrs.HardKey, "C01.accept-only-without-hard-key")
	// the registered key: '<logname>.pub' if it exists, else '<logname>'
	chosen := w01Bare
	file := "bare"
	if w01Pub != f01Absent {
		chosen, file = w01Pub, "pub"
	}
	vAssert(chosen == f01Registered || chosen == f01OtherUser, "C01.accept-needs-a-readable-key-file")
	if !vIsNative() {
		vAssert(!g01ForeignAccess, "C01.only-the-login-names-files-are-consulted")
		vAssert(len(g01Read) > 0 && g01Read[len(g01Read)-1] == file, "C01.pub-then-bare-precedence")
	}
	kf := 1
	if chosen == f01OtherUser {
		kf = 2
	}
	// a fresh challenge of at least 16 bytes was drawn from crypto/rand during this authentication …
	vAssert(len(rands) >= 1, "C01.challenge-drawn-from-crypto-rand-in-this-call")
	if len(rands) < 1 {
		return
	}
	ch := rands[len(rands)-1]
	vAssert(len(ch) >= 16, "C01.challenge-at-least-16-bytes")
	// … the agent was asked to sign exactly it under the registered key, and what it returned verifies under that key
	vAssert(len(signed) >= 1, "C01.agent-was-challenged")
	if len(signed) < 1 {
		return
	}
	s := signed[len(signed)-1]
	vAssert(s.key == kf, "C01.challenge-under-the-registered-key")
	vAssert(len(s.data) == len(ch) && vEqBytes(s.data, ch), "C01.signed-data-is-the-fresh-challenge")
	if vIsNative() {
		vAssert(s.honest, "C01.valid-signature-by-registered-key-over-the-challenge")
		// freshness: the challenge differs from every earlier one
		for i := 0; i+1 < len(g01Rand); i++ {
			vAssert(string(g01Rand[i]) != string(ch), "C01.challenge-is-fresh")
		}
	} else {
		vAssert(!s.err && len(s.blob) == len(ch)+1 && s.blob[0] == byte(kf) && vEqBytes(s.blob[1:], ch), "C01.valid-signature-by-registered-key-over-the-challenge")
	}
	vAssert(w01Holds[kf], "C01.accept-implies-possession-of-registered-key")
	if file == "pub" {
		vReach("C01.pub-file-used")
	} else {
		vReach("C01.bare-file-used")
	}
}

// ---- native world (replay): real files, real ed25519 keys, scripted agent --------
// (the replay reproduces crashes and precedence/policy violations; signature
// forgeries cannot exist natively, which is the unforgeability assumption)

var n01Keys [4]ed25519.PrivateKey

func n01Setup() string {
	dir, _ := os.MkdirTemp("", "vsym-c01")
	for i := 1; i <= 3; i++ {
		_, priv, _ := ed25519.GenerateKey(crand.Reader)
		n01Keys[i] = priv
	}
	write := func(name string, st int) {
		p := filepath.Join(dir, name)
		switch st {
		case f01Unreadable:
			os.Mkdir(p, 0o700) // reading a directory fails
		case f01Registered, f01OtherUser:
			id := 1
			if st == f01OtherUser {
				id = 2
			}
			pk, _ := ssh.NewPublicKey(n01Keys[id].Public())
			os.WriteFile(p, ssh.MarshalAuthorizedKey(pk), 0o600)
		case f01Garbage:
			os.WriteFile(p, []byte("garbage"), 0o600)
		}
	}
	write(w01LogName+".pub", w01Pub)
	write(w01LogName, w01Bare)
	if w01LogName != "mallory" {
		write("mallory.pub", f01OtherUser)
	}
	if low := strings.ToLower(w01LogName); low != w01LogName && low != "mallory" {
		write(low+".pub", f01OtherUser)
	}
	write(w01LogName+"x.pub", f01OtherUser)
	return dir
}

var _ fs.FileInfo

// ---- harness -------------------------------------------------------------------

func H01_run() {
	n := vChoose(2, "log-name-len") + 1
	w01LogName = vNondetString("logname", n)
	for i := 0; i < n; i++ {
		c := w01LogName[i]
		vAssume(vOr(vAnd(c >= 'a', c <= 'z'), vAnd(c >= 'A', c <= 'Z'))) // login names are case-sensitive
	}
	w01Pub = vChoose(5, "pub-file")
	w01Bare = vChoose(5, "bare-file")
	w01Holds[1] = vNondetBool("agent-holds-key1")
	w01Holds[2] = vNondetBool("agent-holds-key2")
	w01Holds[3] = true

	var policy common.NamespacePolicy
	switch vChoose(3, "policy") {
	case 0:
		policy = common.NoNamespace
	case 1:
		policy = common.NamespaceOK
	case 2:
		policy = common.NamespacePolicy(vNondetString("policy", 4))
	}
	// what the client claims about itself (another user's name) must not matter
	param := &csr.ReqParam{NamespacePolicy: policy, LogName: w01LogName, TransID: "t", ReqUser: "mallory", ReqHost: "laptop",
		Attrs: &message.Attributes{HardKey: vNondetBool("hardkey"), Username: "mallory", Hostname: "laptop"}}

	if vIsNative() {
		w01Dir = n01Setup()
		defer os.RemoveAll(w01Dir)
	}
	real := h01Real{rgNewHandler(0, m01Agent{}, nil, w01Dir)}
	maxH := 2
	if vThorough() {
		maxH = 3
	}
	nh := vChoose(maxH+1, "handlers")
	var hs []gensign.Handler
	usedReal := false
	firstAcceptingModel := -1
	realPos := -1
	for i := 0; i < nh; i++ {
		if !usedReal && vChoose(2, "slot-is-real") == 1 {
			hs = append(hs, real)
			usedReal = true
			realPos = i
			continue
		}
		acc := vChoose(2, "model-verdict") == 1
		hs = append(hs, &m01Handler{name: string([]byte{'m', byte('0' + i)}), accept: acc})
		if acc && firstAcceptingModel < 0 {
			firstAcceptingModel = i
		}
	}
	runs := 1 + vChoose(2, "runs")
	for run := 0; run < runs; run++ {
		g01Events = nil
		g01RealAuthOK = false
		gen0, ca0, add0 := g01Generated, g01CASigned, g01Added
		err := gensign.Run(context.Background(), param, hs, m01Signer{})

		// which handler should have generated?
		want := -1
		for i := range hs {
			if i == realPos {
				if g01RealAuthOK {
					want = i
					break
				}
				continue
			}
			if hs[i].(*m01Handler).accept {
				want = i
				break
			}
		}
		// the real handler was consulted only if no earlier handler accepted
		if want < 0 {
			vAssert(gensign.IsErrorOfType(err, gensign.AllAuthFailed), "C01.none-authenticated-is-AllAuthFailed")
			vAssert(g01Generated == gen0 && g01CASigned == ca0 && g01Added == add0, "C01.nothing-generated-signed-or-added-without-authentication")
			vReach("C01.allauthfailed")
		} else {
			vAssert(err == nil, "C01.authenticated-run-succeeds")
			wantName := "real"
			if want != realPos {
				wantName = hs[want].(*m01Handler).name
				vReach("C01.model-handler-generates")
			} else {
				vReach("C01.real-accepts")
			}
			// events: auth of every handler up to want, in order, then gen, casign, add by that handler
			k := 0
			for i := 0; i <= want; i++ {
				nm := "real"
				if i != realPos {
					nm = hs[i].(*m01Handler).name
				}
				vAssert(k < len(g01Events) && g01Events[k] == "auth:"+nm, "C01.handlers-tried-in-configured-order")
				k++
			}
			vAssert(k+2 < len(g01Events) && g01Events[k] == "gen:"+wantName && g01Events[k+1] == "casign:"+wantName && g01Events[k+2] == "add:"+wantName,
				"C01.first-authenticated-handler-generates")
			vAssert(len(g01Events) == k+3, "C01.no-handler-after-the-first-authenticated")
		}
		// coverage of the real handler's refusals
		if realPos >= 0 && !g01RealAuthOK && (want < 0 || want > realPos) {
			switch {
			case !vEqString(string(policy), "NONS"):
				vReach("C01.real-rejects-policy")
			case param.Attrs.HardKey:
				vReach("C01.real-rejects-hardkey")
			case w01Pub == f01Absent && w01Bare == f01Absent:
				vReach("C01.real-rejects-nofile")
			default:
				vReach("C01.real-rejects-signature")
			}
		}
	}
}
