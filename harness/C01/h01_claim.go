package message

//vsym:pkg github.com/theparanoids/ysshra/message
//vsym:entry H01_hardkey_claim
//vsym:include C15/h15.go
//vsym:model encoding/json.Marshal m15Marshal
//vsym:model encoding/json.Unmarshal m15Unmarshal
//vsym:replay same-harness
//vsym:expect-cover C15.legacy.boolean-true C15.legacy.boolean-false
//vsym:bound H01_hardkey_claim: whether a legacy request "asked for a hardware key" (the flag H01_run takes as given) is decided from the request text: bounds of C15's H15_legacy_booleans
//vsym:assume encoding/json is modelled by its contract (see C15)

// H01_hardkey_claim: the hardware-key flag the handler refuses on is the
// boolean the client's text states; shared with C15.
func H01_hardkey_claim() { H15_legacy_booleans() }
