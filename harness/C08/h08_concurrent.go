package shimagent

//vsym:pkg github.com/theparanoids/ysshra/agent/shimagent
//vsym:include shim/world.go
//vsym:include shim/peek.go || shim/peek_bb.go
//vsym:include C11/h11.go
//vsym:entry H08_lock_state_under_concurrency
//vsym:replay adapter ../C11/h11_replay_test.go race
//vsym:expect-cover C11.traced
//vsym:bound H08_lock_state_under_concurrency: "after a successful lock" also for a request racing with the lock: the lock flag and the tables are only read and written inside the shim's critical section, for every pair of the 12 operations - bounds of C11's H11_traces and its pairwise schedule queries
//vsym:assume as C11

// A request that overlaps a Lock must see either the state before or the
// state after it; shared with C11.
func H08_lock_state_under_concurrency() { H11_traces() }
