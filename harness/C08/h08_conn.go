package connection

//vsym:pkg github.com/theparanoids/ysshra/agent/ssh/connection
//vsym:entry H08_transparent_connection
//vsym:model net.Dial m08Dial
//vsym:replay none
//vsym:expect-cover C08.conn.ok C08.conn.dial-error
//vsym:bound H08_transparent_connection: the connection the shim agent talks to the underlying agent through: dial succeeds or fails; one write of 0..2 symbolic bytes and reads of 1..2 bytes with an arbitrary short count or error from the socket
//vsym:assume net.Dial is a model returning a recording socket; x/crypto's agent client pairs replies with requests by position, so a read that gives up while the reply is still to come shifts every later reply (an Unlock with a wrong passphrase would then be answered by the late success of an earlier one)

import (
	"errors"
	"net"
	"time"
)

type m08Sock struct {
	net.Conn
	network, address string
	wrote            []byte
	readN            int
	readErr          error
	readData         []byte
	deadlines        int
	closed           bool
}

func (s *m08Sock) Read(b []byte) (int, error) {
	n := s.readN
	if n > len(b) {
		n = len(b)
	}
	copy(b, s.readData[:n])
	return n, s.readErr
}
func (s *m08Sock) Write(b []byte) (int, error) { s.wrote = append(s.wrote, b...); return len(b), nil }
func (s *m08Sock) Close() error                { s.closed = true; return nil }
func (s *m08Sock) SetDeadline(t time.Time) error {
	if !t.IsZero() {
		s.deadlines++
	}
	return nil
}
func (s *m08Sock) SetReadDeadline(t time.Time) error {
	if !t.IsZero() {
		s.deadlines++
	}
	return nil
}
func (s *m08Sock) SetWriteDeadline(t time.Time) error { return nil }

var m08DialFails bool
var m08Last *m08Sock

func m08Dial(network, address string) (net.Conn, error) {
	if m08DialFails {
		return nil, errors.New("model: no such socket")
	}
	m08Last = &m08Sock{network: network, address: address}
	return m08Last, nil
}

// H08_transparent_connection: what the shim reads is what the underlying
// agent's socket delivers, however long that takes.
func H08_transparent_connection() {
	m08DialFails = vChoose(2, "dial-fails") == 1
	c, err := GetConn("/run/agent.sock")
	if m08DialFails {
		vAssert(err != nil, "C08.dial-failure-is-an-error")
		vReach("C08.conn.dial-error")
		return
	}
	vAssert(err == nil && c != nil && m08Last != nil, "C08.connection-established")
	if err != nil || c == nil || m08Last == nil {
		return
	}
	s := m08Last
	vAssert(s.network == "unix" && s.address == "/run/agent.sock", "C08.connects-to-the-configured-unix-socket")
	out := vNondetBytes("request", vChoose(3, "request-len"))
	n, werr := c.Write(out)
	vAssert(werr == nil && n == len(out) && vEqBytes(s.wrote, out), "C08.requests-reach-the-socket-unchanged")
	s.readData = vNondetBytes("reply", 2)
	s.readN = vChoose(3, "read-count")
	if vChoose(2, "read-error") == 1 {
		s.readErr = errors.New("model: socket error")
	}
	buf := make([]byte, 1+vChoose(2, "buffer-len"))
	rn, rerr := c.Read(buf)
	want := s.readN
	if want > len(buf) {
		want = len(buf)
	}
	vAssert(rn == want && rerr == s.readErr, "C08.replies-reach-the-shim-unchanged")
	for i := 0; i < rn && i < want; i++ {
		vAssert(buf[i] == s.readData[i], "C08.replies-reach-the-shim-unchanged")
	}
	vAssert(s.deadlines == 0, "C08.no-read-deadline-on-the-agent-connection")
	vAssert(!s.closed, "C08.connection-left-open")
	vReach("C08.conn.ok")
}
