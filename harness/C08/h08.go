package shimagent

//vsym:pkg github.com/theparanoids/ysshra/agent/shimagent
//vsym:include shim/world.go
//vsym:include shim/peek.go || shim/peek_bb.go
//vsym:entry H08_locked
//vsym:entry H08_unlock
//vsym:replay same-harness
//vsym:expect-cover C08.locked-list-empty C08.locked-op-refused C08.wrong-passphrase C08.right-passphrase-restores C08.unlock-when-unlocked C08.lock-refused-upstream C08.unlock-refused-upstream
//vsym:bound H08_locked: pre-state with 0..1 in-memory certificates (valid window) and 0..2 upstream identities; passphrase of 0..2 symbolic bytes; after a successful Lock one operation out of List, Sign, SignWithFlags, Signers, Add, Remove, RemoveAll, AddHardCert, Lock, Close
//vsym:bound H08_unlock: Lock(p) then Unlock(q) with p, q symbolic of equal or different length 0..2; the underlying agent may refuse the lock or the unlock

import (
	"golang.org/x/crypto/ssh"
	"golang.org/x/crypto/ssh/agent"
)

func h08World() (*Server, *mwUpstream, []*ssh.Certificate) {
	mwClock = 1000
	up := &mwUpstream{failAt: -1}
	s := mwNewServer(up, vChoose(2, "no-upstream-mode") == 1)
	var mem []*ssh.Certificate
	if vChoose(2, "in-memory") == 1 {
		c := mwNewCert(1, 0, 1<<64-1, false)
		mem = append(mem, c)
		mwPutMem(s, c)
	}
	nu := vChoose(3, "upstream")
	for i := 0; i < nu; i++ {
		if i == 0 {
			mwUpKey(up, 1, "k")
		} else {
			c := mwNewCert(1, 0, 1<<64-1, vChoose(2, "up-decodes") == 1)
			mwUpCert(up, c, "c")
		}
	}
	return s, up, mem
}

func h08Snapshot(s *Server, up *mwUpstream) (int, int, string) {
	ids := ""
	for _, id := range up.ids {
		ids += string(id.blob) + ";"
	}
	return mwMemLen(s), mwCacheLen(s), ids
}

func h08ListBlobs(keys []*agent.Key) string {
	out := ""
	for _, k := range keys {
		out += string(k.Blob) + "|" + k.Comment + ";"
	}
	return out
}

func H08_locked() {
	s, up, mem := h08World()
	pass := vNondetBytes("pass", vChoose(3, "pass-len"))
	err := s.Lock(pass)
	vAssert(err == nil, "C08.lock-succeeds")
	if err != nil {
		return
	}
	nc, ncache, ids := h08Snapshot(s, up)
	calls := up.calls
	op := vChoose(10, "operation")
	var key ssh.PublicKey = mwPlainKey(1)
	if len(mem) > 0 && vChoose(2, "target-is-cert") == 1 {
		key = mem[0]
	}
	var operr error
	var listed []*agent.Key
	crashed := vCatch(func() {
		switch op {
		case 0:
			listed, operr = s.List()
		case 1:
			_, operr = s.Sign(key, []byte("d"))
		case 2:
			_, operr = s.SignWithFlags(key, []byte("d"), agent.SignatureFlagRsaSha256)
		case 3:
			_, operr = s.Signers()
		case 4:
			operr = s.Add(agent.AddedKey{Comment: "x"})
		case 5:
			operr = s.Remove(key)
		case 6:
			operr = s.RemoveAll()
		case 7:
			if c, isCert := key.(*ssh.Certificate); isCert {
				operr = s.AddHardCert(c, "hw") // a certificate the shim already holds
			} else {
				operr = s.AddHardCert(mwNewCert(1, 0, 1<<64-1, false), "hw")
			}
		case 8:
			operr = s.Lock(pass)
		case 9:
			operr = s.Close()
		}
	})
	vAssert(!crashed, "C08.no-crash")
	if op == 0 {
		vAssert(operr == nil && len(listed) == 0, "C08.locked-list-is-empty")
		vReach("C08.locked-list-empty")
	} else {
		vAssert(operr != nil, "C08.locked-operation-fails")
		vReach("C08.locked-op-refused")
	}
	nc2, ncache2, ids2 := h08Snapshot(s, up)
	vAssert(nc2 == nc && ncache2 == ncache && ids2 == ids, "C08.locked-operation-changes-nothing")
	vAssert(up.calls == calls, "C08.locked-operation-does-not-reach-the-underlying-agent")
	vAssert(!mwPeek || mwLocked(s), "C08.stays-locked")
	if mwLastConn != nil {
		vAssert(!mwLastConn.closed, "C08.locked-close-does-not-close")
	}
}

func H08_unlock() {
	s, up, _ := h08World()
	// the pre-lock view
	before, err0 := s.List()
	vAssume(err0 == nil)
	view := h08ListBlobs(before)

	// unlocking an unlocked agent is an error
	if vChoose(2, "unlock-first") == 1 {
		calls := up.calls
		err := s.Unlock([]byte("x"))
		vAssert(err != nil, "C08.unlock-of-unlocked-agent-is-an-error")
		vAssert((!mwPeek || !mwLocked(s)) && up.calls == calls, "C08.unlock-of-unlocked-agent-changes-nothing")
		vReach("C08.unlock-when-unlocked")
		return
	}
	p := vNondetBytes("p", vChoose(3, "p-len"))
	q := vNondetBytes("q", vChoose(3, "q-len"))
	refuseLock := vChoose(2, "upstream-refuses-lock") == 1
	if refuseLock {
		up.failAt = up.calls
	}
	p0 := append([]byte(nil), p...)
	vFreeze("C08.passphrase-argument-not-modified", p)
	err := s.Lock(p)
	vCheckFrozen()
	vThaw()
	// the caller wipes its buffer once the call has returned
	for i := range p {
		p[i] = 0xAA
	}
	p = p0
	if refuseLock {
		vAssert(err != nil, "C08.refused-lock-is-an-error")
		vAssert(!mwPeek || !mwLocked(s), "C08.refused-lock-leaves-shim-unlocked")
		vReach("C08.lock-refused-upstream")
		return
	}
	vAssert(err == nil && (!mwPeek || mwLocked(s)), "C08.lock-succeeds")
	if err != nil {
		return
	}
	refuseUnlock := vChoose(3, "upstream-refuses-unlock")
	if refuseUnlock != 0 {
		up.failAt = up.calls
		if refuseUnlock == 2 {
			up.failText = "agent: client error: EOF" // the connection to the underlying agent broke
		}
	}
	err = s.Unlock(q)
	same := len(p) == len(q) && vEqBytes(p, q)
	if refuseUnlock != 0 {
		vAssert(err != nil && (!mwPeek || mwLocked(s)), "C08.refused-unlock-leaves-shim-locked")
		vReach("C08.unlock-refused-upstream")
		return
	}
	vAssert(vIff(err == nil, same), "C08.only-the-passphrase-unlocks")
	vAssert(!mwPeek || vIff(mwLocked(s), !same), "C08.wrong-passphrase-stays-locked")
	vCover(!same, "C08.wrong-passphrase")
	if err != nil {
		l, lerr := s.List()
		vAssert(lerr == nil && len(l) == 0, "C08.locked-list-is-empty")
		return
	}
	after, err1 := s.List()
	vAssert(err1 == nil, "C08.list-after-unlock")
	vAssert(h08ListBlobs(after) == view, "C08.unlock-restores-the-pre-lock-view")
	vReach("C08.right-passphrase-restores")
}
