package yubiattest

//vsym:pkg github.com/theparanoids/ysshra/attestation/yubiattest
//vsym:entry H16_pubkey
//vsym:entry H16_sigalg
//vsym:model encoding/asn1.Unmarshal m16pUnmarshal
//vsym:model-re ^\(\*crypto/ecdh\.nistCurve\[.*\]\)\.NewPublicKey(\[.*\])?$ m16pNewPublicKey
//vsym:model (*crypto/ecdh.PublicKey).Bytes m16pBytes
//vsym:model (*crypto/ecdh.PublicKey).Curve m16pCurve
//vsym:model (*math/big.Int).SetBytes m16pSetBytes
//vsym:model (*math/big.Int).Sign m16pSign
//vsym:model math/big.NewInt m16pNewInt
//vsym:model crypto/elliptic.P256 m16pP256
//vsym:model crypto/elliptic.P384 m16pP384
//vsym:model crypto/elliptic.P521 m16pP521
//vsym:replay none
//vsym:expect-cover C16.pk.rsa-ok C16.pk.rsa-bad-modulus C16.pk.rsa-bad-exponent C16.pk.rsa-trailing C16.pk.p256 C16.pk.p384 C16.pk.p521 C16.pk.unknown-curve C16.sa.table C16.sa.pss-ok C16.sa.pss-refused
//vsym:bound H16_pubkey: RSA: modulus sign and exponent symbolic, trailing data or not, decoder failure; ECDSA: named curve P-256 / P-384 / P-521 / unknown, trailing parameter data or not, every byte of the uncompressed point symbolic (lengths 65 / 97 / 133 per the ecdh contract), point rejected or not
//vsym:bound H16_sigalg: algorithm OID any row of an independently written table or unknown; RSA-PSS parameters: hash OID SHA-256/384/512/other, NULL or other hash parameters, MGF OID MGF1 or other, MGF hash equal or not, salt length and trailer field symbolic
//vsym:assume encoding/asn1 and crypto/ecdh are modelled by their contracts (the reflection-driven decoder and the curve arithmetic are not executed): Unmarshal fills the destination with harness-chosen values or fails; NewPublicKey returns a key whose Bytes() is the validated uncompressed point; field-by-field agreement with crypto/x509 on whole certificates is not decided

import (
	"crypto/ecdh"
	"crypto/ecdsa"
	"crypto/elliptic"
	"crypto/rsa"
	"crypto/x509"
	"crypto/x509/pkix"
	"encoding/asn1"
	"errors"
	"math/big"
)

// ---- models ------------------------------------------------------------------

var w16RSA struct {
	fail, trailing bool
	n              *big.Int
	e              int
}
var w16Curve struct {
	fail, trailing bool
	oid            asn1.ObjectIdentifier
}
var w16PSS struct {
	fail    bool
	params  pssParameters
	mgfFail bool
	mgfHash pkix.AlgorithmIdentifier
}
var w16Sign int
var w16PointBad bool
var m16pBig = map[*big.Int][]byte{}
var m16pKeys = map[*ecdh.PublicKey][]byte{}
var m16pKeyCurve = map[*ecdh.PublicKey]ecdh.Curve{}

func m16pUnmarshal(b []byte, val interface{}) ([]byte, error) {
	switch v := val.(type) {
	case *rsaPublicKey:
		if w16RSA.fail {
			return nil, errors.New("model: asn1 error")
		}
		v.N, v.E = w16RSA.n, w16RSA.e
		if w16RSA.trailing {
			return []byte{0}, nil
		}
		return nil, nil
	case *asn1.ObjectIdentifier:
		if w16Curve.fail {
			return nil, errors.New("model: asn1 error")
		}
		*v = w16Curve.oid
		if w16Curve.trailing {
			return []byte{0}, nil
		}
		return nil, nil
	case *pssParameters:
		if w16PSS.fail {
			return nil, errors.New("model: asn1 error")
		}
		*v = w16PSS.params
		return nil, nil
	case *pkix.AlgorithmIdentifier:
		if w16PSS.mgfFail {
			return nil, errors.New("model: asn1 error")
		}
		*v = w16PSS.mgfHash
		return nil, nil
	}
	panic("m16pUnmarshal: unexpected destination")
}

func m16pNewPublicKey(c ecdh.Curve, key []byte) (*ecdh.PublicKey, error) {
	if w16PointBad {
		return nil, errors.New("model: point not on curve")
	}
	k := new(ecdh.PublicKey)
	m16pKeys[k] = append([]byte(nil), key...)
	m16pKeyCurve[k] = c
	return k, nil
}
func m16pBytes(k *ecdh.PublicKey) []byte   { return append([]byte(nil), m16pKeys[k]...) }
func m16pCurve(k *ecdh.PublicKey) ecdh.Curve { return m16pKeyCurve[k] }
func m16pNewInt(x int64) *big.Int           { return new(big.Int) }
func m16pSetBytes(z *big.Int, b []byte) *big.Int {
	m16pBig[z] = append([]byte(nil), b...)
	return z
}
func m16pSign(x *big.Int) int { return w16Sign }

type m16pEC struct{ name string }

func (c m16pEC) Params() *elliptic.CurveParams                        { return &elliptic.CurveParams{Name: c.name} }
func (c m16pEC) IsOnCurve(x, y *big.Int) bool                         { return true }
func (c m16pEC) Add(x1, y1, x2, y2 *big.Int) (*big.Int, *big.Int)     { return nil, nil }
func (c m16pEC) Double(x1, y1 *big.Int) (*big.Int, *big.Int)          { return nil, nil }
func (c m16pEC) ScalarMult(x, y *big.Int, k []byte) (*big.Int, *big.Int) { return nil, nil }
func (c m16pEC) ScalarBaseMult(k []byte) (*big.Int, *big.Int)         { return nil, nil }

func m16pP256() elliptic.Curve { return m16pEC{"P-256"} }
func m16pP384() elliptic.Curve { return m16pEC{"P-384"} }
func m16pP521() elliptic.Curve { return m16pEC{"P-521"} }

// ---- public keys ----------------------------------------------------------------

func H16_pubkey() {
	if vChoose(2, "algorithm") == 0 {
		w16RSA.fail = vChoose(2, "decoder-fails") == 1
		w16RSA.trailing = vChoose(2, "trailing-data") == 1
		w16RSA.n = new(big.Int)
		w16RSA.e = vNondetInt("exponent")
		w16Sign = vPick(vNondetInt("modulus-sign"), -1, 1)
		vAssume(vAnd(w16Sign >= -1, w16Sign <= 1))
		ki := &publicKeyInfo{PublicKey: asn1.BitString{Bytes: []byte{1, 2}, BitLength: 16}}
		pk, err := parsePublicKey(x509.RSA, ki)
		switch {
		case w16RSA.fail:
			vAssert(err != nil, "C16.rsa-decoder-failure-is-an-error")
		case w16RSA.trailing:
			vAssert(err != nil, "C16.rsa-trailing-data-rejected")
			vReach("C16.pk.rsa-trailing")
		case w16Sign <= 0:
			vAssert(err != nil, "C16.rsa-non-positive-modulus-rejected")
			vReach("C16.pk.rsa-bad-modulus")
		case w16RSA.e <= 0:
			vAssert(err != nil, "C16.rsa-non-positive-exponent-rejected")
			vReach("C16.pk.rsa-bad-exponent")
		default:
			vAssert(err == nil, "C16.rsa-key-accepted")
			r, ok := pk.(*rsa.PublicKey)
			vAssert(ok && r.N == w16RSA.n && r.E == w16RSA.e, "C16.rsa-key-is-the-decoded-modulus-and-exponent")
			vReach("C16.pk.rsa-ok")
		}
		return
	}
	curves := []struct {
		oid  asn1.ObjectIdentifier
		size int
		name string
	}{
		{asn1.ObjectIdentifier{1, 2, 840, 10045, 3, 1, 7}, 32, "P-256"},
		{asn1.ObjectIdentifier{1, 3, 132, 0, 34}, 48, "P-384"},
		{asn1.ObjectIdentifier{1, 3, 132, 0, 35}, 66, "P-521"},
		{asn1.ObjectIdentifier{1, 3, 132, 0, 33}, 28, "P-224"},
	}
	c := curves[vChoose(len(curves), "curve")]
	w16Curve.oid = c.oid
	w16Curve.fail = vChoose(2, "decoder-fails") == 1
	w16Curve.trailing = vChoose(2, "trailing-data") == 1
	w16PointBad = vChoose(2, "point-rejected") == 1
	point := vNondetBytes("point", 1+2*c.size)
	ki := &publicKeyInfo{PublicKey: asn1.BitString{Bytes: point, BitLength: 8 * len(point)}}
	var pk interface{}
	var err error
	crashed := vCatch(func() { pk, err = parsePublicKey(x509.ECDSA, ki) })
	vAssert(!crashed, "C16.public-key-parsing-never-crashes")
	if crashed {
		return
	}
	if w16Curve.fail || w16Curve.trailing || c.name == "P-224" || w16PointBad {
		vAssert(err != nil, "C16.malformed-ec-key-rejected")
		if c.name == "P-224" && !w16Curve.fail && !w16Curve.trailing {
			vReach("C16.pk.unknown-curve")
		}
		return
	}
	vAssert(err == nil, "C16.nist-curve-key-accepted")
	e, ok := pk.(*ecdsa.PublicKey)
	vAssert(ok && e != nil && e.Curve != nil && e.Curve.Params().Name == c.name, "C16.ec-key-curve")
	if !ok || e == nil {
		return
	}
	x, y := m16pBig[e.X], m16pBig[e.Y]
	vAssert(len(x) == c.size && len(y) == c.size, "C16.ec-coordinates-are-the-two-halves-of-the-point")
	if len(x) == c.size && len(y) == c.size {
		vAssert(vAnd(vEqBytes(x, point[1:1+c.size]), vEqBytes(y, point[1+c.size:])), "C16.ec-coordinates-are-the-two-halves-of-the-point")
	}
	switch c.name {
	case "P-256":
		vReach("C16.pk.p256")
	case "P-384":
		vReach("C16.pk.p384")
	case "P-521":
		vReach("C16.pk.p521")
	}
}

// ---- signature algorithms ----------------------------------------------------------

// RFC 3279 / 4055 / 5758 object identifiers, written independently of parse.go
var s16SigAlgs = []struct {
	oid  asn1.ObjectIdentifier
	algo x509.SignatureAlgorithm
}{
	{asn1.ObjectIdentifier{1, 2, 840, 113549, 1, 1, 2}, x509.MD2WithRSA},
	{asn1.ObjectIdentifier{1, 2, 840, 113549, 1, 1, 4}, x509.MD5WithRSA},
	{asn1.ObjectIdentifier{1, 2, 840, 113549, 1, 1, 5}, x509.SHA1WithRSA},
	{asn1.ObjectIdentifier{1, 3, 14, 3, 2, 29}, x509.SHA1WithRSA},
	{asn1.ObjectIdentifier{1, 2, 840, 113549, 1, 1, 11}, x509.SHA256WithRSA},
	{asn1.ObjectIdentifier{1, 2, 840, 113549, 1, 1, 12}, x509.SHA384WithRSA},
	{asn1.ObjectIdentifier{1, 2, 840, 113549, 1, 1, 13}, x509.SHA512WithRSA},
	{asn1.ObjectIdentifier{1, 2, 840, 10045, 4, 1}, x509.ECDSAWithSHA1},
	{asn1.ObjectIdentifier{1, 2, 840, 10045, 4, 3, 2}, x509.ECDSAWithSHA256},
	{asn1.ObjectIdentifier{1, 2, 840, 10045, 4, 3, 3}, x509.ECDSAWithSHA384},
	{asn1.ObjectIdentifier{1, 2, 840, 10045, 4, 3, 4}, x509.ECDSAWithSHA512},
	{asn1.ObjectIdentifier{1, 2, 3, 4}, x509.UnknownSignatureAlgorithm},
}
var s16PSS = asn1.ObjectIdentifier{1, 2, 840, 113549, 1, 1, 10}
var s16MGF1 = asn1.ObjectIdentifier{1, 2, 840, 113549, 1, 1, 8}

func H16_sigalg() {
	if vChoose(2, "pss") == 0 {
		row := s16SigAlgs[vChoose(len(s16SigAlgs), "algorithm")]
		got := getSignatureAlgorithmFromAI(pkix.AlgorithmIdentifier{Algorithm: row.oid})
		vAssert(got == row.algo, "C16.signature-algorithm-table")
		vReach("C16.sa.table")
		return
	}
	hashes := []struct {
		oid  asn1.ObjectIdentifier
		size int
		algo x509.SignatureAlgorithm
	}{
		{asn1.ObjectIdentifier{2, 16, 840, 1, 101, 3, 4, 2, 1}, 32, x509.SHA256WithRSAPSS},
		{asn1.ObjectIdentifier{2, 16, 840, 1, 101, 3, 4, 2, 2}, 48, x509.SHA384WithRSAPSS},
		{asn1.ObjectIdentifier{2, 16, 840, 1, 101, 3, 4, 2, 3}, 64, x509.SHA512WithRSAPSS},
		{asn1.ObjectIdentifier{1, 3, 14, 3, 2, 26}, 20, x509.UnknownSignatureAlgorithm},
	}
	null := []byte{5, 0}
	h := hashes[vChoose(len(hashes), "hash")]
	hashParamsNull := vChoose(2, "hash-params-null") == 1
	mgfIsMGF1 := vChoose(2, "mgf1") == 1
	mgfHashSame := vChoose(2, "mgf-hash-same") == 1
	mgfParamsNull := vChoose(2, "mgf-params-null") == 1
	salt := vNondetInt("salt-length")
	trailer := vNondetInt("trailer-field")
	w16PSS.fail = vChoose(2, "params-undecodable") == 1
	w16PSS.mgfFail = vChoose(2, "mgf-undecodable") == 1
	p := pssParameters{SaltLength: salt, TrailerField: trailer}
	p.Hash.Algorithm = h.oid
	if hashParamsNull {
		p.Hash.Parameters.FullBytes = null
	} else {
		p.Hash.Parameters.FullBytes = []byte{4, 0}
	}
	p.MGF.Algorithm = s16MGF1
	if !mgfIsMGF1 {
		p.MGF.Algorithm = asn1.ObjectIdentifier{1, 2, 840, 113549, 1, 1, 9}
	}
	w16PSS.params = p
	w16PSS.mgfHash.Algorithm = h.oid
	if !mgfHashSame {
		w16PSS.mgfHash.Algorithm = asn1.ObjectIdentifier{2, 16, 840, 1, 101, 3, 4, 2, 4}
	}
	if mgfParamsNull {
		w16PSS.mgfHash.Parameters.FullBytes = null
	} else {
		w16PSS.mgfHash.Parameters.FullBytes = []byte{4, 0}
	}
	got := getSignatureAlgorithmFromAI(pkix.AlgorithmIdentifier{Algorithm: s16PSS, Parameters: asn1.RawValue{FullBytes: []byte{0x30, 0}}})
	okShape := !w16PSS.fail && !w16PSS.mgfFail && hashParamsNull && mgfIsMGF1 && mgfHashSame && mgfParamsNull
	want := x509.UnknownSignatureAlgorithm
	if okShape && h.algo != x509.UnknownSignatureAlgorithm {
		// the three buckets of crypto/x509: salt length = hash length, default trailer field
		if vAnd(salt == h.size, trailer == 1) {
			want = h.algo
		}
	}
	vAssert(got == want, "C16.rsa-pss-parameters-decide-the-algorithm")
	if want != x509.UnknownSignatureAlgorithm {
		vReach("C16.sa.pss-ok")
	} else {
		vReach("C16.sa.pss-refused")
	}
}
