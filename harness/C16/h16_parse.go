package yubiattest

//vsym:pkg github.com/theparanoids/ysshra/attestation/yubiattest
//vsym:entry H16_pubkey
//vsym:entry H16_sigalg
//vsym:entry H16_fields
//vsym:entry H16_two_certificates
//vsym:model encoding/asn1.Unmarshal m16pUnmarshal
//vsym:model-re ^\(\*crypto/ecdh\.nistCurve\[.*\]\)\.NewPublicKey(\[.*\])?$ m16pNewPublicKey
//vsym:model (*crypto/ecdh.PublicKey).Bytes m16pBytes
//vsym:model (*crypto/ecdh.PublicKey).Curve m16pCurve
//vsym:model (*math/big.Int).SetBytes m16pSetBytes
//vsym:model (*math/big.Int).Sign m16pSign
//vsym:model math/big.NewInt m16pNewInt
//vsym:model crypto/elliptic.P256 m16pP256
//vsym:model crypto/elliptic.P384 m16pP384
//vsym:model crypto/elliptic.P521 m16pP521
//vsym:replay none
//vsym:expect-cover C16.pk.rsa-ok C16.pk.rsa-bad-modulus C16.pk.rsa-bad-exponent C16.pk.rsa-trailing C16.pk.p256 C16.pk.p384 C16.pk.p521 C16.pk.unknown-curve C16.sa.table C16.sa.pss-ok C16.sa.pss-refused C16.f.ok C16.f.trailing C16.f.undecodable C16.f.bad-name C16.f.bad-extension C16.f.unhandled-critical C16.f.key-usage C16.f.basic-constraints C16.f.padded-signature C16.two-certificates
//vsym:bound H16_pubkey: RSA: modulus sign and exponent symbolic, trailing data or not, decoder failure; ECDSA: named curve P-256 / P-384 / P-521 / unknown, trailing parameter data or not, every byte of the uncompressed point symbolic (lengths 65 / 97 / 133 per the ecdh contract), point rejected or not
//vsym:bound H16_sigalg: algorithm OID any row of an independently written table or unknown; RSA-PSS parameters: hash OID SHA-256/384/512/other, NULL or other hash parameters, MGF OID MGF1 or other, MGF hash equal or not, salt length and trailer field symbolic
//vsym:bound H16_two_certificates: two certificates parsed in sequence in one process, exactly one of them with an extension block (the device-serial extension)
//vsym:bound H16_fields: ParseCertificate on a decoded certificate structure with symbolic raw byte strings (1 byte each), version, validity instants, a signature bit string of 1..3 symbolic bytes with 0..7 padding bits, an RSA key, every signature-algorithm row, and 0..2 extensions drawn from key usage (all 16 bits symbolic), basic constraints, subject / authority key identifier, extended key usage (one known, one unknown purpose), policies, a vendor extension and an unknown critical extension; decoder failure or trailing data at the top level, in a name or in an extension value
//vsym:assume encoding/asn1 and crypto/ecdh are modelled by their contracts (the reflection-driven decoder and the curve arithmetic are not executed): Unmarshal fills the destination with harness-chosen values or fails; NewPublicKey returns a key whose Bytes() is the validated uncompressed point; field-by-field agreement with crypto/x509 on whole certificates is not decided

import (
	"crypto/ecdh"
	"crypto/ecdsa"
	"crypto/elliptic"
	"crypto/rsa"
	"crypto/x509"
	"crypto/x509/pkix"
	"encoding/asn1"
	"errors"
	"math/big"
	"time"
)

// ---- models ------------------------------------------------------------------

var w16RSA struct {
	fail, trailing bool
	n              *big.Int
	e              int
}
var w16Curve struct {
	fail, trailing bool
	oid            asn1.ObjectIdentifier
}
var w16PSS struct {
	fail    bool
	params  pssParameters
	mgfFail bool
	mgfHash pkix.AlgorithmIdentifier
}
var w16Sign int
var w16PointBad bool
var m16pBig = map[*big.Int][]byte{}
var m16pKeys = map[*ecdh.PublicKey][]byte{}
var m16pKeyCurve = map[*ecdh.PublicKey]ecdh.Curve{}

func m16pUnmarshal(b []byte, val interface{}) ([]byte, error) {
	switch v := val.(type) {
	case *rsaPublicKey:
		if w16RSA.fail {
			return nil, errors.New("model: asn1 error")
		}
		v.N, v.E = w16RSA.n, w16RSA.e
		if w16RSA.trailing {
			return []byte{0}, nil
		}
		return nil, nil
	case *asn1.ObjectIdentifier:
		if w16Curve.fail {
			return nil, errors.New("model: asn1 error")
		}
		*v = w16Curve.oid
		if w16Curve.trailing {
			return []byte{0}, nil
		}
		return nil, nil
	case *pssParameters:
		if w16PSS.fail {
			return nil, errors.New("model: asn1 error")
		}
		*v = w16PSS.params
		return nil, nil
	case *certificate:
		if w16Top.fail {
			return nil, errors.New("model: asn1 error")
		}
		// a field that is OPTIONAL in the ASN.1 definition and does not occur
		// in the encoding is left as the destination had it
		keepExts, keepUID, keepSUID := v.TBSCertificate.Extensions, v.TBSCertificate.UniqueId, v.TBSCertificate.SubjectUniqueId
		*v = *w16Top.cert
		if w16Top.cert.TBSCertificate.Extensions == nil {
			v.TBSCertificate.Extensions = keepExts
		}
		if w16Top.cert.TBSCertificate.UniqueId.BitLength == 0 {
			v.TBSCertificate.UniqueId = keepUID
		}
		if w16Top.cert.TBSCertificate.SubjectUniqueId.BitLength == 0 {
			v.TBSCertificate.SubjectUniqueId = keepSUID
		}
		if w16Top.trailing {
			return []byte{0}, nil
		}
		return nil, nil
	case *pkix.RDNSequence:
		if w16Name.fail {
			return nil, errors.New("model: asn1 error")
		}
		cn := "cn-subject"
		if len(b) == 2 && b[1] == 'i' {
			cn = "cn-issuer"
		}
		*v = pkix.RDNSequence{pkix.RelativeDistinguishedNameSET{pkix.AttributeTypeAndValue{Type: asn1.ObjectIdentifier{2, 5, 4, 3}, Value: cn}}}
		if w16Name.trailing {
			return []byte{0}, nil
		}
		return nil, nil
	case *asn1.BitString:
		*v = w16Ext.usage
		return w16ExtRest()
	case *basicConstraints:
		*v = w16Ext.bc
		return w16ExtRest()
	case *[]byte:
		*v = append([]byte(nil), w16Ext.keyid...)
		return w16ExtRest()
	case *authKeyId:
		v.Id = append([]byte(nil), w16Ext.keyid...)
		return w16ExtRest()
	case *[]asn1.ObjectIdentifier:
		*v = []asn1.ObjectIdentifier{{1, 3, 6, 1, 5, 5, 7, 3, 2}, {1, 2, 3, 4, 5}}
		return w16ExtRest()
	case *[]policyInformation:
		*v = []policyInformation{{Policy: asn1.ObjectIdentifier{2, 23, 140, 1, 1}}, {Policy: asn1.ObjectIdentifier{1, 2, 3}}}
		return w16ExtRest()
	case *pkix.AlgorithmIdentifier:
		if w16PSS.mgfFail {
			return nil, errors.New("model: asn1 error")
		}
		*v = w16PSS.mgfHash
		return nil, nil
	}
	panic("m16pUnmarshal: unexpected destination")
}

var w16Top struct {
	fail, trailing bool
	cert           *certificate
}
var w16Name struct{ fail, trailing bool }
var w16Ext struct {
	fail, trailing bool
	usage          asn1.BitString
	bc             basicConstraints
	keyid          []byte
}

func w16ExtRest() ([]byte, error) {
	if w16Ext.fail {
		return nil, errors.New("model: asn1 error")
	}
	if w16Ext.trailing {
		return []byte{0}, nil
	}
	return nil, nil
}

func m16pNewPublicKey(c ecdh.Curve, key []byte) (*ecdh.PublicKey, error) {
	if w16PointBad {
		return nil, errors.New("model: point not on curve")
	}
	k := new(ecdh.PublicKey)
	m16pKeys[k] = append([]byte(nil), key...)
	m16pKeyCurve[k] = c
	return k, nil
}
func m16pBytes(k *ecdh.PublicKey) []byte   { return append([]byte(nil), m16pKeys[k]...) }
func m16pCurve(k *ecdh.PublicKey) ecdh.Curve { return m16pKeyCurve[k] }
func m16pNewInt(x int64) *big.Int           { return new(big.Int) }
func m16pSetBytes(z *big.Int, b []byte) *big.Int {
	m16pBig[z] = append([]byte(nil), b...)
	return z
}
func m16pSign(x *big.Int) int { return w16Sign }

type m16pEC struct{ name string }

func (c m16pEC) Params() *elliptic.CurveParams                        { return &elliptic.CurveParams{Name: c.name} }
func (c m16pEC) IsOnCurve(x, y *big.Int) bool                         { return true }
func (c m16pEC) Add(x1, y1, x2, y2 *big.Int) (*big.Int, *big.Int)     { return nil, nil }
func (c m16pEC) Double(x1, y1 *big.Int) (*big.Int, *big.Int)          { return nil, nil }
func (c m16pEC) ScalarMult(x, y *big.Int, k []byte) (*big.Int, *big.Int) { return nil, nil }
func (c m16pEC) ScalarBaseMult(k []byte) (*big.Int, *big.Int)         { return nil, nil }

func m16pP256() elliptic.Curve { return m16pEC{"P-256"} }
func m16pP384() elliptic.Curve { return m16pEC{"P-384"} }
func m16pP521() elliptic.Curve { return m16pEC{"P-521"} }

// ---- public keys ----------------------------------------------------------------

func H16_pubkey() {
	if vChoose(2, "algorithm") == 0 {
		w16RSA.fail = vChoose(2, "decoder-fails") == 1
		w16RSA.trailing = vChoose(2, "trailing-data") == 1
		w16RSA.n = new(big.Int)
		w16RSA.e = vNondetInt("exponent")
		w16Sign = vPick(vNondetInt("modulus-sign"), -1, 1)
		vAssume(vAnd(w16Sign >= -1, w16Sign <= 1))
		ki := &publicKeyInfo{PublicKey: asn1.BitString{Bytes: []byte{1, 2}, BitLength: 16}}
		pk, err := parsePublicKey(x509.RSA, ki)
		switch {
		case w16RSA.fail:
			vAssert(err != nil, "C16.rsa-decoder-failure-is-an-error")
		case w16RSA.trailing:
			vAssert(err != nil, "C16.rsa-trailing-data-rejected")
			vReach("C16.pk.rsa-trailing")
		case w16Sign <= 0:
			vAssert(err != nil, "C16.rsa-non-positive-modulus-rejected")
			vReach("C16.pk.rsa-bad-modulus")
		case w16RSA.e <= 0:
			vAssert(err != nil, "C16.rsa-non-positive-exponent-rejected")
			vReach("C16.pk.rsa-bad-exponent")
		default:
			vAssert(err == nil, "C16.rsa-key-accepted")
			r, ok := pk.(*rsa.PublicKey)
			vAssert(ok && r.N == w16RSA.n && r.E == w16RSA.e, "C16.rsa-key-is-the-decoded-modulus-and-exponent")
			vReach("C16.pk.rsa-ok")
		}
		return
	}
	curves := []struct {
		oid  asn1.ObjectIdentifier
		size int
		name string
	}{
		{asn1.ObjectIdentifier{1, 2, 840, 10045, 3, 1, 7}, 32, "P-256"},
		{asn1.ObjectIdentifier{1, 3, 132, 0, 34}, 48, "P-384"},
		{asn1.ObjectIdentifier{1, 3, 132, 0, 35}, 66, "P-521"},
		{asn1.ObjectIdentifier{1, 3, 132, 0, 33}, 28, "P-224"},
	}
	c := curves[vChoose(len(curves), "curve")]
	w16Curve.oid = c.oid
	w16Curve.fail = vChoose(2, "decoder-fails") == 1
	w16Curve.trailing = vChoose(2, "trailing-data") == 1
	w16PointBad = vChoose(2, "point-rejected") == 1
	point := vNondetBytes("point", 1+2*c.size)
	ki := &publicKeyInfo{PublicKey: asn1.BitString{Bytes: point, BitLength: 8 * len(point)}}
	var pk interface{}
	var err error
	crashed := vCatch(func() { pk, err = parsePublicKey(x509.ECDSA, ki) })
	vAssert(!crashed, "C16.public-key-parsing-never-crashes")
	if crashed {
		return
	}
	if w16Curve.fail || w16Curve.trailing || c.name == "P-224" || w16PointBad {
		vAssert(err != nil, "C16.malformed-ec-key-rejected")
		if c.name == "P-224" && !w16Curve.fail && !w16Curve.trailing {
			vReach("C16.pk.unknown-curve")
		}
		return
	}
	vAssert(err == nil, "C16.nist-curve-key-accepted")
	e, ok := pk.(*ecdsa.PublicKey)
	vAssert(ok && e != nil && e.Curve != nil && e.Curve.Params().Name == c.name, "C16.ec-key-curve")
	if !ok || e == nil {
		return
	}
	x, y := m16pBig[e.X], m16pBig[e.Y]
	vAssert(len(x) == c.size && len(y) == c.size, "C16.ec-coordinates-are-the-two-halves-of-the-point")
	if len(x) == c.size && len(y) == c.size {
		vAssert(vAnd(vEqBytes(x, point[1:1+c.size]), vEqBytes(y, point[1+c.size:])), "C16.ec-coordinates-are-the-two-halves-of-the-point")
	}
	switch c.name {
	case "P-256":
		vReach("C16.pk.p256")
	case "P-384":
		vReach("C16.pk.p384")
	case "P-521":
		vReach("C16.pk.p521")
	}
}

// ---- signature algorithms ----------------------------------------------------------

// RFC 3279 / 4055 / 5758 object identifiers, written independently of parse.go
var s16SigAlgs = []struct {
	oid  asn1.ObjectIdentifier
	algo x509.SignatureAlgorithm
}{
	{asn1.ObjectIdentifier{1, 2, 840, 113549, 1, 1, 2}, x509.MD2WithRSA},
	{asn1.ObjectIdentifier{1, 2, 840, 113549, 1, 1, 4}, x509.MD5WithRSA},
	{asn1.ObjectIdentifier{1, 2, 840, 113549, 1, 1, 5}, x509.SHA1WithRSA},
	{asn1.ObjectIdentifier{1, 3, 14, 3, 2, 29}, x509.SHA1WithRSA},
	{asn1.ObjectIdentifier{1, 2, 840, 113549, 1, 1, 11}, x509.SHA256WithRSA},
	{asn1.ObjectIdentifier{1, 2, 840, 113549, 1, 1, 12}, x509.SHA384WithRSA},
	{asn1.ObjectIdentifier{1, 2, 840, 113549, 1, 1, 13}, x509.SHA512WithRSA},
	{asn1.ObjectIdentifier{1, 2, 840, 10045, 4, 1}, x509.ECDSAWithSHA1},
	{asn1.ObjectIdentifier{1, 2, 840, 10045, 4, 3, 2}, x509.ECDSAWithSHA256},
	{asn1.ObjectIdentifier{1, 2, 840, 10045, 4, 3, 3}, x509.ECDSAWithSHA384},
	{asn1.ObjectIdentifier{1, 2, 840, 10045, 4, 3, 4}, x509.ECDSAWithSHA512},
	{asn1.ObjectIdentifier{1, 2, 3, 4}, x509.UnknownSignatureAlgorithm},
}
var s16PSS = asn1.ObjectIdentifier{1, 2, 840, 113549, 1, 1, 10}
var s16MGF1 = asn1.ObjectIdentifier{1, 2, 840, 113549, 1, 1, 8}

func H16_sigalg() {
	if vChoose(2, "pss") == 0 {
		row := s16SigAlgs[vChoose(len(s16SigAlgs), "algorithm")]
		got := getSignatureAlgorithmFromAI(pkix.AlgorithmIdentifier{Algorithm: row.oid})
		vAssert(got == row.algo, "C16.signature-algorithm-table")
		vReach("C16.sa.table")
		return
	}
	hashes := []struct {
		oid  asn1.ObjectIdentifier
		size int
		algo x509.SignatureAlgorithm
	}{
		{asn1.ObjectIdentifier{2, 16, 840, 1, 101, 3, 4, 2, 1}, 32, x509.SHA256WithRSAPSS},
		{asn1.ObjectIdentifier{2, 16, 840, 1, 101, 3, 4, 2, 2}, 48, x509.SHA384WithRSAPSS},
		{asn1.ObjectIdentifier{2, 16, 840, 1, 101, 3, 4, 2, 3}, 64, x509.SHA512WithRSAPSS},
		{asn1.ObjectIdentifier{1, 3, 14, 3, 2, 26}, 20, x509.UnknownSignatureAlgorithm},
	}
	null := []byte{5, 0}
	h := hashes[vChoose(len(hashes), "hash")]
	hashParamsNull := vChoose(2, "hash-params-null") == 1
	mgfIsMGF1 := vChoose(2, "mgf1") == 1
	mgfHashSame := vChoose(2, "mgf-hash-same") == 1
	mgfParamsNull := vChoose(2, "mgf-params-null") == 1
	salt := vNondetInt("salt-length")
	trailer := vNondetInt("trailer-field")
	w16PSS.fail = vChoose(2, "params-undecodable") == 1
	w16PSS.mgfFail = vChoose(2, "mgf-undecodable") == 1
	p := pssParameters{SaltLength: salt, TrailerField: trailer}
	p.Hash.Algorithm = h.oid
	if hashParamsNull {
		p.Hash.Parameters.FullBytes = null
	} else {
		p.Hash.Parameters.FullBytes = []byte{4, 0}
	}
	p.MGF.Algorithm = s16MGF1
	if !mgfIsMGF1 {
		p.MGF.Algorithm = asn1.ObjectIdentifier{1, 2, 840, 113549, 1, 1, 9}
	}
	w16PSS.params = p
	w16PSS.mgfHash.Algorithm = h.oid
	if !mgfHashSame {
		w16PSS.mgfHash.Algorithm = asn1.ObjectIdentifier{2, 16, 840, 1, 101, 3, 4, 2, 4}
	}
	if mgfParamsNull {
		w16PSS.mgfHash.Parameters.FullBytes = null
	} else {
		w16PSS.mgfHash.Parameters.FullBytes = []byte{4, 0}
	}
	got := getSignatureAlgorithmFromAI(pkix.AlgorithmIdentifier{Algorithm: s16PSS, Parameters: asn1.RawValue{FullBytes: []byte{0x30, 0}}})
	okShape := !w16PSS.fail && !w16PSS.mgfFail && hashParamsNull && mgfIsMGF1 && mgfHashSame && mgfParamsNull
	want := x509.UnknownSignatureAlgorithm
	if okShape && h.algo != x509.UnknownSignatureAlgorithm {
		// the three buckets of crypto/x509: salt length = hash length, default trailer field
		if vAnd(salt == h.size, trailer == 1) {
			want = h.algo
		}
	}
	vAssert(got == want, "C16.rsa-pss-parameters-decide-the-algorithm")
	if want != x509.UnknownSignatureAlgorithm {
		vReach("C16.sa.pss-ok")
	} else {
		vReach("C16.sa.pss-refused")
	}
}


// ---- the certificate as a whole -----------------------------------------------------

var s16OIDRSA = asn1.ObjectIdentifier{1, 2, 840, 113549, 1, 1, 1}

// s16RightAlign: the signature value is the bit string read as an integer:
// with p padding bits the bytes are shifted right by p (X.690 8.6, RFC 5280 4.1.1.3)
func s16RightAlign(b []byte, bitLength int) []byte {
	p := uint(8 - bitLength%8)
	if p == 8 {
		return b
	}
	out := make([]byte, len(b))
	for i := range b {
		out[i] = b[i] >> p
		if i > 0 {
			out[i] |= b[i-1] << (8 - p)
		}
	}
	return out
}

// H16_two_certificates: two certificates parsed one after the other in one
// process: the second result is that of the second certificate alone.
func H16_two_certificates() {
	mk := func(withExt bool, tag byte) *certificate {
		in := &certificate{}
		in.Raw = asn1.RawContent{tag}
		in.TBSCertificate.Raw = asn1.RawContent{tag}
		in.TBSCertificate.PublicKey.Raw = asn1.RawContent{tag}
		in.TBSCertificate.Subject.FullBytes = []byte{0x30, 's'}
		in.TBSCertificate.Issuer.FullBytes = []byte{0x30, 'i'}
		in.TBSCertificate.Version = 2
		in.TBSCertificate.SerialNumber = new(big.Int)
		in.TBSCertificate.SignatureAlgorithm = pkix.AlgorithmIdentifier{Algorithm: s16SigAlgs[4].oid}
		in.SignatureAlgorithm = in.TBSCertificate.SignatureAlgorithm
		in.SignatureValue = asn1.BitString{Bytes: []byte{tag, 1}, BitLength: 16}
		in.TBSCertificate.PublicKey.Algorithm.Algorithm = s16OIDRSA
		in.TBSCertificate.PublicKey.PublicKey = asn1.BitString{Bytes: []byte{1, 2}, BitLength: 16}
		if withExt {
			in.TBSCertificate.Extensions = []pkix.Extension{{Id: asn1.ObjectIdentifier{1, 3, 6, 1, 4, 1, 41482, 3, 7}, Value: []byte{2, 3, 1, 2, 3}}}
		}
		return in
	}
	w16RSA.n, w16RSA.e, w16Sign = new(big.Int), 65537, 1
	firstHasExt := vChoose(2, "first-has-extensions") == 1
	w16Top.cert = mk(firstHasExt, 1)
	// the first input may also be one the parser rejects (trailing data)
	firstRejected := vChoose(2, "first-rejected") == 1
	w16Top.trailing = firstRejected
	o1, e1 := ParseCertificate([]byte{0x30, 0})
	w16Top.trailing = false
	if firstRejected {
		vAssert(e1 != nil, "C16.trailing-data-rejected")
		w16Top.cert = mk(!firstHasExt, 2)
		o2, e2 := ParseCertificate([]byte{0x30, 0})
		vAssert(e2 == nil && o2 != nil, "C16.well-formed-certificate-accepted")
		if e2 == nil && o2 != nil {
			n2 := 1
			if firstHasExt {
				n2 = 0
			}
			vAssert(len(o2.Extensions) == n2, "C16.extension-list-is-that-of-this-certificate")
			_, se2 := ModHex(o2)
			vAssert((se2 == nil) == (n2 == 1), "C16.serial-is-that-of-this-certificate")
		}
		return
	}
	vAssert(e1 == nil && o1 != nil, "C16.well-formed-certificate-accepted")
	w16Top.cert = mk(!firstHasExt, 2)
	o2, e2 := ParseCertificate([]byte{0x30, 0})
	vAssert(e2 == nil && o2 != nil, "C16.well-formed-certificate-accepted")
	if e1 != nil || e2 != nil || o1 == nil || o2 == nil {
		return
	}
	n1, n2 := 0, 1
	if firstHasExt {
		n1, n2 = 1, 0
	}
	vAssert(len(o1.Extensions) == n1 && len(o2.Extensions) == n2, "C16.extension-list-is-that-of-this-certificate")
	vAssert(len(o2.Raw) == 1 && o2.Raw[0] == 2 && len(o1.Raw) == 1 && o1.Raw[0] == 1, "C16.second-certificate-does-not-rewrite-the-first")
	vAssert(len(o1.Signature) == 2 && o1.Signature[0] == 1 && len(o2.Signature) == 2 && o2.Signature[0] == 2, "C16.second-certificate-does-not-rewrite-the-first")
	_, se1 := ModHex(o1)
	_, se2 := ModHex(o2)
	vAssert((se1 == nil) == (n1 == 1) && (se2 == nil) == (n2 == 1), "C16.serial-is-that-of-this-certificate")
	vReach("C16.two-certificates")
}

func H16_fields() {
	in := &certificate{}
	in.Raw = asn1.RawContent(vNondetBytes("raw", 1))
	in.TBSCertificate.Raw = asn1.RawContent(vNondetBytes("raw-tbs", 1))
	in.TBSCertificate.PublicKey.Raw = asn1.RawContent(vNondetBytes("raw-spki", 1))
	in.TBSCertificate.Subject.FullBytes = []byte{0x30, 's'}
	in.TBSCertificate.Issuer.FullBytes = []byte{0x30, 'i'}
	ver := vNondetInt("version")
	vAssume(vAnd(ver >= 0, ver <= 2))
	in.TBSCertificate.Version = ver
	serial := new(big.Int)
	in.TBSCertificate.SerialNumber = serial
	nb, na := time.Unix(vNondetI64("not-before")&0xffffffff, 0), time.Unix(vNondetI64("not-after")&0xffffffff, 0)
	in.TBSCertificate.Validity = validity{NotBefore: nb, NotAfter: na}
	// the factors are swept one at a time (parseCertificate treats them independently)
	focus := vChoose(4, "focus") // 0 signature value, 1 signature algorithm, 2 extensions, 3 faults
	row := s16SigAlgs[4]
	if focus == 1 {
		row = s16SigAlgs[vChoose(len(s16SigAlgs), "algorithm")]
	}
	in.TBSCertificate.SignatureAlgorithm = pkix.AlgorithmIdentifier{Algorithm: row.oid}
	in.SignatureAlgorithm = in.TBSCertificate.SignatureAlgorithm
	nsig, pad := 2, 0
	if focus == 0 {
		nsig, pad = 1+vChoose(3, "signature-bytes"), vChoose(8, "signature-padding-bits")
	}
	sig := vNondetBytes("signature", nsig)
	if pad > 0 {
		// a conforming encoder leaves the padding bits zero
		vAssume(sig[nsig-1]&byte(1<<uint(pad)-1) == 0)
		vReach("C16.f.padded-signature")
	}
	in.SignatureValue = asn1.BitString{Bytes: sig, BitLength: 8*nsig - pad}
	// an RSA key (the key itself is the subject of H16_pubkey)
	in.TBSCertificate.PublicKey.Algorithm.Algorithm = s16OIDRSA
	in.TBSCertificate.PublicKey.PublicKey = asn1.BitString{Bytes: []byte{1, 2}, BitLength: 16}
	w16RSA.n, w16RSA.e, w16Sign = new(big.Int), 65537, 1
	// extensions
	vendor := asn1.ObjectIdentifier{1, 3, 6, 1, 4, 1, 41482, 3, 7}
	kinds := []struct {
		id       asn1.ObjectIdentifier
		critical bool
	}{
		{asn1.ObjectIdentifier{2, 5, 29, 15}, true},
		{asn1.ObjectIdentifier{2, 5, 29, 19}, true},
		{asn1.ObjectIdentifier{2, 5, 29, 14}, false},
		{asn1.ObjectIdentifier{2, 5, 29, 35}, false},
		{asn1.ObjectIdentifier{2, 5, 29, 37}, false},
		{asn1.ObjectIdentifier{2, 5, 29, 32}, false},
		{vendor, false},
		{asn1.ObjectIdentifier{2, 5, 29, 99}, true},
		{asn1.ObjectIdentifier{1, 2, 3, 4, 5, 6}, true},
	}
	var chosen []int
	switch focus {
	case 2:
		if n := vChoose(3, "extensions"); n > 0 {
			k := vChoose(len(kinds), "extension-kind")
			chosen = []int{k}
			if n == 2 {
				// a second, different extension after or before it
				k2 := (k + 1 + vChoose(2, "second-kind")*5) % len(kinds)
				if vChoose(2, "second-first") == 1 {
					chosen = []int{k2, k}
				} else {
					chosen = []int{k, k2}
				}
			}
		}
	case 3:
		chosen = [][]int{nil, {0}, {6}, {1, 8}}[vChoose(4, "extensions")]
	}
	for _, k := range chosen {
		in.TBSCertificate.Extensions = append(in.TBSCertificate.Extensions,
			pkix.Extension{Id: kinds[k].id, Critical: kinds[k].critical, Value: vNondetBytes("extension-value", 1)})
	}
	ub := vNondetBytes("key-usage-bits", 2)
	w16Ext.usage = asn1.BitString{Bytes: ub, BitLength: 9 + vChoose(2, "key-usage-long")*7}
	w16Ext.bc = basicConstraints{IsCA: vNondetBool("is-ca"), MaxPathLen: vNondetInt("max-path-len")}
	w16Ext.keyid = vNondetBytes("key-id", 2)
	// faults
	fault := 0
	if focus == 3 {
		fault = 1 + vChoose(6, "fault")
	}
	switch fault {
	case 1:
		w16Top.fail = true
	case 2:
		w16Top.trailing = true
	case 3:
		w16Name.fail = true
	case 4:
		w16Name.trailing = true
	case 5:
		w16Ext.fail = true
	case 6:
		w16Ext.trailing = true
	}
	w16Top.cert = in

	var out *x509.Certificate
	var err error
	crashed := vCatch(func() { out, err = ParseCertificate([]byte{0x30, 0}) })
	vAssert(!crashed, "C16.parser-never-crashes")
	if crashed {
		return
	}
	decodesValue := false // does any chosen extension have its value decoded
	for _, k := range chosen {
		if k <= 5 {
			decodesValue = true
		}
	}
	switch {
	case w16Top.fail:
		vAssert(err != nil, "C16.undecodable-certificate-rejected")
		vReach("C16.f.undecodable")
		return
	case w16Top.trailing:
		vAssert(err != nil, "C16.trailing-data-rejected")
		vReach("C16.f.trailing")
		return
	case w16Name.fail || w16Name.trailing:
		vAssert(err != nil, "C16.malformed-name-rejected")
		vReach("C16.f.bad-name")
		return
	case (w16Ext.fail || w16Ext.trailing) && decodesValue:
		vAssert(err != nil, "C16.malformed-extension-value-rejected")
		vReach("C16.f.bad-extension")
		return
	}
	vAssert(err == nil && out != nil, "C16.well-formed-certificate-accepted")
	if err != nil || out == nil {
		return
	}
	vReach("C16.f.ok")
	vAssert(vEqBytes(out.Raw, in.Raw), "C16.field-raw")
	vAssert(vEqBytes(out.RawTBSCertificate, in.TBSCertificate.Raw), "C16.field-raw-tbs")
	vAssert(vEqBytes(out.RawSubjectPublicKeyInfo, in.TBSCertificate.PublicKey.Raw), "C16.field-raw-spki")
	vAssert(vEqBytes(out.RawSubject, []byte{0x30, 's'}) && vEqBytes(out.RawIssuer, []byte{0x30, 'i'}), "C16.field-raw-names")
	vAssert(out.Subject.CommonName == "cn-subject" && out.Issuer.CommonName == "cn-issuer", "C16.field-names")
	want := s16RightAlign(sig, 8*nsig-pad)
	vAssert(len(out.Signature) == len(want) && vEqBytes(out.Signature, want), "C16.field-signature-is-the-bit-string-value")
	vAssert(out.SignatureAlgorithm == row.algo, "C16.field-signature-algorithm")
	vAssert(out.PublicKeyAlgorithm == x509.RSA, "C16.field-public-key-algorithm")
	r, isRSA := out.PublicKey.(*rsa.PublicKey)
	vAssert(isRSA && r.N == w16RSA.n && r.E == 65537, "C16.field-public-key")
	vAssert(out.Version == ver+1, "C16.field-version")
	vAssert(out.SerialNumber == serial, "C16.field-serial-number")
	vAssert(out.NotBefore == nb && out.NotAfter == na, "C16.field-validity")
	vAssert(len(out.Extensions) == len(chosen), "C16.field-extension-list")
	if len(out.Extensions) != len(chosen) {
		return
	}
	wantUnhandled := 0
	for i, k := range chosen {
		e, ie := out.Extensions[i], in.TBSCertificate.Extensions[i]
		vAssert(e.Id.Equal(kinds[k].id) && e.Critical == kinds[k].critical && vEqBytes(e.Value, ie.Value), "C16.field-extension-list")
		switch k {
		case 0:
			usage := 0
			for bit := 0; bit < 9; bit++ {
				// bit i of the KeyUsage BIT STRING is the most significant bit first (RFC 5280 4.2.1.3)
				set := ub[bit/8]&(0x80>>uint(bit%8)) != 0
				usage = vIteInt(set, usage|1<<uint(bit), usage)
			}
			vAssert(int(out.KeyUsage) == usage, "C16.field-key-usage")
			vReach("C16.f.key-usage")
		case 1:
			vAssert(out.BasicConstraintsValid, "C16.field-basic-constraints")
			vAssert(out.IsCA == w16Ext.bc.IsCA && out.MaxPathLen == w16Ext.bc.MaxPathLen, "C16.field-basic-constraints")
			vAssert(out.MaxPathLenZero == (w16Ext.bc.MaxPathLen == 0), "C16.field-basic-constraints")
			vReach("C16.f.basic-constraints")
		case 2:
			vAssert(vEqBytes(out.SubjectKeyId, w16Ext.keyid), "C16.field-subject-key-id")
		case 3:
			vAssert(vEqBytes(out.AuthorityKeyId, w16Ext.keyid), "C16.field-authority-key-id")
		case 4:
			vAssert(len(out.ExtKeyUsage) == 1 && out.ExtKeyUsage[0] == x509.ExtKeyUsageClientAuth, "C16.field-extended-key-usage")
			vAssert(len(out.UnknownExtKeyUsage) == 1 && out.UnknownExtKeyUsage[0].Equal(asn1.ObjectIdentifier{1, 2, 3, 4, 5}), "C16.field-extended-key-usage")
		case 5:
			vAssert(len(out.PolicyIdentifiers) == 2 && out.PolicyIdentifiers[0].Equal(asn1.ObjectIdentifier{2, 23, 140, 1, 1}) && out.PolicyIdentifiers[1].Equal(asn1.ObjectIdentifier{1, 2, 3}), "C16.field-policies")
		case 7, 8:
			wantUnhandled++
			found := false
			for _, u := range out.UnhandledCriticalExtensions {
				if u.Equal(kinds[k].id) {
					found = true
				}
			}
			vAssert(found, "C16.unknown-critical-extension-recorded")
			vReach("C16.f.unhandled-critical")
		}
	}
	vAssert(len(out.UnhandledCriticalExtensions) == wantUnhandled, "C16.only-unknown-critical-extensions-recorded")
}
