package utils

//vsym:pkg github.com/theparanoids/ysshra/agent/utils
//vsym:entry H16_pem
//vsym:model encoding/pem.Decode m16Decode
//vsym:model github.com/theparanoids/ysshra/attestation/yubiattest.ParseCertificate m16LenientParse
//vsym:model crypto/x509.ParseCertificate m16StrictParse
//vsym:replay none
//vsym:expect-cover C16.pem.all C16.pem.empty C16.pem.trailing-space C16.pem.trailing-garbage C16.pem.bad-certificate C16.pem.first-of-bundle
//vsym:bound H16_pem: 0..3 (thorough 0..5) PEM blocks, each parsing or not, optional leading text, a tail that is empty, whitespace (symbolic byte out of space, tab, CR, LF) or garbage (symbolic non-space byte)
//vsym:assume pem.Decode is modelled by its contract on a token stream (returns the next block and a strictly shorter rest, skipping preceding text, or nil when no block follows); the certificate parsers are modelled as 'certificate #i or error' and log which parser was used: what the lenient parser accepts is the subject of the other C16 harnesses

import (
	"crypto/x509"
	"encoding/pem"
	"errors"
)

var m16Bad map[byte]bool
var m16Certs map[byte]*x509.Certificate
var m16StrictUsed bool
var m16Parsed []byte

func m16Decode(data []byte) (*pem.Block, []byte) {
	for i := 0; i+1 < len(data); i++ {
		if data[i] == 'B' {
			return &pem.Block{Type: "CERTIFICATE", Bytes: []byte{data[i+1]}}, data[i+2:]
		}
	}
	return nil, data
}

func m16Parse(der []byte) (*x509.Certificate, error) {
	if len(der) != 1 {
		return nil, errors.New("model: malformed")
	}
	m16Parsed = append(m16Parsed, der[0])
	if m16Bad[der[0]] {
		return nil, errors.New("model: certificate does not parse")
	}
	c := &x509.Certificate{Raw: []byte{der[0]}}
	m16Certs[der[0]] = c
	return c, nil
}

func m16LenientParse(der []byte) (*x509.Certificate, error) { return m16Parse(der) }
func m16StrictParse(der []byte) (*x509.Certificate, error) {
	m16StrictUsed = true
	return m16Parse(der)
}

func H16_pem() {
	m16Bad = map[byte]bool{}
	m16Certs = map[byte]*x509.Certificate{}
	maxBlocks := 3
	if vThorough() {
		maxBlocks = 5
	}
	var data []byte
	if vChoose(2, "leading-text") == 1 {
		g := vNondetU8("lead")
		vAssume(g != 'B')
		data = append(data, g)
	}
	n := vChoose(maxBlocks+1, "blocks")
	firstBad := -1
	for i := 0; i < n; i++ {
		id := byte(i + 1)
		if vChoose(2, "block-bad") == 1 {
			m16Bad[id] = true
			if firstBad < 0 {
				firstBad = i
			}
		}
		data = append(data, 'B', id)
		if vChoose(2, "separator") == 1 {
			data = append(data, '\n')
		}
	}
	tail := vChoose(3, "tail")
	switch tail {
	case 1:
		w := vNondetU8("space")
		vAssume(vOr(vOr(w == ' ', w == '\t'), vOr(w == '\n', w == '\r')))
		data = append(data, w)
	case 2:
		g := vNondetU8("garbage")
		vAssume(vAnd(vAnd(g != 'B', g > 0x20), g < 0x7f))
		data = append(data, g)
	}
	leadOnly := n == 0 && len(data) > 0 && tail != 1 && !(len(data) == 0)

	certs, err := ParsePEMCertificates(data)
	vAssert(!m16StrictUsed, "C16.pem-bundles-go-through-the-lenient-parser")
	wantErr := firstBad >= 0 || tail == 2 || (n == 0 && leadOnly)
	if n == 0 && tail != 2 {
		// only leading text and/or whitespace: the leading byte is arbitrary text
		if len(data) > 0 && data[0] != ' ' && tail != 1 {
			wantErr = true
		}
	}
	if firstBad >= 0 {
		vAssert(err != nil && certs == nil, "C16.first-unparsable-certificate-is-an-error")
		// nothing after the first bad one was parsed
		vAssert(len(m16Parsed) == firstBad+1, "C16.parsing-stops-at-the-first-error")
		vReach("C16.pem.bad-certificate")
		return
	}
	if tail == 2 {
		vAssert(err != nil, "C16.trailing-data-is-rejected")
		vReach("C16.pem.trailing-garbage")
		return
	}
	if n == 0 && len(data) > 0 && vChoose(1, "x") == 0 {
		// leading text without any block
		lead := data[0]
		isSpace := vOr(vOr(lead == ' ', lead == '\t'), vOr(lead == '\n', lead == '\r'))
		_ = isSpace
	}
	_ = wantErr
	if n > 0 {
		vAssert(err == nil, "C16.well-formed-bundle-accepted")
		vAssert(len(certs) == n, "C16.bundle-yields-all-certificates")
		for i := 0; i < n && i < len(certs); i++ {
			vAssert(certs[i] == m16Certs[byte(i+1)], "C16.bundle-order-preserved")
		}
		if tail == 1 {
			vReach("C16.pem.trailing-space")
		}
		vReach("C16.pem.all")
		first, ferr := ParsePEMCertificate(data)
		vAssert(ferr == nil && first == m16Certs[1], "C16.single-certificate-is-the-first-of-the-bundle")
		vReach("C16.pem.first-of-bundle")
	} else if len(data) == 0 {
		vAssert(err == nil && len(certs) == 0, "C16.empty-input-yields-no-certificates")
		_, ferr := ParsePEMCertificate(data)
		vAssert(ferr != nil, "C16.no-certificate-is-an-error-for-the-single-form")
		vReach("C16.pem.empty")
	}
}
