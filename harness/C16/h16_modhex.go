package yubiattest

//vsym:pkg github.com/theparanoids/ysshra/attestation/yubiattest
//vsym:entry H16_modhex
//vsym:entry H16_modhex_injective
//vsym:replay same-harness
//vsym:expect-cover C16.modhex.ok3 C16.modhex.ok4 C16.modhex.err-length C16.modhex.err-missing
//vsym:bound H16_modhex: 0..2 extensions (thorough 0..3), each the vendor serial OID or another OID, value of 0..7 symbolic bytes
//vsym:bound H16_modhex_injective: two certificates, serials of 3 or 4 symbolic bytes each

import (
	"crypto/x509"
	"crypto/x509/pkix"
	"encoding/asn1"
)

const s16Alphabet = "cbdefghijklnrtuv" // https://developers.yubico.com/yubico-c/Manuals/modhex.1.html

var s16SerialOID = asn1.ObjectIdentifier{1, 3, 6, 1, 4, 1, 41482, 3, 7}
var s16OtherOID = asn1.ObjectIdentifier{2, 5, 29, 15}

func s16InAlphabet(c byte) bool {
	ok := false
	for i := 0; i < len(s16Alphabet); i++ {
		ok = vOr(ok, c == s16Alphabet[i])
	}
	return ok
}

// s16Digit: the ModHex digit of a nibble, written as a comparison chain
// (independent of the table lookup in the code).
func s16Digit(n byte) byte {
	var d byte = s16Alphabet[0]
	for i := 1; i < 16; i++ {
		d = vIteU8(n == byte(i), s16Alphabet[i], d)
	}
	return d
}

func H16_modhex() {
	maxExt := 2
	if vThorough() {
		maxExt = 3
	}
	n := vChoose(maxExt+1, "next")
	var exts []pkix.Extension
	lastSerial := -1
	nSerial := 0
	for i := 0; i < n; i++ {
		isSerial := vChoose(2, "is-serial") == 1
		l := vChoose(8, "value-len")
		e := pkix.Extension{Id: s16OtherOID, Value: vNondetBytes("val", l)}
		if isSerial {
			e.Id = s16SerialOID
			lastSerial = i
			nSerial++
		}
		exts = append(exts, e)
	}
	crt := &x509.Certificate{Extensions: exts}
	var got string
	var err error
	crashed := vCatch(func() { got, err = ModHex(crt) })
	if lastSerial >= 0 {
		vFact("serial-value-len", len(exts[lastSerial].Value))
	}
	vAssert(!crashed, "C16.modhex-no-crash")
	if crashed {
		return
	}
	if lastSerial < 0 {
		vAssert(err != nil, "C16.modhex-missing-serial-is-error")
		vReach("C16.modhex.err-missing")
		return
	}
	if nSerial > 1 {
		// the statement does not say which of several serial extensions
		// decides (a well-formed certificate has at most one): only totality
		// and well-formedness of a successful result are claimed
		if err == nil {
			vAssert(len(got) == 8, "C16.modhex-8-chars")
			for i := 0; i < 8 && i < len(got); i++ {
				vAssert(s16InAlphabet(got[i]), "C16.modhex-alphabet")
			}
		}
		return
	}
	val := exts[lastSerial].Value
	switch len(val) {
	case 5, 6:
		vAssert(err == nil, "C16.modhex-accepts-3-and-4-byte-serials")
		if err != nil {
			return
		}
		vAssert(len(got) == 8, "C16.modhex-8-chars")
		if len(got) != 8 {
			return
		}
		serial := val[2:]
		want := make([]byte, 0, 8)
		if len(serial) == 3 {
			want = append(want, 'c', 'c')
			vReach("C16.modhex.ok3")
		} else {
			vReach("C16.modhex.ok4")
		}
		for _, b := range serial {
			want = append(want, s16Digit(b>>4), s16Digit(b&0xf))
		}
		vAssert(vEqString(got, string(want)), "C16.modhex-digits")
		for i := 0; i < 8; i++ {
			vAssert(s16InAlphabet(got[i]), "C16.modhex-alphabet")
		}
	default:
		vAssert(err != nil, "C16.modhex-other-length-is-error")
		vReach("C16.modhex.err-length")
	}
}

func h16Cert(name string, l int) (*x509.Certificate, []byte) {
	v := vNondetBytes(name, l+2)
	return &x509.Certificate{Extensions: []pkix.Extension{{Id: s16SerialOID, Value: v}}}, v[2:]
}

func H16_modhex_injective() {
	l1 := 3 + vChoose(2, "len1")
	l2 := 3 + vChoose(2, "len2")
	c1, s1 := h16Cert("a", l1)
	c2, s2 := h16Cert("b", l2)
	m1, e1 := ModHex(c1)
	m2, e2 := ModHex(c2)
	vAssert(vAnd(e1 == nil, e2 == nil), "C16.modhex-accepts-3-and-4-byte-serials")
	if e1 != nil || e2 != nil {
		return
	}
	// numeric values as 4-byte big-endian
	p1 := append(make([]byte, 4-l1), s1...)
	p2 := append(make([]byte, 4-l2), s2...)
	vAssert(vIff(vEqBytes(p1, p2), vEqString(m1, m2)), "C16.modhex-injective")
}
