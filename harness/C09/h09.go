package shimagent

//vsym:pkg github.com/theparanoids/ysshra/agent/shimagent
//vsym:include shim/world.go
//vsym:include shim/peek.go || shim/peek_bb.go
//vsym:entry H09_mode
//vsym:replay same-harness
//vsym:expect-cover C09.hidden C09.sign-hidden-refused C09.plain-listed C09.other-cert-listed C09.memory-cert-listed C09.hidden-removed C09.mode-off-lists-all C09.added-later-hidden C09.upstream-certificate-also-in-memory
//vsym:bound H09_mode: construction with the exported constructor over an arbitrary upstream content of 0..2 (thorough 0..3) identities (plain key, certificate whose KeyID decodes, certificate whose KeyID does not), mode on or off; then 0..1 (thorough 0..2) operations from {another client adds a decoding certificate upstream, AddHardCert of a new certificate, AddHardCert of a certificate the underlying agent already holds, Remove of an upstream certificate, RemoveAll}; then List, Signers and Sign for every identity; every certificate window and the clock symbolic with the clock inside the window

import (
	"github.com/theparanoids/ysshra/keyid"
	"golang.org/x/crypto/ssh"
)


// h09Valid: a certificate with an arbitrary window that contains the (arbitrary) clock
func h09Valid(decodes bool) *ssh.Certificate {
	va, vb := vNondetU64("valid-after"), vNondetU64("valid-before")
	vAssume(vAnd(va <= uint64(mwClock), uint64(mwClock) < vb))
	return mwNewCert(1, va, vb, decodes)
}

func H09_mode() {
	mwClock = vNondetI64("now")
	vAssume(vAnd(mwClock >= 0, mwClock < 1<<62))
	maxUp, maxOps := 2, 1
	if vThorough() {
		maxUp, maxOps = 3, 2
	}
	mode := vChoose(2, "no-upstream-mode") == 1
	// a decoding KeyID is a YSSHCA KeyID of any type (C05: consistent attributes)
	{
		t := &mwKeyIDTemplate
		t.IsHWKey, t.IsFirefighter = vNondetBool("kid-hwkey"), vNondetBool("kid-firefighter")
		t.IsNonce, t.IsHeadless = vNondetBool("kid-nonce"), vNondetBool("kid-headless")
		pol := vNondetU8("kid-policy")
		vAssume(pol <= 3)
		t.TouchPolicy = keyid.TouchPolicy(pol)
		vAssume(vImplies(t.IsHeadless, vAnd(vAnd(!t.IsHWKey, !t.IsFirefighter), t.TouchPolicy == keyid.NeverTouch)))
		vAssume(vImplies(t.IsNonce, vAnd(vAnd(!t.IsFirefighter, !t.IsHeadless), t.TouchPolicy == keyid.NeverTouch)))
	}
	up := &mwUpstream{failAt: -1}
	mwCurrentUp = up
	var upCerts []*ssh.Certificate
	nu := vChoose(maxUp+1, "upstream")
	havePlain := false
	for i := 0; i < nu; i++ {
		switch vChoose(3, "upstream-kind") {
		case 0:
			if havePlain {
				vAssume(false)
			}
			havePlain = true
			mwUpKey(up, 1, "k")
		case 1:
			c := h09Valid(true)
			upCerts = append(upCerts, c)
			mwUpCert(up, c, "y")
		case 2:
			c := h09Valid(false)
			upCerts = append(upCerts, c)
			mwUpCert(up, c, "n")
		}
	}
	// built by the exported constructor over the already populated upstream
	// (what is there at start-up is cached at start-up)
	s := mwNewServer(up, mode)

	var mem []*ssh.Certificate
	removed := map[*ssh.Certificate]bool{}
	nops := vChoose(maxOps+1, "operations")
	for i := 0; i < nops; i++ {
		switch vChoose(5, "operation") {
		case 4: // a certificate the underlying agent already holds is also registered as a hardware certificate
			if len(upCerts) == 0 {
				vAssume(false)
			}
			c := upCerts[vChoose(len(upCerts), "register-which")]
			if removed[c] {
				vAssume(false)
			}
			e := s.AddHardCert(c, "hw")
			vAssert(vIff(e == nil, havePlain), "C09.addhardcert-needs-listed-key")
			if e == nil {
				mem = append(mem, c)
				vReach("C09.upstream-certificate-also-in-memory")
			}
		case 0: // another client adds a YSSHCA certificate to the underlying agent later
			c := h09Valid(true)
			upCerts = append(upCerts, c)
			mwUpCert(up, c, "late")
			vFact("added-later", "yes")
		case 1:
			c := h09Valid(vChoose(2, "hw-decodes") == 1)
			e := s.AddHardCert(c, "hw")
			vAssert(vIff(e == nil, havePlain), "C09.addhardcert-needs-listed-key")
			if e == nil {
				mem = append(mem, c)
			}
		case 2:
			if len(upCerts) == 0 {
				vAssume(false)
			}
			c := upCerts[vChoose(len(upCerts), "remove-which")]
			if removed[c] {
				vAssume(false)
			}
			calls := len(up.log)
			e := s.Remove(c)
			vAssert(e == nil, "C09.hidden-certificate-can-be-removed")
			vAssert(len(up.log) > calls && !up.has(mwCertMarshal(c)), "C09.remove-reaches-the-underlying-agent")
			vAssert(!mwPeek || !mwCacheHas(s, mwCertMarshal(c)), "C09.cache-entry-removed-with-its-certificate")
			removed[c] = true
			// removing it also removes its in-memory registration, if any
			var keep []*ssh.Certificate
			for _, m := range mem {
				if m != c {
					keep = append(keep, m)
				}
			}
			mem = keep
			if mode && mwCertDecodes(c) {
				vReach("C09.hidden-removed")
			}
		case 3:
			e := s.RemoveAll()
			vAssert(e == nil, "C09.removeall")
			vAssert((!mwPeek || (mwCacheLen(s) == 0 && mwMemLen(s) == 0)) && len(up.ids) == 0, "C09.removeall-clears-everything")
			mem = nil
			for _, c := range upCerts {
				removed[c] = true
			}
			havePlain = false
		}
	}

	listed, lerr := s.List()
	vAssert(lerr == nil, "C09.list-ok")
	signers, serr := s.Signers()
	vAssert(serr == nil, "C09.signers-ok")
	// a second listing shows the same identities (nothing becomes hidden by having been listed)
	listed2, lerr2 := s.List()
	vAssert(lerr2 == nil && len(listed2) == len(listed), "C09.repeated-listing-is-stable")
	for _, k := range listed {
		found := false
		for _, k2 := range listed2 {
			if string(k.Blob) == string(k2.Blob) {
				found = true
			}
		}
		vAssert(found, "C09.repeated-listing-is-stable")
	}
	signers2, serr2 := s.Signers()
	vAssert(serr2 == nil && len(signers2) == len(signers), "C09.repeated-signers-listing-is-stable")
	inList := func(blob []byte) bool {
		for _, k := range listed {
			if string(k.Blob) == string(blob) {
				return true
			}
		}
		return false
	}
	inSigners := func(blob []byte) bool {
		for _, sg := range signers {
			if string(sg.PublicKey().Marshal()) == string(blob) {
				return true
			}
		}
		return false
	}
	for _, c := range upCerts {
		if removed[c] {
			continue
		}
		alsoInMemory := false
		for _, m := range mem {
			if m == c {
				alsoInMemory = true
			}
		}
		if alsoInMemory {
			continue // judged as an in-memory hardware certificate below
		}
		blob := mwCertMarshal(c)
		hidden := mode && mwCertDecodes(c)
		_, sgErr := s.Sign(c, []byte("d"))
		if hidden {
			vAssert(!inList(blob), "C09.upstream-ysshca-certificate-not-listed")
			vAssert(!inSigners(blob), "C09.upstream-ysshca-certificate-not-a-signer")
			vAssert(sgErr == errAgentNotFoundKey, "C09.sign-with-hidden-certificate-is-key-not-found")
			vAssert(!mwPeek || mwCacheHas(s, blob), "C09.hidden-certificate-is-cached-after-listing")
			vReach("C09.hidden")
			vReach("C09.sign-hidden-refused")
			if c.KeyId == "Y" && len(upCerts) > 0 && up.ids[len(up.ids)-1].comment == "late" {
				vReach("C09.added-later-hidden")
			}
		} else {
			vAssert(inList(blob), "C09.other-upstream-certificate-listed")
			vAssert(inSigners(blob), "C09.other-upstream-certificate-is-a-signer")
			vAssert(sgErr == nil, "C09.other-upstream-certificate-usable")
			if mode {
				vReach("C09.other-cert-listed")
			} else if mwCertDecodes(c) {
				vReach("C09.mode-off-lists-all")
			}
		}
	}
	if havePlain {
		vAssert(inList(mwKeyBlob(1)) && inSigners(mwKeyBlob(1)), "C09.plain-key-listed")
		_, e := s.Sign(mwPlainKey(1), []byte("d"))
		vAssert(e == nil, "C09.plain-key-usable")
		vReach("C09.plain-listed")
	}
	for _, c := range mem {
		blob := mwCertMarshal(c)
		vAssert(inList(blob), "C09.in-memory-certificate-listed")
		vAssert(inSigners(blob), "C09.in-memory-certificate-is-a-signer")
		_, e := s.Sign(c, []byte("d"))
		vAssert(e == nil, "C09.in-memory-certificate-usable")
		vReach("C09.memory-cert-listed")
	}
}
