package keyid

//vsym:pkg github.com/theparanoids/ysshra/keyid
//vsym:entry H09_keyid_decoding_is_a_function_of_the_text
//vsym:include C05/s05.go
//vsym:include C05/h05_text.go
//vsym:model encoding/json.Marshal t05Marshal
//vsym:model encoding/json.Unmarshal t05Unmarshal
//vsym:replay same-harness
//vsym:expect-cover C05.text.second-ok C05.text.ok C05.text.roundtrip
//vsym:bound H09_keyid_decoding_is_a_function_of_the_text: whether a certificate is hidden depends on the KeyID text alone: decode, overwrite the caller's copy, decode again (bounds of C05's H05_text_twice, H05_text_decode and H05_text_roundtrip)
//vsym:assume encoding/json is modelled by its contract on genuine JSON text (see C05)

// What is hidden is decided by decoding the KeyID text; shared with C05.
func H09_keyid_decoding_is_a_function_of_the_text() {
	switch vChoose(3, "part") {
	case 0:
		H05_text_twice()
	case 1:
		H05_text_decode()
	case 2:
		H05_text_roundtrip() // every KeyID the encoder produces (also one without principals) decodes
	}
}
