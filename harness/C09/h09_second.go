package shimagent

//vsym:pkg github.com/theparanoids/ysshra/agent/shimagent
//vsym:include shim/world.go
//vsym:include shim/peek.go || shim/peek_bb.go
//vsym:entry H09_second_client
//vsym:replay same-harness
//vsym:expect-cover C09.second-client-acted C09.second-client.answered
//vsym:bound H09_second_client: no-upstream mode over an underlying agent holding the plain key 1 and 0..1 certificate (KeyID decodes or not, valid window); while List or Signers runs, a second client of the underlying agent adds a currently valid certificate whose KeyID decodes (a YSSHCA certificate) just before the shim's second or third call: the answer contains no certificate of the underlying agent whose KeyID decodes

import (
	"golang.org/x/crypto/ssh"
	"golang.org/x/crypto/ssh/agent"
)

// The shim lock does not cover the underlying agent: a second client may add
// a YSSHCA certificate while an answer is being assembled.  What is hidden is
// decided on the identities the answer is built from, not on an earlier
// reading of the key list.
func H09_second_client() {
	mwClock = vNondetI64("now")
	vAssume(vAnd(mwClock >= 0, mwClock < 1<<62))
	valid := func(name string, key int, decodes bool) *ssh.Certificate {
		va, vb := vNondetU64(name+"-valid-after"), vNondetU64(name+"-valid-before")
		vAssume(vAnd(va <= uint64(mwClock), uint64(mwClock) < vb))
		return mwNewCert(key, va, vb, decodes)
	}
	up := &mwUpstream{failAt: -1}
	mwUpKey(up, 1, "k")
	switch vChoose(3, "upstream-certificate") {
	case 1:
		mwUpCert(up, valid("up", 1, false), "c")
	case 2:
		mwUpCert(up, valid("up", 1, true), "c")
	}
	s := mwNewServer(up, true)
	late := valid("late", 2, true)
	base := up.calls
	up.intrudeAt = base + 1 + vChoose(2, "second-client-before-call")
	up.intrude = func() { mwUpCert(up, late, "late") }
	op := vChoose(2, "operation")
	var listed []*agent.Key
	var signers []ssh.Signer
	var err error
	crashed := vCatch(func() {
		if op == 0 {
			listed, err = s.List()
		} else {
			signers, err = s.Signers()
		}
	})
	vAssert(!crashed, "C09.no-crash")
	if crashed || err != nil {
		return
	}
	for _, k := range listed {
		if c := mwCertByBlob(k.Blob); c != nil {
			vAssert(!mwCertDecodes(c), "C09.no-upstream-ysshca-certificate-listed")
		}
	}
	for _, sg := range signers {
		if c := mwCertByBlob(sg.PublicKey().Marshal()); c != nil {
			vAssert(!mwCertDecodes(c), "C09.no-upstream-ysshca-certificate-among-signers")
		}
	}
	vReach("C09.second-client.answered")
	vCover(up.intrude == nil, "C09.second-client-acted")
}
