package shimagent

//vsym:pkg github.com/theparanoids/ysshra/agent/shimagent
//vsym:include shim/world.go
//vsym:include shim/peek.go || shim/peek_bb.go
//vsym:include C10/h10.go
//vsym:entry H09_registered_certificate_is_the_shims_own
//vsym:replay same-harness
//vsym:max-len 4
//vsym:expect-cover C10.hw-accepted C10.fault-surfaces
//vsym:bound H09_registered_certificate_is_the_shims_own: a hardware certificate registered from a caller-owned key blob stays what it was when the caller reuses its buffer (in no-upstream mode the listing would otherwise show arbitrary bytes, e.g. a hidden certificate) - bounds of C10's H10_addhardcert; and a failed registration registers nothing (H10_faults)
//vsym:assume the shim world of C07..C10

// shared with C10 (the code is the shim server's)
func H09_registered_certificate_is_the_shims_own() {
	if vChoose(2, "part") == 0 {
		H10_addhardcert()
	} else {
		// a registration that fails (the underlying agent's listing fails)
		// registers nothing: otherwise a hidden certificate would show up
		H10_faults()
	}
}
