package shimagent

//vsym:pkg github.com/theparanoids/ysshra/agent/shimagent
//vsym:include shim/world.go
//vsym:include shim/peek.go || shim/peek_bb.go
//vsym:include C10/h10.go
//vsym:entry H09_registered_certificate_is_the_shims_own
//vsym:replay same-harness
//vsym:max-len 4
//vsym:expect-cover C10.hw-accepted
//vsym:bound H09_registered_certificate_is_the_shims_own: a hardware certificate registered from a caller-owned key blob stays what it was when the caller reuses its buffer (in no-upstream mode the listing would otherwise show arbitrary bytes, e.g. a hidden certificate) - bounds of C10's H10_addhardcert
//vsym:assume the shim world of C07..C10

// shared with C10 (the code is the shim server's)
func H09_registered_certificate_is_the_shims_own() { H10_addhardcert() }
