package PKGNAME

// Harness API.  Under the symbolic executor (vsym) every function below is
// intercepted by name; the bodies here are the NATIVE semantics used when a
// counterexample is replayed with `go test -overlay`: nondeterministic values
// are read, in creation order, from the replay file named by $VSYM_REPLAY.

import (
	"encoding/json"
	"fmt"
	"math/big"
	"os"
	"reflect"
	"strconv"
	"strings"
	"time"
)

type vReplayRec struct {
	Name  string `json:"name"`
	Kind  string `json:"kind"`
	Value string `json:"value"`
}

type vReplayFile struct {
	Entry   string       `json:"entry"`
	Label   string       `json:"label"`
	Kind    string       `json:"kind"`
	Nondets []vReplayRec `json:"nondets"`
}

var vRF vReplayFile
var vRPos int
var vRFailed []string
var vRDiverged string
var vRLoaded bool

type vAssumeFailed struct{}

func vLoadReplay() {
	if vRLoaded {
		return
	}
	vRLoaded = true
	p := os.Getenv("VSYM_REPLAY")
	if p == "" {
		return
	}
	b, err := os.ReadFile(p)
	if err != nil {
		panic(err)
	}
	if err := json.Unmarshal(b, &vRF); err != nil {
		panic(err)
	}
}

func vParse(v string) uint64 {
	v = strings.TrimSpace(v)
	switch {
	case v == "true":
		return 1
	case v == "false", v == "":
		return 0
	case strings.HasPrefix(v, "#x"):
		x, _ := strconv.ParseUint(v[2:], 16, 64)
		return x
	case strings.HasPrefix(v, "#b"):
		x, _ := strconv.ParseUint(v[2:], 2, 64)
		return x
	}
	x, _ := strconv.ParseUint(v, 10, 64)
	return x
}

func vNext(kind, name string) uint64 {
	vLoadReplay()
	if vRPos >= len(vRF.Nondets) {
		if vRDiverged == "" {
			vRDiverged = fmt.Sprintf("replay vector exhausted at %s %q", kind, name)
		}
		return 0
	}
	// values created only inside models (which do not run natively) are
	// skipped: take the next record with this name
	for i := vRPos; i < len(vRF.Nondets); i++ {
		if vRF.Nondets[i].Name == name {
			vRPos = i + 1
			return vParse(vRF.Nondets[i].Value)
		}
	}
	if vRDiverged == "" {
		vRDiverged = fmt.Sprintf("replay diverged: no further record named %q", name)
	}
	return 0
}

func vNondetBool(name string) bool  { return vNext("bool", name) != 0 }
func vNondetU8(name string) uint8   { return uint8(vNext("u8", name)) }
func vNondetU16(name string) uint16 { return uint16(vNext("u16", name)) }
func vNondetU32(name string) uint32 { return uint32(vNext("u32", name)) }
func vNondetU64(name string) uint64 { return vNext("u64", name) }
func vNondetI64(name string) int64  { return int64(vNext("i64", name)) }
func vNondetInt(name string) int    { return int(int64(vNext("i64", name))) }

func vNondetBytes(name string, n int) []byte {
	b := make([]byte, n)
	for i := range b {
		b[i] = uint8(vNext("u8", fmt.Sprintf("%s_%d", name, i)))
	}
	return b
}

func vNondetString(name string, n int) string { return string(vNondetBytes(name, n)) }

func vAssume(c bool) {
	if !c {
		panic(vAssumeFailed{})
	}
}

type vReproduced struct{}

func vAssert(c bool, label string) {
	if !c {
		vRFailed = append(vRFailed, label)
		vLoadReplay()
		if label == vRF.Label && vRF.Kind != "crash" {
			// the counterexample's path ends at this obligation
			panic(vReproduced{})
		}
	}
}

func vCover(c bool, label string) {}
func vReach(label string)        {}

func vChoose(n int, name string) int { return int(vNext("choose", name)) }

func vAnd(a, b bool) bool     { return a && b }
func vOr(a, b bool) bool      { return a || b }
func vNot(a bool) bool        { return !a }
func vImplies(a, b bool) bool { return !a || b }
func vIff(a, b bool) bool     { return a == b }

func vIteU8(c bool, a, b uint8) uint8 {
	if c {
		return a
	}
	return b
}

func vIteInt(c bool, a, b int) int {
	if c {
		return a
	}
	return b
}

func vEqBytes(a, b []byte) bool   { return string(a) == string(b) }
func vEqString(a, b string) bool  { return a == b }
func vProvable(c bool) bool       { return c }
func vRetype(v, proto any) any    { return nil }
func vWatchAll(p any, prefix string) {}
func vWatchGlobals(prefix string)     {}
func vPoolStrict()                    {}
func vTraceRaceLabel(label string)    {}
// vFreeze / vCheckFrozen natively: a deep snapshot of the exported content
// reachable from each value, compared again by vCheckFrozen.
type vFrozenRec struct {
	label string
	x     any
	snap  any
}

var vFrozenSet []vFrozenRec

func vSnap(v reflect.Value, depth int) any {
	if depth > 6 || !v.IsValid() {
		return nil
	}
	switch v.Kind() {
	case reflect.Ptr, reflect.Interface:
		if v.IsNil() {
			return nil
		}
		return []any{"&", vSnap(v.Elem(), depth+1)}
	case reflect.Slice:
		if v.IsNil() {
			return nil
		}
		fallthrough
	case reflect.Array:
		out := make([]any, v.Len())
		for i := range out {
			out[i] = vSnap(v.Index(i), depth+1)
		}
		return out
	case reflect.Map:
		out := map[string]any{}
		for _, k := range v.MapKeys() {
			out[fmt.Sprint(k.Interface())] = vSnap(v.MapIndex(k), depth+1)
		}
		return out
	case reflect.Struct:
		out := map[string]any{}
		for i := 0; i < v.NumField(); i++ {
			if v.Type().Field(i).IsExported() {
				out[v.Type().Field(i).Name] = vSnap(v.Field(i), depth+1)
			}
		}
		return out
	case reflect.Func, reflect.Chan, reflect.UnsafePointer:
		return nil
	}
	if v.CanInterface() {
		return v.Interface()
	}
	return fmt.Sprint(v)
}

func vFreeze(label string, xs ...any) {
	for _, x := range xs {
		vFrozenSet = append(vFrozenSet, vFrozenRec{label, x, vSnap(reflect.ValueOf(x), 0)})
	}
}
func vThaw() { vCheckFrozen(); vFrozenSet = nil }
func vCheckFrozen() {
	for _, f := range vFrozenSet {
		vAssert(reflect.DeepEqual(f.snap, vSnap(reflect.ValueOf(f.x), 0)), f.label)
	}
}

// vSetField natively: reflection with integer conversion.
func vSetField(ptr any, name string, val any) bool {
	v := reflect.ValueOf(ptr)
	if v.Kind() != reflect.Ptr || v.Elem().Kind() != reflect.Struct {
		return false
	}
	f := v.Elem().FieldByName(name)
	if !f.IsValid() || !f.CanSet() {
		return false
	}
	x := reflect.ValueOf(val)
	if x.Type().ConvertibleTo(f.Type()) {
		f.Set(x.Convert(f.Type()))
		return true
	}
	return false
}
func vFact(key string, v any)     {}
func vMapOrderAll()               {}
func vAllocWatch()                {}
func vMaxLen(n int)               {}
func vPick(x int, lo, hi int) int { return x }
func vIsNative() bool             { return true }
func vThorough() bool             { return os.Getenv("VSYM_THOROUGH") == "1" }
func vNote(s string)              {}
func vSyncLog() string            { return "" }

func vCatch(f func()) (panicked bool) {
	defer func() {
		if p := recover(); p != nil {
			if _, ok := p.(vAssumeFailed); ok {
				panic(p)
			}
			if _, ok := p.(vReproduced); ok {
				panic(p)
			}
			panicked = true
		}
	}()
	f()
	return false
}

// vRunReplay runs entry natively and reports the outcome on stdout.
func vRunReplay(entries map[string]func()) (outcome string) {
	vLoadReplay()
	f := entries[vRF.Entry]
	if f == nil {
		return "NO-ENTRY " + vRF.Entry
	}
	crashed := ""
	func() {
		defer func() {
			if p := recover(); p != nil {
				if _, ok := p.(vAssumeFailed); ok {
					crashed = "ASSUME"
					return
				}
				if _, ok := p.(vReproduced); ok {
					return
				}
				crashed = fmt.Sprintf("PANIC %v", p)
			}
		}()
		f()
	}()
	switch {
	case crashed == "ASSUME" && len(vRFailed) > 0:
		// an obligation had already failed before the run left the bound
	case crashed == "ASSUME":
		return "NOT-REPRODUCED assumption failed natively"
	case crashed != "" && vRF.Kind == "crash":
		return "REPRODUCED " + crashed
	case crashed != "":
		return "REPRODUCED-OTHER " + crashed
	}
	for _, l := range vRFailed {
		if l == vRF.Label {
			return "REPRODUCED assertion " + l
		}
	}
	if len(vRFailed) > 0 {
		return "REPRODUCED-OTHER assertion " + strings.Join(vRFailed, ",")
	}
	if vRDiverged != "" {
		return "NOT-REPRODUCED " + vRDiverged
	}
	return "NOT-REPRODUCED"
}

// vMapPutIf(m, key, val, present): natively a plain conditional insert.
func vMapPutIf(m any, key any, val any, present bool) {
	if !present {
		return
	}
	mv := reflect.ValueOf(m)
	var vv reflect.Value
	if val == nil {
		vv = reflect.Zero(mv.Type().Elem())
	} else {
		vv = reflect.ValueOf(val)
	}
	mv.SetMapIndex(reflect.ValueOf(key), vv)
}

// vJSONFields: "GoName|jsonName|omitempty" per exported field.
func vJSONFields(v any) []string {
	t := reflect.TypeOf(v)
	if t.Kind() == reflect.Ptr {
		t = t.Elem()
	}
	var out []string
	for i := 0; i < t.NumField(); i++ {
		f := t.Field(i)
		if !f.IsExported() {
			continue
		}
		name, omit := f.Name, false
		tag := f.Tag.Get("json")
		if tag == "-" {
			continue
		}
		parts := strings.Split(tag, ",")
		if parts[0] != "" {
			name = parts[0]
		}
		for _, o := range parts[1:] {
			if o == "omitempty" {
				omit = true
			}
		}
		out = append(out, fmt.Sprintf("%s|%s|%v", f.Name, name, omit))
	}
	return out
}

func vSyncEventsOf(obj any) string { return "" }
func vSyncReset()                  {}

func vSetOpaque(ptr any, tag string)               {}
func vOpaqueTag(x any) string                      { return "" }
func vBoundMethodOf(f any, recv any, name string) bool { return true }

func vName(p any, name string)      {}
func vWatch(p any, loc string)      {}
func vWatchMap(m any, loc string)   {}
func vAccess(kind, loc string)      {}
func vTraceReset()                  {}
func vTraceEmit(op string)          {}

// ---- reals (C17 backoff) ---------------------------------------------------

func vParseRat(s string) *big.Rat {
	s = strings.TrimSpace(s)
	if strings.HasPrefix(s, "(") && strings.HasSuffix(s, ")") {
		in := strings.TrimSpace(s[1 : len(s)-1])
		if strings.HasPrefix(in, "- ") {
			return new(big.Rat).Neg(vParseRat(in[2:]))
		}
		if strings.HasPrefix(in, "/ ") {
			rest := strings.TrimSpace(in[2:])
			depth, cut := 0, -1
			for i, c := range rest {
				if c == '(' {
					depth++
				} else if c == ')' {
					depth--
				} else if c == ' ' && depth == 0 {
					cut = i
					break
				}
			}
			if cut > 0 {
				d := vParseRat(rest[cut+1:])
				if d.Sign() == 0 {
					return new(big.Rat)
				}
				return new(big.Rat).Quo(vParseRat(rest[:cut]), d)
			}
		}
		return new(big.Rat)
	}
	s = strings.TrimSuffix(s, "?")
	r, ok := new(big.Rat).SetString(s)
	if !ok {
		return new(big.Rat)
	}
	return r
}

func vParseReal(s string) float64 {
	f, _ := vParseRat(s).Float64()
	return f
}

func vNondetF64(name string) float64 {
	vLoadReplay()
	for i := vRPos; i < len(vRF.Nondets); i++ {
		if vRF.Nondets[i].Name == name {
			vRPos = i + 1
			return vParseReal(vRF.Nondets[i].Value)
		}
	}
	return 0
}
func vLinkReal(x, lo, hi int64)    {}
func vRealOf(x int64) float64      { return float64(x) }
func vRAdd(a, b float64) float64   { return a + b }
func vRSub(a, b float64) float64   { return a - b }
func vRMul(a, b float64) float64   { return a * b }
func vRLe(a, b float64) bool       { return a <= b }
func vIsNaN(a float64) bool        { return a != a }
func vIsInf(a float64) bool        { return a > 1.7976931348623157e308 || a < -1.7976931348623157e308 }

// vRunGoroutines: natively, give spawned goroutines time to finish.
func vRunGoroutines() { time.Sleep(100 * time.Millisecond) }

func vTraceCheckAtomic(op, mutex string) {}

// vEmit: natively the observation is printed (translator self-test).
func vEmit(label, text string) { fmt.Printf("VSYM-EMIT %s=%s\n", label, text) }
