package cert

//vsym:pkg github.com/theparanoids/ysshra/sshutils/cert
//vsym:entry H07_validate
//vsym:model time.Now m07Now
//vsym:replay same-harness
//vsym:expect-cover C07.kernel.valid C07.kernel.expired C07.kernel.premature C07.kernel.forever C07.kernel.nil
//vsym:bound H07_validate: ValidAfter and ValidBefore any 64-bit values, the clock any non-negative 64-bit number of seconds, certificate nil or not, explicit time or zero time (= time.Now)
//vsym:assume time.Now is modelled as an arbitrary instant; the instant now == ValidBefore is left unconstrained (the statement does not say; OpenSSH excludes it, the code includes it)

import (
	"time"

	"golang.org/x/crypto/ssh"
)

var m07Clock int64

func m07Now() time.Time { return time.Unix(m07Clock, 0) }

func H07_validate() {
	va := vNondetU64("valid-after")
	vb := vNondetU64("valid-before")
	now := vNondetI64("now")
	vAssume(now >= 0)
	vAssume(now < 1<<62)
	m07Clock = now
	if vChoose(2, "nil-cert") == 1 {
		vAssert(!ValidateSSHCertTime(nil, time.Unix(now, 0)), "C07.nil-certificate-invalid")
		vReach("C07.kernel.nil")
		return
	}
	crt := &ssh.Certificate{ValidAfter: va, ValidBefore: vb}
	t := time.Unix(now, 0)
	if !vIsNative() && vChoose(2, "zero-time") == 1 {
		t = time.Time{} // falls back to time.Now (modelled)
	}
	got := ValidateSSHCertTime(crt, t)
	un := uint64(now)
	inside := vAnd(va <= un, un < vb)
	premature := un < va
	expired := un > vb
	vAssert(vImplies(inside, got), "C07.inside-window-is-valid")
	vAssert(vImplies(premature, !got), "C07.premature-is-invalid")
	vAssert(vImplies(expired, !got), "C07.expired-is-invalid")
	vAssert(vImplies(vAnd(vb == 1<<64-1, va <= un), got), "C07.unlimited-validity-never-expires")
	vCover(vAnd(inside, got), "C07.kernel.valid")
	vCover(expired, "C07.kernel.expired")
	vCover(premature, "C07.kernel.premature")
	vCover(vAnd(vb == 1<<64-1, got), "C07.kernel.forever")
}
