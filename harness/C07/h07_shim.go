package shimagent

//vsym:pkg github.com/theparanoids/ysshra/agent/shimagent
//vsym:include shim/world.go
//vsym:include shim/peek.go || shim/peek_bb.go
//vsym:entry H07_shim
//vsym:entry H07_upstream3
//vsym:entry H07_time_passes
//vsym:entry H07_partial_purge
//vsym:entry H07_second_client
//vsym:replay same-harness repeat=6
//vsym:expect-cover C07.listed-valid C07.purged-expired-upstream C07.upstream-fault C07.time-passes C07.second-client-acted
//vsym:expect-cover-peek C07.purged-expired-memory C07.orphan-dropped C07.empty-list-keeps
//vsym:bound H07_time_passes: one hardware certificate (KeyID decodes or not, with or without a trailing newline) registered through AddHardCert at an arbitrary instant inside its arbitrary window, optionally listed, then List / Signers / Sign at an arbitrary later instant past the end of the window; both modes
//vsym:bound H07_partial_purge: 0..1 in-memory certificates and exactly two upstream identities (a certificate, then a certificate / plain key / the in-memory certificate), symbolic windows and clock, both modes; the underlying agent's first or second call after its List (a Remove of the purge, or the forwarded operation) fails; List / Signers / Sign: an operation that reports success hands out no certificate outside its window
//vsym:bound H07_second_client: one in-memory hardware certificate over key 1 (symbolic window) and the plain key 1 in the underlying agent (optionally also a certificate with a symbolic window); while List runs, a second client of the underlying agent adds a certificate with a symbolic window, or removes the plain key, just before the shim's second or third call; both modes for the addition: the listing holds no certificate outside its window and (upstream mode) no hardware certificate next to a non-empty key list that lacks its key
//vsym:bound H07_upstream3: no in-memory certificate, exactly three upstream identities (two certificates and a third certificate or plain key), symbolic windows and clock, both modes, List / Signers / Sign
//vsym:bound H07_shim: pre-state under the representation invariant with 0..1 in-memory certificates and 0..2 upstream identities (thorough also: 0..2 in-memory certificates with 0..1 upstream identities) (plain key of 2 possible keys, a certificate over either key, or the in-memory certificate itself also held upstream); every validity window and the clock symbolic; both modes; every map iteration order; the first (thorough: one of the first two) upstream call may fail; one operation from List / Signers / Sign

import (
	"time"

	"golang.org/x/crypto/ssh"
	"golang.org/x/crypto/ssh/agent"
)

func h07MustReject(c *ssh.Certificate) bool {
	un := uint64(mwClock)
	return vOr(un < c.ValidAfter, un > c.ValidBefore)
}

func h07MustAccept(c *ssh.Certificate) bool {
	un := uint64(mwClock)
	return vAnd(c.ValidAfter <= un, un < c.ValidBefore)
}

func H07_shim() {
	maxMem, maxUp := 1, 2
	g07NFault = 2
	if vThorough() {
		// two families beyond the quick bounds (their product does not finish
		// within the tier's budget): a second in-memory certificate, or a
		// fault at the second call of the underlying agent; three upstream
		// identities are covered by H07_upstream3
		if vChoose(2, "thorough-family") == 0 {
			maxMem, maxUp = 2, 1
		} else {
			g07NFault = 3
		}
	}
	h07Scenario(maxMem, maxUp, -1)
}

// H07_upstream3: exactly three upstream identities and nothing in memory, so
// that the swap-remove over the cached listing is exercised with several
// removals in one pass.
func H07_upstream3() {
	g07Fault = false
	h07Scenario(0, 3, 3)
}

// H07_time_passes: a hardware certificate registered through AddHardCert while
// valid, whose KeyID text carries a trailing newline or not; the clock then
// moves to or past the end of its window: every listing still succeeds, no
// longer shows it, signing with it fails and it is gone from memory.
func H07_time_passes() {
	mwPadKeyID = vChoose(2, "keyid-trailing-newline") == 1
	va, vb := vNondetU64("valid-after"), vNondetU64("valid-before")
	mwClock = vNondetI64("now")
	vAssume(vAnd(mwClock >= 0, mwClock < 1<<61))
	vAssume(vAnd(va <= uint64(mwClock), uint64(mwClock) < vb))
	vAssume(vb < 1<<61)
	if vIsNative() {
		// the real clock: a window that ends one second from now
		nwScale, mwClock, va, vb = 1, 100, 90, 101
	}
	up := &mwUpstream{failAt: -1}
	s := mwNewServer(up, vChoose(2, "no-upstream-mode") == 1)
	mwUpKey(up, 1, "k")
	c := mwNewCert(1, va, vb, vChoose(2, "decodes") == 1)
	err := s.AddHardCert(c, "hw")
	vAssert(err == nil, "C07.valid-hardware-certificate-accepted")
	vAssert(mwInv(s), "C07.table-invariant-preserved")
	if err != nil {
		return
	}
	if vChoose(2, "listed-while-valid") == 1 {
		l, e := s.List()
		found := false
		for _, k := range l {
			if string(k.Blob) == string(mwCertMarshal(c)) {
				found = true
			}
		}
		vAssert(e == nil && found, "C07.valid-hardware-certificate-listed")
		vAssert(mwInv(s), "C07.table-invariant-preserved")
	}
	later := vNondetI64("later")
	vAssume(vAnd(later > int64(vb), later < 1<<62)) // the instant ValidBefore itself is accepted by the repository (statement silent)
	mwClock = later
	if vIsNative() {
		time.Sleep(2200 * time.Millisecond)
	}
	op := vChoose(3, "operation")
	var oerr error
	var listed []*agent.Key
	var signers []ssh.Signer
	crashed := vCatch(func() {
		switch op {
		case 0:
			listed, oerr = s.List()
		case 1:
			signers, oerr = s.Signers()
		case 2:
			_, oerr = s.Sign(c, []byte("data"))
		}
	})
	vAssert(!crashed, "C07.no-crash")
	if crashed {
		return
	}
	vAssert(mwInv(s), "C07.table-invariant-preserved")
	if op == 2 {
		vAssert(oerr != nil, "C07.sign-with-purged-certificate-fails")
	} else {
		vAssert(oerr == nil, "C07.listing-succeeds-after-expiry")
	}
	for _, k := range listed {
		vAssert(string(k.Blob) != string(mwCertMarshal(c)), "C07.no-listed-certificate-outside-its-window")
	}
	for _, sg := range signers {
		vAssert(string(sg.PublicKey().Marshal()) != string(mwCertMarshal(c)), "C07.no-listed-certificate-outside-its-window")
	}
	vAssert(!mwPeek || mwMemLen(s) == 0, "C07.expired-in-memory-certificate-removed")
	vReach("C07.time-passes")
}

// H07_partial_purge: a purge that fails half way. One of the underlying
// agent's calls after its List fails while other removals of the same pass
// succeed; whatever the operation then reports, a reported success hands out
// no certificate outside its window.
func H07_partial_purge() {
	g07Fault = true
	h07Scenario(1, 2, 2)
}

// H07_second_client: the shim lock does not cover the underlying agent, so a
// second client may change it while a listing is being produced.  Whatever
// the listing is assembled from, it is one consistent answer: nothing outside
// its window, no hardware certificate next to keys that lack its key.
func H07_second_client() {
	vMapOrderAll()
	mwClock = vNondetI64("now")
	vAssume(vAnd(mwClock >= 0, mwClock < 1<<62))
	up := &mwUpstream{failAt: -1}
	kind := vChoose(2, "second-client")
	noUp := false
	if kind == 0 {
		noUp = vChoose(2, "no-upstream-mode") == 1
	}
	s := mwNewServer(up, noUp)
	hw := mwNewCert(1, vNondetU64("mem-valid-after"), vNondetU64("mem-valid-before"), false)
	mwPutMem(s, hw)
	mwUpKey(up, 1, "k")
	if vChoose(2, "upstream-certificate") == 1 {
		mwUpCert(up, mwNewCert(2, vNondetU64("up-valid-after"), vNondetU64("up-valid-before"), false), "c")
	}
	up.intrudeAt = 1 + vChoose(2, "second-client-before-call")
	switch kind {
	case 0:
		late := mwNewCert(2, vNondetU64("late-valid-after"), vNondetU64("late-valid-before"), false)
		up.intrude = func() { mwUpCert(up, late, "late") }
	case 1:
		up.intrude = func() {
			for i, id := range up.ids {
				if string(id.blob) == string(mwKeyBlob(1)) {
					up.ids = append(up.ids[:i:i], up.ids[i+1:]...)
					break
				}
			}
		}
	}
	var listed []*agent.Key
	var err error
	crashed := vCatch(func() { listed, err = s.List() })
	vAssert(!crashed, "C07.no-crash")
	if crashed || err != nil {
		return
	}
	hwListed, keyListed, others := false, false, 0
	for _, k := range listed {
		if c := mwCertByBlob(k.Blob); c != nil {
			vAssert(!h07MustReject(c), "C07.no-listed-certificate-outside-its-window")
			if c == hw {
				hwListed = true
				continue
			}
			if string(c.Key.Marshal()) == string(mwKeyBlob(1)) {
				keyListed = true
			}
		} else if string(k.Blob) == string(mwKeyBlob(1)) {
			keyListed = true
		}
		others++
	}
	if !noUp {
		vAssert(!(hwListed && others > 0 && !keyListed), "C07.no-keyless-certificate-next-to-a-key-list-that-lacks-its-key")
	}
	vCover(up.intrude == nil, "C07.second-client-acted")
}

// g07Fault: with an exact number of upstream identities, whether a call after
// the underlying agent's List fails (H07_partial_purge) or none does.
var g07Fault bool

// g07NFault: how many of the first calls of the underlying agent may fail (+1 for "none")
var g07NFault int

func h07Scenario(maxMem, maxUp, exactUp int) {
	vMapOrderAll()
	mwClock = vNondetI64("now")
	vAssume(vAnd(mwClock >= 0, mwClock < 1<<62))
	up := &mwUpstream{failAt: -1}
	s := mwNewServer(up, vChoose(2, "no-upstream-mode") == 1)

	newCert := func(name string) *ssh.Certificate {
		if exactUp >= 0 {
			// the key and the KeyID flavour do not matter to the purge
			return mwNewCert(1, vNondetU64(name+"-valid-after"), vNondetU64(name+"-valid-before"), false)
		}
		return mwNewCert(1+vChoose(2, name+"-key"), vNondetU64(name+"-valid-after"), vNondetU64(name+"-valid-before"), vChoose(2, name+"-decodes") == 1)
	}
	var mem []*ssh.Certificate
	nm := vChoose(maxMem+1, "in-memory")
	for i := 0; i < nm; i++ {
		c := newCert("mem")
		mem = append(mem, c)
		mwPutMem(s, c)
	}
	var upCerts []*ssh.Certificate
	nu := exactUp
	if exactUp < 0 {
		nu = vChoose(maxUp+1, "upstream")
	}
	for i := 0; i < nu; i++ {
		kind := 2
		if exactUp < 0 || i == nu-1 {
			kind = vChoose(3+nm, "upstream-kind")
		}
		switch {
		case kind < 2: // plain key 1 or 2
			if up.has(mwKeyBlob(kind + 1)) {
				vAssume(false)
			}
			mwUpKey(up, kind+1, "k")
		case kind == 2: // a certificate of its own
			c := newCert("up")
			upCerts = append(upCerts, c)
			mwUpCert(up, c, "c")
		default: // the in-memory certificate is also held upstream
			c := mem[kind-3]
			if up.has(mwCertMarshal(c)) {
				vAssume(false)
			}
			upCerts = append(upCerts, c)
			mwUpCert(up, c, "c")
		}
	}
	nFault := g07NFault
	if nFault == 0 {
		nFault = 2
	}
	if exactUp >= 0 {
		nFault = 1
	}
	up.failAt = vChoose(nFault, "upstream-fault-at") - 1
	if exactUp >= 0 && g07Fault {
		up.failAt = 1 + vChoose(2, "upstream-fault-after-list")
	}

	// pre-state facts
	listEmpty := len(up.ids) == 0
	upHad := map[*ssh.Certificate]bool{}
	for _, c := range upCerts {
		upHad[c] = true
	}
	hasPlainKey := func(c *ssh.Certificate) bool { return up.has(c.Key.Marshal()) }
	hasCertOverKey := func(c *ssh.Certificate) bool {
		for _, x := range upCerts {
			if string(x.Key.Marshal()) == string(c.Key.Marshal()) {
				return true
			}
		}
		return false
	}
	plainBefore := map[*ssh.Certificate]bool{}
	certOverBefore := map[*ssh.Certificate]bool{}
	for _, c := range mem {
		plainBefore[c] = hasPlainKey(c)
		certOverBefore[c] = hasCertOverKey(c)
	}

	op := vChoose(3, "operation")
	var err error
	var listed []*agent.Key
	var signers []ssh.Signer
	var signTarget *ssh.Certificate
	crashed := vCatch(func() {
		switch op {
		case 0:
			listed, err = s.List()
		case 1:
			signers, err = s.Signers()
		case 2:
			all := append(append([]*ssh.Certificate(nil), mem...), upCerts...)
			if len(all) == 0 {
				vAssume(false)
			}
			signTarget = all[vChoose(len(all), "sign-with")]
			_, err = s.Sign(signTarget, []byte("data"))
		}
	})
	vAssert(!crashed, "C07.no-crash")
	if crashed {
		return
	}
	vAssert(mwInv(s), "C07.table-invariant-preserved")

	if up.failed && len(up.log) > 0 && up.log[0] == "List" && up.failAt == 0 {
		vAssert(err != nil, "C07.upstream-list-failure-is-an-error")
		vAssert(len(listed) == 0 && len(signers) == 0, "C07.no-partial-listing-on-failure")
		vReach("C07.upstream-fault")
	}
	if err != nil {
		return // refusing is always safe
	}
	if up.failed {
		// An upstream call failed and the operation nevertheless reported
		// success.  remove() deliberately ignores the underlying agent's
		// error for a certificate it also held in memory (a "not found" from
		// the agent cannot be told from a transient failure there), so for
		// such a certificate the purge of the underlying agent may be
		// incomplete by design; failures of the underlying agent are not among
		// the histories C07 quantifies over and nothing is claimed for them.
		// For a certificate held by the underlying agent only there is no
		// such tolerance: a purge that failed is an error, so a reported
		// success hands out no such certificate outside its window.
		inMem := func(c *ssh.Certificate) bool {
			for _, m := range mem {
				if m == c {
					return true
				}
			}
			return false
		}
		for _, k := range listed {
			if c := mwCertByBlob(k.Blob); c != nil && !inMem(c) {
				vAssert(!h07MustReject(c), "C07.no-listed-certificate-outside-its-window")
			}
		}
		for _, sg := range signers {
			if c := mwCertByBlob(sg.PublicKey().Marshal()); c != nil && !inMem(c) {
				vAssert(!h07MustReject(c), "C07.no-listed-certificate-outside-its-window")
			}
		}
		if op == 2 && !inMem(signTarget) {
			vAssert(!h07MustReject(signTarget), "C07.sign-with-purged-certificate-fails")
		}
		vReach("C07.fault-yet-success")
		return
	}

	// what came back contains no certificate outside its window
	check := func(k ssh.PublicKey) {
		blob := k.Marshal()
		if c := mwCertByBlob(blob); c != nil {
			vAssert(!h07MustReject(c), "C07.no-listed-certificate-outside-its-window")
			vCover(h07MustAccept(c), "C07.listed-valid")
		}
	}
	for _, k := range listed {
		check(k)
	}
	for _, sg := range signers {
		check(sg.PublicKey())
	}
	if op == 2 {
		vAssert(!h07MustReject(signTarget), "C07.sign-with-purged-certificate-fails")
	}

	// purge: certificates outside their window are gone from both stores
	for _, c := range upCerts {
		still := up.has(mwCertMarshal(c))
		vAssert(vImplies(h07MustReject(c), !still), "C07.expired-upstream-certificate-removed")
		vAssert(vImplies(h07MustAccept(c), still), "C07.valid-upstream-certificate-kept")
		vCover(vAnd(h07MustReject(c), !still), "C07.purged-expired-upstream")
	}
	for _, c := range mem {
		if !mwPeek {
			break // the in-memory table is not observable without disturbing it
		}
		still := mwMemHas(s, c)
		vAssert(vImplies(h07MustReject(c), !still), "C07.expired-in-memory-certificate-removed")
		vCover(vAnd(h07MustReject(c), !still), "C07.purged-expired-memory")
		lacks := !listEmpty && !plainBefore[c] && !certOverBefore[c]
		if lacks {
			vAssert(!still, "C07.orphan-dropped-when-list-non-empty-and-lacks-key")
			vReach("C07.orphan-dropped")
		}
		if listEmpty {
			vAssert(vImplies(h07MustAccept(c), still), "C07.empty-list-drops-nothing")
			vCover(vAnd(h07MustAccept(c), still), "C07.empty-list-keeps")
		}
		if plainBefore[c] {
			vAssert(vImplies(h07MustAccept(c), still), "C07.valid-non-orphan-certificate-kept")
		}
		vAssert(vImplies(vAnd(c.ValidBefore == 1<<64-1, vAnd(c.ValidAfter <= uint64(mwClock), listEmpty || plainBefore[c])), still), "C07.unlimited-validity-never-expires")
	}
	if op == 2 && signTarget != nil {
		vCover(true, "C07.sign-ok")
	}
}
