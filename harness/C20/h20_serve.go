package yubiagent

//vsym:pkg github.com/theparanoids/ysshra/agent/yubiagent
//vsym:include yubiagent/ctor.go || yubiagent/ctor_bb.go
//vsym:entry H20_serve_wait
//vsym:entry H20_serve_broadcast
//vsym:entry H20_serve_pipelined
//vsym:entry H20_client_wait
//vsym:model golang.org/x/crypto/ssh/agent.NewClient m20NewClient
//vsym:model github.com/theparanoids/ysshra/agent/ssh/connection.GetConn m20GetConn
//vsym:model (*golang.org/x/crypto/ssh/agent.server).processRequestBytes m20Process
//vsym:replay none
//vsym:expect-cover C20.serve.wait-same-code C20.serve.wait-other-code C20.serve.wait-out-of-range C20.serve.broadcast C20.serve.pipelined C20.client.wait
//vsym:bound H20_serve_wait: one wait frame [35, code] with the code symbolic, served by a real *server over a real *shimagent.Server; H20_serve_broadcast: one frame of 1..2 bytes with a symbolic first byte outside 31..35; H20_serve_pipelined: two such frames back to back in one stream, delivered in one read or byte by byte; H20_client_wait: every code
//vsym:assume sync.Cond / Locker are ghost events; the served shim agent's underlying agent is a stub

import (
	"errors"
	"io"
	"net"

	"github.com/theparanoids/ysshra/agent/shimagent"
	sshagent "golang.org/x/crypto/ssh/agent"
)

type m20Up struct{ sshagent.ExtendedAgent }

func m20NewClient(rw interface{ Read([]byte) (int, error); Write([]byte) (int, error) }) sshagent.ExtendedAgent {
	return m20Up{}
}

type m20NetConn struct {
	net.Conn
	in  []byte
	pos int
	out []byte
	bytewise bool // deliver one byte per Read
}

func (n *m20NetConn) Read(p []byte) (int, error) {
	if n.pos >= len(n.in) {
		return 0, io.EOF
	}
	avail := n.in[n.pos:]
	if n.bytewise && len(p) > 0 {
		avail = avail[:1]
	}
	k := copy(p, avail)
	n.pos += k
	return k, nil
}
func (n *m20NetConn) Write(p []byte) (int, error) { n.out = append(n.out, p...); return len(p), nil }
func (n *m20NetConn) Close() error                { return nil }

// the underlying agent's connection: answers every complete request frame
// with the one-byte failure reply
type m20UpConn struct {
	net.Conn
	got     []byte
	pending []byte
}

var m20UpDead bool // the underlying agent does not answer (forwarding fails)

func (u *m20UpConn) Write(p []byte) (int, error) {
	if m20UpDead {
		return 0, errors.New("model: underlying agent gone")
	}
	u.got = append(u.got, p...)
	for len(u.got) >= 4 {
		l := int(u.got[0])<<24 | int(u.got[1])<<16 | int(u.got[2])<<8 | int(u.got[3])
		if len(u.got) < 4+l {
			break
		}
		u.got = u.got[4+l:]
		u.pending = append(u.pending, 0, 0, 0, 1, 5)
	}
	return len(p), nil
}
func (u *m20UpConn) Read(p []byte) (int, error) {
	if len(u.pending) == 0 {
		return 0, io.EOF
	}
	k := copy(p, u.pending)
	u.pending = u.pending[k:]
	return k, nil
}
func (u *m20UpConn) Close() error { return nil }

func m20GetConn(addr string) (net.Conn, error) { return &m20UpConn{}, nil }
func m20Process(_ *int, req []byte) []byte      { return []byte{5} }

func h20Server() *server {
	shim, err := shimagent.New(shimagent.Option{Address: "/model"})
	if err != nil {
		panic(errors.New("model: construction failed"))
	}
	return ygNewServer(shim, "", true)
}

const s20Broadcast = "Lock#1;CondBroadcast#2;Unlock#1;"

func H20_serve_wait() {
	srv := h20Server()
	code := vNondetU8("code")
	c := &m20NetConn{in: []byte{0, 0, 0, 2, AgentMessageWait, code}}
	vSyncReset()
	var err error
	crashed := vCatch(func() { err = ServeAgent(srv, c) })
	vAssert(!crashed, "C20.no-wait-code-crashes-the-server")
	vAssert(err == nil, "C20.serve-wait-ok")
	log := vSyncLog()
	switch {
	case code == AgentMessageWait:
		// waits on the very code that was just broadcast: same objects
		vAssert(log == s20Broadcast+"Lock#1;CondWait#2;Unlock#1;", "C20.wait-request-waits-on-its-second-byte")
		vReach("C20.serve.wait-same-code")
	case code < 40:
		vAssert(log == s20Broadcast+"Lock#3;CondWait#4;Unlock#3;", "C20.wait-request-waits-on-its-second-byte")
		vReach("C20.serve.wait-other-code")
	default:
		vAssert(log == s20Broadcast, "C20.out-of-range-wait-returns-immediately")
		vReach("C20.serve.wait-out-of-range")
	}
	vAssert(string(c.out) == "\x00\x00\x00\x07SUCCESS", "C20.wait-request-answered")
}

func H20_serve_broadcast() {
	srv := h20Server()
	first := vNondetU8("first")
	vAssume(vOr(first < AgentMessageAddHardCert, first > AgentMessageWait)) // 31..35 are decoded by x/crypto (reflection); the broadcast precedes the switch for every code
	frame := []byte{first}
	if vChoose(2, "second-byte") == 1 {
		frame = append(frame, vNondetU8("second"))
	}
	c := &m20NetConn{in: append([]byte{0, 0, 0, byte(len(frame))}, frame...)}
	// serving the request may fail afterwards (the underlying agent is gone):
	// the waiters of its code were released when it was received
	m20UpDead = vChoose(2, "underlying-agent-gone") == 1
	vSyncReset()
	crashed := vCatch(func() { ServeAgent(srv, c) })
	m20UpDead = false
	vAssert(!crashed, "C20.no-request-code-crashes-the-server")
	log := vSyncLog()
	if first < 40 {
		// the code of every received request is broadcast before its dispatch
		vAssert(len(log) >= len(s20Broadcast) && log[:len(s20Broadcast)] == s20Broadcast, "C20.every-request-broadcasts-its-code-before-dispatch")
		vReach("C20.serve.broadcast")
	} else {
		vAssert(len(log) < 13 || log[:13] != "Lock#1;CondBr", "C20.out-of-range-code-broadcasts-nothing")
	}
}

// H20_serve_pipelined: requests sent back to back on one connection are all
// received: each one broadcasts its code (a client on another connection may
// be waiting for the second one).
func H20_serve_pipelined() {
	srv := h20Server()
	a, b := vNondetU8("first"), vNondetU8("second")
	vAssume(vOr(a < AgentMessageAddHardCert, a > AgentMessageWait))
	vAssume(vOr(b < AgentMessageAddHardCert, b > AgentMessageWait))
	vAssume(vAnd(a < 40, b < 40))
	c := &m20NetConn{in: []byte{0, 0, 0, 1, a, 0, 0, 0, 1, b}}
	c.bytewise = vChoose(2, "byte-by-byte") == 1
	vSyncReset()
	crashed := vCatch(func() { ServeAgent(srv, c) })
	vAssert(!crashed, "C20.no-request-code-crashes-the-server")
	log := vSyncLog()
	n := 0
	for i := 0; i+13 <= len(log); i++ {
		if log[i:i+13] == "CondBroadcast" {
			n++
		}
	}
	vAssert(n == 2, "C20.pipelined-requests-each-broadcast-their-code")
	vAssert(len(c.out) == 10, "C20.pipelined-requests-each-answered")
	vReach("C20.serve.pipelined")
}

func H20_client_wait() {
	code := vNondetU8("code")
	conn := &m20NetConn{in: []byte("\x00\x00\x00\x07SUCCESS")}
	cl := ygNewClient(conn)
	err := cl.Wait(code)
	vAssert(err == nil, "C20.client-wait-ok")
	vAssert(len(conn.out) == 6 && conn.out[0] == 0 && conn.out[1] == 0 && conn.out[2] == 0 && conn.out[3] == 2 && conn.out[4] == AgentMessageWait && conn.out[5] == code,
		"C20.client-wait-request-is-35-code")
	vReach("C20.client.wait")
}
