package shimagent

//vsym:pkg github.com/theparanoids/ysshra/agent/shimagent
//vsym:include shim/world.go
//vsym:include shim/peek.go || shim/peek_bb.go
//vsym:entry H20_wait_broadcast
//vsym:replay adapter h20_replay_test.go
//vsym:expect-cover C20.wait-in-range C20.wait-out-of-range C20.broadcast-in-range C20.broadcast-out-of-range
//vsym:bound H20_wait_broadcast: every message code 0..255 (symbolic byte) for Wait and for Broadcast, followed by a Broadcast of every other code, on a server built by the exported constructor; observed through the lock / condition-variable events only (no knowledge of the representation)
//vsym:assume sync.Cond and its Locker are modelled as ghost events (Wait atomically unlocks and enqueues, Broadcast wakes all enqueued: sync's contract); the wake-up itself and its timing are not decided



func H20_wait_broadcast() {
	up := &mwUpstream{failAt: -1}
	s := mwNewServer(up, false)
	msg := vNondetU8("code")
	isWait := vChoose(2, "wait-or-broadcast") == 0
	vSyncReset()
	var rerr error
	crashed := vCatch(func() {
		if isWait {
			rerr = s.Wait(msg)
		} else {
			rerr = s.Broadcast(msg)
		}
	})
	vAssert(!crashed, "C20.no-crash-for-any-code")
	vAssert(rerr == nil, "C20.returns-nil")
	first := vSyncLog()
	if msg >= 40 {
		vAssert(first == "", "C20.out-of-range-code-returns-immediately")
		if isWait {
			vReach("C20.wait-out-of-range")
		} else {
			vReach("C20.broadcast-out-of-range")
		}
		return
	}
	// objects are numbered in the log by first appearance: #1 the locker, #2
	// the condition variable of this code
	if isWait {
		vAssert(first == "Lock#1;CondWait#2;Unlock#1;", "C20.wait-blocks-on-its-own-code-with-the-locker-held")
		vReach("C20.wait-in-range")
	} else {
		vAssert(first == "Lock#1;CondBroadcast#2;Unlock#1;", "C20.broadcast-wakes-all-waiters-of-its-code-with-the-locker-held")
		vReach("C20.broadcast-in-range")
	}
	// a request with another (or the same) code: its own condition variable
	// and locker, those of this code exactly when the codes are equal
	other := vNondetU8("other-code")
	crashed = vCatch(func() { rerr = s.Broadcast(other) })
	vAssert(!crashed && rerr == nil, "C20.no-crash-for-any-code")
	second := vSyncLog()[len(first):]
	switch {
	case other >= 40:
		vAssert(second == "", "C20.out-of-range-code-returns-immediately")
	case other == msg:
		vAssert(second == "Lock#1;CondBroadcast#2;Unlock#1;", "C20.same-code-same-condition-variable")
	default:
		vAssert(second == "Lock#3;CondBroadcast#4;Unlock#3;", "C20.one-condition-variable-and-locker-per-code")
	}
	// a client that starts waiting now is released by the NEXT request with
	// its code, not by one that was received before it started waiting
	before0 := len(vSyncLog())
	crashed = vCatch(func() { rerr = s.Wait(msg) })
	vAssert(!crashed && rerr == nil, "C20.no-crash-for-any-code")
	vAssert(vSyncLog()[before0:] == "Lock#1;CondWait#2;Unlock#1;", "C20.earlier-requests-do-not-release-a-later-waiter")
	// another agent in the same process: a request it receives wakes its own
	// waiters, not this agent's ("on any connection to the same agent")
	before := len(vSyncLog())
	s2 := mwNewServer(&mwUpstream{failAt: -1}, false)
	crashed = vCatch(func() { rerr = s2.Broadcast(msg) })
	vAssert(!crashed && rerr == nil, "C20.no-crash-for-any-code")
	third := vSyncLog()[before:]
	// fresh objects: numbered after every object seen so far (2 or 4)
	if other < 40 && other != msg {
		vAssert(third == "Lock#5;CondBroadcast#6;Unlock#5;", "C20.condition-variables-are-per-agent")
	} else {
		vAssert(third == "Lock#3;CondBroadcast#4;Unlock#3;", "C20.condition-variables-are-per-agent")
	}
}
