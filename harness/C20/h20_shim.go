package shimagent

//vsym:pkg github.com/theparanoids/ysshra/agent/shimagent
//vsym:include shim/world.go
//vsym:entry H20_wait_broadcast
//vsym:model golang.org/x/crypto/ssh/agent.NewClient m20NewClient
//vsym:replay adapter h20_replay_test.go
//vsym:expect-cover C20.wait-in-range C20.wait-out-of-range C20.broadcast-in-range C20.broadcast-out-of-range
//vsym:bound H20_wait_broadcast: every message code 0..255 (symbolic byte) for Wait and for Broadcast on a server built by newShimAgent
//vsym:assume sync.Cond and its Locker are modelled as ghost events (Wait atomically unlocks and enqueues, Broadcast wakes all enqueued: sync's contract); the wake-up itself and its timing are not decided

import (
	"golang.org/x/crypto/ssh/agent"
)

var m20Up *mwUpstream

func m20NewClient(rw interface{ Read([]byte) (int, error); Write([]byte) (int, error) }) agent.ExtendedAgent {
	return m20Up
}

func H20_wait_broadcast() {
	m20Up = &mwUpstream{failAt: -1}
	s, err := newShimAgent(&mwConn{}, false)
	vAssume(err == nil)
	// the 40 condition variables are distinct objects with distinct lockers
	for i := range s.conds {
		vAssert(s.conds[i] != nil && s.conds[i].L != nil, "C20.condition-variables-initialised")
		for j := 0; j < i; j++ {
			vAssert(s.conds[i] != s.conds[j], "C20.one-condition-variable-per-code")
		}
	}
	msg := vNondetU8("code")
	isWait := vChoose(2, "wait-or-broadcast") == 0
	vSyncReset()
	var rerr error
	crashed := vCatch(func() {
		if isWait {
			rerr = s.Wait(msg)
		} else {
			rerr = s.Broadcast(msg)
		}
	})
	vAssert(!crashed, "C20.no-crash-for-any-code")
	vAssert(rerr == nil, "C20.returns-nil")
	if msg >= 40 {
		vAssert(vSyncLog() == "", "C20.out-of-range-code-returns-immediately")
		if isWait {
			vReach("C20.wait-out-of-range")
		} else {
			vReach("C20.broadcast-out-of-range")
		}
		return
	}
	k := vPick(int(msg), 0, 39)
	for i := range s.conds {
		ev := vSyncEventsOf(s.conds[i])
		lk := vSyncEventsOf(s.conds[i].L)
		if i != k {
			vAssert(ev == "" && lk == "", "C20.other-codes-untouched")
			continue
		}
		vAssert(lk == "Lock;Unlock;", "C20.locker-held-around-the-condition-operation")
		if isWait {
			vAssert(ev == "CondWait;", "C20.wait-blocks-on-its-own-code")
			vReach("C20.wait-in-range")
		} else {
			vAssert(ev == "CondBroadcast;", "C20.broadcast-wakes-all-waiters-of-its-code")
			vReach("C20.broadcast-in-range")
		}
	}
}
