package PKGNAME

// Native replay for H20: real goroutines and a watchdog.  A waiter on code c
// must be released by Broadcast(c) and by nothing else; codes >= 40 return at once.

import (
	"encoding/json"
	"fmt"
	"net"
	"os"
	"strconv"
	"strings"
	"testing"
	"time"
)

func TestVsymReplay(t *testing.T) {
	var rp struct {
		Nondets []struct{ Name, Value string } `json:"nondets"`
	}
	b, _ := os.ReadFile(os.Getenv("VSYM_REPLAY"))
	json.Unmarshal(b, &rp)
	code := 0
	for _, n := range rp.Nondets {
		if n.Name == "code" {
			v, _ := strconv.ParseUint(strings.TrimPrefix(n.Value, "#x"), 16, 8)
			code = int(v)
		}
	}
	c1, c2 := net.Pipe()
	defer c1.Close()
	defer c2.Close()
	outcome := "NOT-REPRODUCED"
	func() {
		defer func() {
			if p := recover(); p != nil {
				outcome = fmt.Sprintf("REPRODUCED PANIC %v", p)
			}
		}()
		s, err := newShimAgent(c1, false)
		if err != nil {
			outcome = "NOT-REPRODUCED construction failed"
			return
		}
		done := make(chan string, 4)
		waiter := func() {
			defer func() {
				if p := recover(); p != nil {
					done <- fmt.Sprintf("PANIC %v", p)
				}
			}()
			s.Wait(byte(code))
			done <- "ok"
		}
		go waiter()
		go waiter()
		got := 0
		released := func(d time.Duration) bool {
			select {
			case r := <-done:
				if r != "ok" {
					panic(r)
				}
				got++
				return true
			case <-time.After(d):
				return false
			}
		}
		if code >= 40 {
			if !released(2*time.Second) || !released(2*time.Second) {
				outcome = "REPRODUCED out-of-range code blocks"
			}
			return
		}
		if released(300 * time.Millisecond) {
			outcome = "REPRODUCED waiter returned without a broadcast"
			return
		}
		other := byte((code + 1) % 40)
		s.Broadcast(other)
		if released(300 * time.Millisecond) {
			outcome = "REPRODUCED waiter released by another code"
			return
		}
		// a request received by another agent of the same process
		c3, c4 := net.Pipe()
		defer c3.Close()
		defer c4.Close()
		if s2, err := newShimAgent(c3, false); err == nil {
			time.Sleep(200 * time.Millisecond)
			s2.Broadcast(byte(code))
			if released(300 * time.Millisecond) {
				outcome = "REPRODUCED waiter released by a request received by another agent"
				return
			}
		}
		time.Sleep(200 * time.Millisecond) // both waiters registered
		s.Broadcast(byte(code))
		if !released(2*time.Second) || !released(2*time.Second) {
			outcome = "REPRODUCED not all waiters released by their own code"
		}
	}()
	fmt.Println("VSYM-REPLAY:", outcome)
}
