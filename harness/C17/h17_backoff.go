package backoff

//vsym:pkg github.com/theparanoids/ysshra/internal/backoff
//vsym:entry H17_backoff
//vsym:model math.Pow m17Pow
//vsym:model math.Min m17Min
//vsym:model math/rand.NewSource m17NewSource
//vsym:model math/rand.New m17RandNew
//vsym:model (*math/rand.Rand).Float64 m17Float64
//vsym:model math/rand.Float64 m17TopFloat64
//vsym:model math/rand/v2.Float64 m17TopFloat64
//vsym:replay same-harness
//vsym:expect-cover C17.backoff.attempt0 C17.backoff.capped C17.backoff.uncapped C17.backoff.pow-inf
//vsym:bound H17_backoff: attempt any uint; base and max delay any integers with 0 <= base <= max <= 2^61 ns; multiplier any finite real >= 1; jitter any real in [0,1]; the random draw any real in [0,1); math.Pow returns any finite value >= 1 or +Inf
//vsym:assume float64 arithmetic is a sound real relaxation: every operation yields a real within one relative rounding step (2^-52) of the exact result, monotone through -2,-1,0,1,2 and the int64 limits; NaN and infinities are tracked exactly as classes; integers converted to float are over-approximated by reals of the same range; max delay above 2^61 ns (73 years) is outside the claim

import (
	"math"
	"math/rand"
	"time"
)

var m17PowInf bool

func m17Pow(x, y float64) float64 {
	if m17PowInf {
		vAssume(vNot(vRLe(x, 1))) // x**y overflows only for x > 1
		return math.Inf(1)
	}
	p := vNondetF64("pow")
	vAssume(vRLe(1, p))
	return p
}

// math.Min per its documentation
func m17Min(x, y float64) float64 {
	if x != x {
		return x
	}
	if y != y {
		return y
	}
	if x < y {
		return x
	}
	return y
}

func m17NewSource(seed int64) rand.Source { return nil }
func m17RandNew(src rand.Source) *rand.Rand { return new(rand.Rand) }
// the package-level generators draw from the same distribution
func m17TopFloat64() float64 { return m17Float64(nil) }

func m17Float64(r *rand.Rand) float64 {
	f := vNondetF64("rand")
	vAssume(vAnd(vRLe(0, f), vNot(vRLe(1, f))))
	return f
}

func H17_backoff() {
	base := vNondetI64("base")
	max := vNondetI64("max")
	vLinkReal(base, 0, 1<<61)
	vLinkReal(max, 0, 1<<61)
	vAssume(base <= max)
	vAssume(vRLe(vRealOf(base), vRealOf(max)))
	mult := vNondetF64("multiplier")
	jitter := vNondetF64("jitter")
	vAssume(vRLe(1, mult))
	vAssume(vAnd(vRLe(0, jitter), vRLe(jitter, 1)))
	attempt := uint(vNondetU64("attempt"))
	m17PowInf = vChoose(2, "pow-overflows") == 1
	cfg := &Config{BaseDelay: time.Duration(base), Multiplier: mult, MaxDelay: time.Duration(max), Jitter: jitter}
	vFact("pow-overflows", m17PowInf)

	check := func(d time.Duration) {
		if attempt == 0 {
			vAssert(int64(d) == base, "C17.attempt-0-waits-the-base-delay")
			vReach("C17.backoff.attempt0")
			return
		}
		// 0 <= d <= max*(1+jitter)*(1+2^-45)+1
		r := vRealOf(int64(d))
		vAssert(vRLe(0, r), "C17.delay-not-negative")
		bound := vRAdd(vRMul(vRMul(vRealOf(max), vRAdd(1, jitter)), 1+1.0/(1<<45)), 1)
		vAssert(vRLe(r, bound), "C17.delay-within-max-enlarged-by-jitter")
	}
	if vIsNative() {
		if m17PowInf {
			attempt = 1 << 63 // large enough for the power to overflow for every multiplier > 1
			cfg.Multiplier = math.Max(cfg.Multiplier, 1+1e-9)
		}
		finished := make(chan struct{})
		var ds []time.Duration
		go func() {
			defer close(finished)
			for i := 0; i < 2000; i++ {
				ds = append(ds, cfg.Backoff(attempt))
			}
		}()
		select {
		case <-finished:
		case <-time.After(10 * time.Second):
			// a call never returned: it waits for a lock an earlier call kept
			vAssert(false, "C17.backoff-returns-holding-no-lock")
		}
		// judged here, not in the goroutine: a failed obligation ends the replay by a panic
		for _, d := range ds {
			check(d)
		}
		return
	}
	vSyncReset()
	d := cfg.Backoff(attempt)
	held := 0
	log := vSyncLog()
	for i := 0; i < len(log); i++ {
		if i+5 <= len(log) && log[i:i+5] == "Lock#" && (i == 0 || log[i-1] == ';') {
			held++
		}
		if i+7 <= len(log) && log[i:i+7] == "Unlock#" {
			held--
		}
	}
	vAssert(held == 0, "C17.backoff-returns-holding-no-lock")
	check(d)
	if attempt != 0 {
		if m17PowInf {
			vReach("C17.backoff.pow-inf")
		}
		vCover(vRLe(vRealOf(max), vRealOf(int64(d))), "C17.backoff.capped")
		vCover(vNot(vRLe(vRealOf(max), vRealOf(int64(d)))), "C17.backoff.uncapped")
	}
}
