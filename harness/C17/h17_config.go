package crypki

//vsym:pkg github.com/theparanoids/ysshra/crypki
//vsym:entry H17_configured_order
//vsym:entry H17_signer_config_is_the_callers
//vsym:include C18/h18_wiring.go
//vsym:model os.ReadFile m17cReadFile
//vsym:model encoding/json.Unmarshal m17cJSON
//vsym:model github.com/mitchellh/mapstructure.NewDecoder m17cNewDecoder
//vsym:model (*github.com/mitchellh/mapstructure.Decoder).Decode m17cDecode
//vsym:replay none
//vsym:expect-cover C17.config.order C17.config.untouched
//vsym:bound H17_configured_order: a configuration file whose signer section lists 2..3 endpoints with symbolic 1-byte host names (possibly equal, in any order); loaded with config.NewGensignConfig, turned into a Signer with NewSignerWithGensignConf, then one Sign call in which every endpoint fails
//vsym:bound H17_signer_config_is_the_callers: two signers built from one SignerConfig value with 1..2 endpoints of 1 symbolic byte
//vsym:assume os.ReadFile, encoding/json (filling the GensignConfig) and mapstructure (copying the documented signer keys into SignerConfig, lists in order) are modelled by contract; validation, TLS configuration and grpc as in C18's H18_wiring

import (
	"context"
	"errors"

	"github.com/mitchellh/mapstructure"
	pb "github.com/theparanoids/crypki/proto"
	"github.com/theparanoids/ysshra/config"
)

var w17cSigner map[string]interface{}
var m17cResult interface{}

func m17cReadFile(name string) ([]byte, error) { return []byte("{config}"), nil }

func m17cJSON(data []byte, v any) error {
	g, ok := v.(*config.GensignConfig)
	if !ok {
		panic("m17cJSON: unexpected destination")
	}
	g.SignerConfig = w17cSigner
	g.RequestTimeout = 10
	return nil
}

func m17cNewDecoder(c *mapstructure.DecoderConfig) (*mapstructure.Decoder, error) {
	m17cResult = c.Result
	return new(mapstructure.Decoder), nil
}

func m17cStrings(v interface{}) []string {
	var out []string
	switch l := v.(type) {
	case []interface{}:
		for _, e := range l {
			out = append(out, e.(string))
		}
	case []string:
		out = append(out, l...)
	}
	return out
}

// the documented keys of the signer section (README / config example)
func m17cDecode(d *mapstructure.Decoder, input interface{}) error {
	in, ok := input.(map[string]interface{})
	c, ok2 := m17cResult.(*SignerConfig)
	if !ok || !ok2 {
		return errors.New("model: unexpected decode")
	}
	if s, ok := in["tls_client_key_file"].(string); ok {
		c.TLSClientKeyFile = s
	}
	if s, ok := in["tls_client_cert_file"].(string); ok {
		c.TLSClientCertFile = s
	}
	c.TLSCACertFiles = m17cStrings(in["tls_ca_cert_files"])
	c.CrypkiEndpoints = m17cStrings(in["crypki_endpoints"])
	if p, ok := in["crypki_port"].(float64); ok {
		c.CrypkiPort = uint(p)
	}
	return nil
}

// H17_signer_config_is_the_callers: NewSigner leaves the configuration it is
// given alone, so that a second signer built from it has the same endpoints.
func H17_signer_config_is_the_callers() {
	n := 1 + vChoose(2, "endpoints")
	var hosts []string
	for i := 0; i < n; i++ {
		h := vNondetString("host", 1)
		vAssume(vAnd(h[0] > 0x20, h[0] < 0x7f))
		hosts = append(hosts, h)
	}
	conf := SignerConfig{TLSClientKeyFile: "key.pem", TLSClientCertFile: "cert.pem", TLSCACertFiles: []string{"ca.pem"},
		CrypkiEndpoints: append([]string(nil), hosts...), CrypkiPort: 4443}
	vFreeze("C17.configuration-not-rewritten-by-the-signer", conf.CrypkiEndpoints, conf.TLSCACertFiles)
	s1, err1 := NewSigner(conf)
	s2, err2 := NewSigner(conf)
	vCheckFrozen()
	vThaw()
	vAssert(err1 == nil && err2 == nil && s1 != nil && s2 != nil, "C17.signer-built-from-the-configuration")
	if err1 != nil || err2 != nil || s1 == nil || s2 == nil {
		return
	}
	for _, s := range []*Signer{s1, s2} {
		e := s.Endpoints()
		vAssert(len(e) == n, "C17.every-configured-endpoint-kept")
		for i := 0; i < n && i < len(e); i++ {
			vAssert(vEqString(e[i], hosts[i]+":4443"), "C17.endpoints-in-configured-order")
		}
	}
	vReach("C17.config.untouched")
}

func H17_configured_order() {
	n := 2 + vChoose(2, "endpoints")
	var hosts []string
	var list []interface{}
	for i := 0; i < n; i++ {
		h := vNondetString("host", 1)
		vAssume(vAnd(h[0] > 0x20, h[0] < 0x7f))
		hosts = append(hosts, h)
		list = append(list, h)
	}
	w17cSigner = map[string]interface{}{
		"tls_client_key_file": "key.pem", "tls_client_cert_file": "cert.pem",
		"tls_ca_cert_files": []interface{}{"ca1.pem", "ca2.pem"},
		"crypki_endpoints":  list, "crypki_port": float64(4443),
	}
	gc, err := config.NewGensignConfig("/etc/ysshra/config.json")
	vAssert(err == nil && gc != nil, "C17.configuration-loads")
	if err != nil || gc == nil {
		return
	}
	s, err := NewSignerWithGensignConf(*gc)
	vAssert(err == nil && s != nil, "C17.signer-built-from-the-configuration")
	if err != nil || s == nil {
		return
	}
	vAssert(len(s.Endpoints()) == n, "C17.every-configured-endpoint-kept")
	for i := 0; i < n && i < len(s.Endpoints()); i++ {
		vAssert(vEqString(s.Endpoints()[i], hosts[i]+":4443"), "C17.endpoints-in-configured-order")
	}
	_, _, serr := s.Sign(context.Background(), &pb.SSHCertificateSigningRequest{})
	vAssert(serr != nil, "C17.exhaustion-is-an-error")
	vAssert(len(m18Dials) == n, "C17.every-configured-endpoint-contacted-once")
	for i := 0; i < n && i < len(m18Dials); i++ {
		vAssert(vEqString(m18Dials[i], hosts[i]+":4443"), "C17.contacts-in-configured-order")
	}
	vReach("C17.config.order")
}
