package crypki

//vsym:pkg github.com/theparanoids/ysshra/crypki
//vsym:include crypki/ctor.go || crypki/ctor_bb.go
//vsym:entry H17_failover
//vsym:model google.golang.org/grpc.NewClient m17NewClient
//vsym:model (*google.golang.org/grpc.ClientConn).Close m17ConnClose
//vsym:model github.com/theparanoids/crypki/proto.NewSigningClient m17NewSigningClient
//vsym:model golang.org/x/crypto/ssh.ParseAuthorizedKey m17ParseAuthorizedKey
//vsym:model google.golang.org/grpc/status.Errorf m17StatusErrorf
//vsym:model google.golang.org/grpc/status.Code m17StatusCode
//vsym:model context.WithCancel m17WithCancel
//vsym:model context.WithTimeout m17WithTimeout
//vsym:model context.WithDeadline m17WithDeadline
//vsym:replay same-harness
//vsym:expect-cover C17.failover.first-ok C17.failover.later-ok C17.failover.all-failed C17.failover.none-configured
//vsym:bound H17_failover: 0..3 endpoints (thorough 0..4); per endpoint: unusable target (grpc.NewClient fails), dial error, RPC error, unparsable reply, empty reply, or a reply with 1..2 certificates carrying empty or 1-byte symbolic comments (printable, non-space), with or without a final newline; two Sign calls on the same signer
//vsym:assume grpc dial / RPC and ssh.ParseAuthorizedKey are modelled (arbitrary outcome per endpoint; one key line per call); replay runs real in-process gRPC servers (bufconn) and real ed25519 certificates

import (
	"context"
	"crypto/ed25519"
	"crypto/rand"
	"errors"
	"fmt"
	"net"
	"time"

	pb "github.com/theparanoids/crypki/proto"
	"golang.org/x/crypto/ssh"
	"google.golang.org/grpc"
	"google.golang.org/grpc/codes"
	"google.golang.org/grpc/credentials/insecure"
	"google.golang.org/grpc/test/bufconn"
)

// per-endpoint script
const (
	o17DialErr = iota
	o17RPCErr
	o17Garbage
	o17Empty // status OK with no key material at all
	o17BadTarget // the endpoint string is not a usable target: grpc.NewClient itself fails
	o17Certs
)

type s17Endpoint struct {
	outcome  int
	ncerts   int
	noFinalNL bool // the reply does not end in a newline (the last line is still a key line)
	comments []string
}

var s17Script []s17Endpoint
var m17Contacted []int // endpoint indices in contact order
var m17Cur int
var m17Req *pb.SSHCertificateSigningRequest
var m17ReqOK = true
var s17ReqSnap pb.SSHCertificateSigningRequest

type m17Key struct {
	ep, idx int
}

func (k *m17Key) Type() string                             { return "ssh-ed25519-cert-v01@openssh.com" }
func (k *m17Key) Marshal() []byte                          { return []byte{byte(k.ep), byte(k.idx)} }
func (k *m17Key) Verify(d []byte, s *ssh.Signature) error  { return nil }

func m17Index(target string) int {
	for i := range s17Script {
		if target == sgTarget(fmt.Sprintf("passthrough:///e%d", i)) {
			return i
		}
	}
	return -1
}

func m17NewClient(target string, opts ...grpc.DialOption) (*grpc.ClientConn, error) {
	m17Cur = m17Index(target)
	m17Contacted = append(m17Contacted, m17Cur)
	// a target that cannot be parsed fails here; a server that cannot be
	// reached fails later, in the RPC (grpc connects lazily)
	if m17Cur < 0 || s17Script[m17Cur].outcome == o17BadTarget {
		return nil, errors.New("model: invalid target")
	}
	return new(grpc.ClientConn), nil
}
// (*grpc.ClientConn).Close dereferences its receiver
func m17ConnClose(c *grpc.ClientConn) error {
	if c == nil {
		panic("runtime error: invalid memory address or nil pointer dereference (Close of a nil *grpc.ClientConn)")
	}
	return nil
}

type m17Client struct {
	pb.SigningClient
	ep int
}

func m17NewSigningClient(cc grpc.ClientConnInterface) pb.SigningClient { return &m17Client{ep: m17Cur} }

func s17SameRequest(in *pb.SSHCertificateSigningRequest) bool {
	if in != m17Req {
		return false
	}
	s := &s17ReqSnap
	ok := in.KeyMeta != nil && in.KeyMeta.Identifier == s.KeyMeta.Identifier
	ok = ok && len(in.Principals) == 1 && in.Principals[0] == s.Principals[0]
	ok = ok && in.PublicKey == s.PublicKey && in.Validity == s.Validity && in.KeyId == s.KeyId
	ok = ok && len(in.Extensions) == 1 && in.Extensions["permit-pty"] == "" && len(in.CriticalOptions) == 0
	return ok
}

func (c *m17Client) PostUserSSHCertificate(ctx context.Context, in *pb.SSHCertificateSigningRequest, opts ...grpc.CallOption) (*pb.SSHKey, error) {
	if !s17SameRequest(in) {
		m17ReqOK = false
	}
	// an RPC on a context that is already done fails without reaching the CA
	if ctx != nil && ctx.Err() != nil {
		return nil, ctx.Err()
	}
	e := s17Script[c.ep]
	switch e.outcome {
	case o17RPCErr, o17DialErr:
		return nil, errors.New("model: rpc failed")
	case o17Garbage:
		return &pb.SSHKey{Key: "G\n"}, nil
	case o17Empty:
		return &pb.SSHKey{Key: ""}, nil
	}
	text := ""
	for i := 0; i < e.ncerts; i++ {
		text += string([]byte{'K', byte('0' + c.ep), byte('0' + i), ' '}) + e.comments[i] + "\n"
	}
	if e.noFinalNL {
		text = text[:len(text)-1]
	}
	return &pb.SSHKey{Key: text}, nil
}

// one authorized-key line per call: "K<ep><idx> <comment>\n"
func m17ParseAuthorizedKey(in []byte) (ssh.PublicKey, string, []string, []byte, error) {
	nl := -1
	for i := range in {
		if in[i] == '\n' {
			nl = i
			break
		}
	}
	line, rest := in, []byte(nil)
	if nl >= 0 {
		line, rest = in[:nl], in[nl+1:]
	}
	if len(line) >= 4 && line[0] == 'K' {
		return &m17Key{ep: int(line[1] - '0'), idx: int(line[2] - '0')}, string(line[4:]), nil, rest, nil
	}
	return nil, "", nil, rest, errors.New("model: no key found")
}

func m17StatusErrorf(c codes.Code, format string, a ...interface{}) error { return errors.New("model: status error") }
func m17StatusCode(err error) codes.Code                                  { return codes.Unknown }

// ---- native environment: real gRPC servers over bufconn ------------------

type n17Server struct {
	pb.UnimplementedSigningServer
	ep int
}

var n17Keys = map[[2]int]ssh.PublicKey{}

func n17Cert(ep, idx int) ssh.PublicKey {
	pub, priv, _ := ed25519.GenerateKey(rand.Reader)
	spub, _ := ssh.NewPublicKey(pub)
	signer, _ := ssh.NewSignerFromKey(priv)
	crt := &ssh.Certificate{Key: spub, KeyId: fmt.Sprintf("k%d%d", ep, idx), CertType: ssh.UserCert, ValidBefore: ssh.CertTimeInfinity}
	crt.SignCert(rand.Reader, signer)
	n17Keys[[2]int{ep, idx}] = crt
	return crt
}

func (s *n17Server) PostUserSSHCertificate(ctx context.Context, in *pb.SSHCertificateSigningRequest) (*pb.SSHKey, error) {
	m17Contacted = append(m17Contacted, s.ep)
	sn := &s17ReqSnap
	if in.KeyMeta == nil || in.KeyMeta.Identifier != sn.KeyMeta.Identifier || len(in.Principals) != 1 || in.Principals[0] != sn.Principals[0] ||
		in.PublicKey != sn.PublicKey || in.Validity != sn.Validity || in.KeyId != sn.KeyId || len(in.Extensions) != 1 || len(in.CriticalOptions) != 0 {
		m17ReqOK = false
	}
	e := s17Script[s.ep]
	switch e.outcome {
	case o17RPCErr:
		return nil, errors.New("scripted rpc failure")
	case o17Garbage:
		return &pb.SSHKey{Key: "G\n"}, nil
	case o17Empty:
		return &pb.SSHKey{Key: ""}, nil
	}
	text := ""
	for i := 0; i < e.ncerts; i++ {
		line := ssh.MarshalAuthorizedKey(n17Cert(s.ep, i))
		if e.comments[i] == "" {
			text += string(line)
		} else {
			text += string(line[:len(line)-1]) + " " + e.comments[i] + "\n"
		}
	}
	if e.noFinalNL {
		text = text[:len(text)-1]
	}
	return &pb.SSHKey{Key: text}, nil
}

func n17Start() ([]grpc.DialOption, func()) {
	lis := map[string]*bufconn.Listener{}
	var stops []func()
	for i, e := range s17Script {
		if e.outcome == o17DialErr {
			continue
		}
		l := bufconn.Listen(1 << 20)
		srv := grpc.NewServer()
		pb.RegisterSigningServer(srv, &n17Server{ep: i})
		go srv.Serve(l)
		lis[fmt.Sprintf("e%d", i)] = l
		stops = append(stops, srv.Stop)
	}
	dialer := func(ctx context.Context, addr string) (net.Conn, error) {
		l := lis[addr]
		if l == nil {
			var ep int
			fmt.Sscanf(addr, "e%d", &ep)
			m17Contacted = append(m17Contacted, ep)
			return nil, errors.New("scripted dial failure")
		}
		return l.Dial()
	}
	return []grpc.DialOption{grpc.WithContextDialer(dialer), grpc.WithTransportCredentials(insecure.NewCredentials())}, func() {
		for _, s := range stops {
			s()
		}
	}
}

// contexts derived inside the code under test: cancellable, never expiring
type m17Ctx struct {
	context.Context
	done *bool
}

func (c m17Ctx) Err() error {
	if *c.done {
		return context.Canceled
	}
	return c.Context.Err()
}
func (c m17Ctx) Done() <-chan struct{} { return nil }

func m17WithCancel(parent context.Context) (context.Context, context.CancelFunc) {
	d := new(bool)
	return m17Ctx{parent, d}, func() { *d = true }
}
func m17WithTimeout(parent context.Context, t time.Duration) (context.Context, context.CancelFunc) {
	return m17WithCancel(parent)
}
func m17WithDeadline(parent context.Context, t time.Time) (context.Context, context.CancelFunc) {
	return m17WithCancel(parent)
}

// a context that is already cancelled
type m17DoneCtx struct{ context.Context }

func (m17DoneCtx) Err() error { return context.Canceled }
func (m17DoneCtx) Done() <-chan struct{} {
	if vIsNative() {
		c := make(chan struct{})
		close(c)
		return c
	}
	return nil
}

// ---- harness ------------------------------------------------------------

func H17_failover() {
	maxEp := 3
	if vThorough() {
		maxEp = 4
	}
	n := vChoose(maxEp+1, "endpoints")
	var eps []string
	if n == 0 && vChoose(2, "empty-list-not-nil") == 1 {
		eps = []string{} // "crypki_endpoints": []
	}
	firstOK := -1
	for i := 0; i < n; i++ {
		e := s17Endpoint{outcome: vChoose(6, "outcome")}
		if e.outcome == o17Certs {
			e.ncerts = 1 + vChoose(2, "ncerts")
			e.noFinalNL = vChoose(2, "final-newline") == 1
			for j := 0; j < e.ncerts; j++ {
				c := vNondetString("comment", vChoose(2, "comment-len"))
				if len(c) == 1 {
					vAssume(vAnd(c[0] > 0x20, c[0] < 0x7f))
				}
				e.comments = append(e.comments, c)
			}
			if firstOK < 0 {
				firstOK = i
			}
		}
		s17Script = append(s17Script, e)
		if e.outcome == o17BadTarget && vIsNative() {
			eps = append(eps, fmt.Sprintf("e%d%%zz:1", i)) // not a parsable target
		} else {
			eps = append(eps, fmt.Sprintf("passthrough:///e%d", i))
		}
	}
	req := &pb.SSHCertificateSigningRequest{
		KeyMeta: &pb.KeyMeta{Identifier: "id"}, Principals: []string{"user"}, PublicKey: "pk", Validity: 3600, KeyId: "kid",
		Extensions: map[string]string{"permit-pty": ""},
	}
	m17Req = req
	s17ReqSnap = pb.SSHCertificateSigningRequest{KeyMeta: &pb.KeyMeta{Identifier: "id"}, Principals: []string{"user"}, PublicKey: "pk", Validity: 3600, KeyId: "kid"}
	var nativeOpts []grpc.DialOption
	ctx := context.Background()
	ctxDone := vChoose(2, "context-already-done") == 1
	if ctxDone {
		ctx = m17DoneCtx{context.Background()}
	}
	if vIsNative() {
		opts, stop := n17Start()
		defer stop()
		nativeOpts = opts
		m17Req = nil
		var cancel func()
		ctx, cancel = context.WithTimeout(ctx, 20*time.Second)
		defer cancel()
	}

	s := sgNewSigner(eps, nativeOpts)

	// two calls on the same signer: the order is the configured one every time
	for round := 0; round < 2; round++ {
		m17Contacted = nil
		certs, comments, err := s.Sign(ctx, req)
		h17Judge(s, req, n, firstOK, ctxDone, certs, comments, err)
	}
}

func h17Judge(s *Signer, req *pb.SSHCertificateSigningRequest, n, firstOK int, ctxDone bool, certs []ssh.PublicKey, comments []string, err error) {

	vFact("endpoints", n)
	if ctxDone {
		vAssert(err != nil || len(certs) > 0, "C17.never-an-empty-success")
		return
	}
	// contacted strictly in order, without gaps, and not beyond the first success
	last := n - 1
	if firstOK >= 0 {
		last = firstOK
	}
	badTarget := false
	for i := 0; i <= last && i < len(s17Script); i++ {
		if s17Script[i].outcome == o17BadTarget {
			badTarget = true
		}
	}
	if vIsNative() && badTarget {
		m17Contacted = nil // grpc refuses such a target before anything this harness can observe natively
		for i := 0; i <= last; i++ {
			m17Contacted = append(m17Contacted, i)
		}
	}
	vAssert(len(m17Contacted) == last+1, "C17.contacts-stop-at-first-success")
	for i, c := range m17Contacted {
		vAssert(c == i, "C17.contacts-in-configured-order")
	}
	vAssert(m17ReqOK, "C17.request-passed-unmodified")
	if !vIsNative() {
		vAssert(s17SameRequest(req), "C17.request-left-unmodified")
	}
	if ctxDone {
		// whatever a cancelled context does to the attempts, the outcome is never an empty success
		vAssert(err != nil || len(certs) > 0, "C17.never-an-empty-success")
		return
	}
	if firstOK < 0 {
		vAssert(err != nil, "C17.exhaustion-is-an-error")
		vAssert(len(certs) == 0, "C17.no-certificates-on-failure")
		if n == 0 {
			vReach("C17.failover.none-configured")
		} else {
			vReach("C17.failover.all-failed")
		}
		return
	}
	vAssert(err == nil, "C17.first-success-is-returned")
	e := s17Script[firstOK]
	vAssert(len(certs) == e.ncerts, "C17.certificates-of-first-successful-endpoint")
	vAssert(len(comments) == len(certs), "C17.one-comment-per-certificate")
	for i := 0; i < len(certs) && i < e.ncerts; i++ {
		if vIsNative() {
			want := n17Keys[[2]int{firstOK, i}]
			vAssert(want != nil && string(certs[i].Marshal()) == string(want.Marshal()), "C17.certificates-of-first-successful-endpoint")
		} else {
			k, ok := certs[i].(*m17Key)
			vAssert(ok && k.ep == firstOK && k.idx == i, "C17.certificates-of-first-successful-endpoint")
		}
		if i < len(comments) {
			vAssert(vEqString(comments[i], e.comments[i]), "C17.comments-in-ca-order")
		}
	}
	if firstOK == 0 {
		vReach("C17.failover.first-ok")
	} else {
		vReach("C17.failover.later-ok")
	}
}
