package backoff

//vsym:pkg github.com/theparanoids/ysshra/internal/backoff
//vsym:entry H18_retry_delay_returns
//vsym:include C17/h17_backoff.go
//vsym:replay same-harness
//vsym:expect-cover C17.backoff.capped C17.backoff.uncapped
//vsym:bound H18_retry_delay_returns: an endpoint whose certificate is refused is "treated as failed so that a later genuine endpoint can still be used" only if the retry delay computed for it comes back: every Backoff call returns, holding no lock, a delay within the bound - bounds of C17's H17_backoff
//vsym:assume as C17's H17_backoff

// The retry interceptor of the signer calls Backoff between attempts; shared with C17.
func H18_retry_delay_returns() { H17_backoff() }
