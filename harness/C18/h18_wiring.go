package crypki

//vsym:pkg github.com/theparanoids/ysshra/crypki
//vsym:entry H18_wiring
//vsym:model (*github.com/go-playground/validator/v10.Validate).Struct m18Validate
//vsym:model github.com/theparanoids/ysshra/tlsutils.TLSClientConfiguration m18TLSConf
//vsym:model google.golang.org/grpc/credentials.NewTLS m18NewTLS
//vsym:model google.golang.org/grpc/credentials/insecure.NewCredentials m18Insecure
//vsym:model google.golang.org/grpc.WithTransportCredentials m18WithTC
//vsym:model google.golang.org/grpc.WithUnaryInterceptor m18WithUI
//vsym:model google.golang.org/grpc.WithStatsHandler m18WithSH
//vsym:model google.golang.org/grpc.NewClient m18NewClient
//vsym:model (*google.golang.org/grpc.ClientConn).Close m18ConnClose
//vsym:model github.com/theparanoids/crypki/proto.NewSigningClient m18NewSigningClient
//vsym:model google.golang.org/grpc/status.Errorf m18StatusErrorf
//vsym:model google.golang.org/grpc/status.Code m18StatusCode
//vsym:model github.com/grpc-ecosystem/go-grpc-middleware/retry.WithPerRetryTimeout m18PerTry
//vsym:replay none
//vsym:expect-cover C18.wiring-ok C18.wiring-tls-error C18.wiring-validation-error C18.dial-uses-tls-options
//vsym:bound H18_wiring: 1..2 endpoints with symbolic 1-byte host names, fixed port; config validation and TLS configuration succeed or fail; one Sign call whose RPC fails
//vsym:assume TLSClientConfiguration is summarised by its H18_config guarantee (a configuration object built from exactly the paths it is given, or an error); grpc option constructors are tagging models; the handshake itself is crypto/tls and grpc

import (
	"context"
	"crypto/tls"
	"errors"
	"time"

	grpc_retry "github.com/grpc-ecosystem/go-grpc-middleware/retry"
	pb "github.com/theparanoids/crypki/proto"
	"google.golang.org/grpc"
	"google.golang.org/grpc/codes"
	"google.golang.org/grpc/credentials"
	"google.golang.org/grpc/stats"
)

var m18ValidateFails, m18TLSFails bool
var m18Cfg *tls.Config
var m18TLSArgs [][]string
var m18CredsFrom []*tls.Config
var m18InsecureUsed bool
var m18Dials []string
var m18DialOpts [][]grpc.DialOption

func m18Validate(_ *int, s interface{}) error {
	if m18ValidateFails {
		return errors.New("model: validation failed")
	}
	return nil
}

func m18TLSConf(certPath, keyPath string, caPaths []string) (*tls.Config, error) {
	m18TLSArgs = append(m18TLSArgs, append([]string{certPath, keyPath}, caPaths...))
	if m18TLSFails {
		return nil, errors.New("model: bad TLS material")
	}
	m18Cfg = &tls.Config{MinVersion: tls.VersionTLS12}
	return m18Cfg, nil
}

type m18Creds struct {
	credentials.TransportCredentials
	cfg *tls.Config
}

var m18LastCreds *m18Creds

func m18NewTLS(c *tls.Config) credentials.TransportCredentials {
	m18CredsFrom = append(m18CredsFrom, c)
	m18LastCreds = &m18Creds{cfg: c}
	return m18LastCreds
}
func m18Insecure() credentials.TransportCredentials {
	m18InsecureUsed = true
	return &m18Creds{}
}

var m18TCArg credentials.TransportCredentials

func m18WithTC(c credentials.TransportCredentials) grpc.DialOption {
	m18TCArg = c
	var d grpc.DialOption
	vSetOpaque(&d, "transport-credentials")
	return d
}
var m18Timeouts []time.Duration

// retry.WithPerRetryTimeout: records the deadline the retry interceptor is
// told to put on every attempt (the interceptor itself is the library's)
func m18PerTry(t time.Duration) grpc_retry.CallOption {
	m18Timeouts = append(m18Timeouts, t)
	return grpc_retry.CallOption{}
}

func m18WithUI(f grpc.UnaryClientInterceptor) grpc.DialOption {
	var d grpc.DialOption
	vSetOpaque(&d, "unary-interceptor")
	return d
}
func m18WithSH(h stats.Handler) grpc.DialOption {
	var d grpc.DialOption
	vSetOpaque(&d, "stats-handler")
	return d
}
func m18NewClient(target string, opts ...grpc.DialOption) (*grpc.ClientConn, error) {
	m18Dials = append(m18Dials, target)
	m18DialOpts = append(m18DialOpts, opts)
	return new(grpc.ClientConn), nil
}
func m18ConnClose(c *grpc.ClientConn) error { return nil }

type m18Client struct{ pb.SigningClient }

func (m18Client) PostUserSSHCertificate(ctx context.Context, in *pb.SSHCertificateSigningRequest, opts ...grpc.CallOption) (*pb.SSHKey, error) {
	return nil, errors.New("model: rpc failed")
}
func m18NewSigningClient(cc grpc.ClientConnInterface) pb.SigningClient          { return m18Client{} }
func m18StatusErrorf(c codes.Code, format string, a ...interface{}) error      { return errors.New("model: status") }
func m18StatusCode(err error) codes.Code                                       { return codes.Unknown }

func H18_wiring() {
	m18ValidateFails = vChoose(2, "validation-fails") == 1
	m18TLSFails = vChoose(2, "tls-config-fails") == 1
	ne := 1 + vChoose(2, "endpoints")
	var hosts []string
	for i := 0; i < ne; i++ {
		h := vNondetString("host", 1)
		vAssume(vAnd(h[0] > 0x20, h[0] < 0x7f))
		hosts = append(hosts, h)
	}
	conf := SignerConfig{TLSClientKeyFile: "key.pem", TLSClientCertFile: "cert.pem", TLSCACertFiles: []string{"ca1.pem", "ca2.pem"},
		CrypkiEndpoints: hosts, CrypkiPort: 4443}
	// the per-try deadline: unset (the documented default of five seconds) or an arbitrary positive duration
	perTry := 5 * time.Second
	if vChoose(2, "per-try-timeout-configured") == 1 {
		perTry = time.Duration(vNondetI64("per-try-timeout"))
		vAssume(perTry > 0)
		conf.PerTryTimeout = perTry
	}
	m18Timeouts = nil
	s, err := NewSigner(conf)
	if m18ValidateFails {
		vAssert(err != nil && s == nil, "C18.invalid-configuration-is-refused")
		vReach("C18.wiring-validation-error")
		return
	}
	if m18TLSFails {
		vAssert(err != nil && s == nil, "C18.tls-material-failure-is-an-error")
		vReach("C18.wiring-tls-error")
		return
	}
	vAssert(err == nil && s != nil, "C18.signer-built")
	if err != nil || s == nil {
		return
	}
	// the TLS configuration is built from exactly the configured files
	vAssert(len(m18TLSArgs) == 1, "C18.one-tls-configuration")
	if len(m18TLSArgs) == 1 {
		a := m18TLSArgs[0]
		vAssert(len(a) == 4 && a[0] == "cert.pem" && a[1] == "key.pem" && a[2] == "ca1.pem" && a[3] == "ca2.pem", "C18.tls-configuration-from-the-configured-files")
	}
	// exactly one transport credential among the dial options: TLS over that configuration
	n := 0
	for _, o := range s.DialOptions() {
		if vOpaqueTag(o) == "transport-credentials" {
			n++
		}
	}
	vAssert(n == 1, "C18.exactly-one-transport-credential")
	vAssert(!m18InsecureUsed, "C18.no-insecure-credentials")
	// the configuration is used as built: in particular the server name stays
	// unset, so that grpc checks each certificate against the endpoint it dialled
	vAssert(m18Cfg.ServerName == "" && !m18Cfg.InsecureSkipVerify && m18Cfg.MinVersion == tls.VersionTLS12 && m18Cfg.RootCAs == nil &&
		m18Cfg.VerifyPeerCertificate == nil && m18Cfg.VerifyConnection == nil, "C18.tls-configuration-used-unmodified")
	vAssert(len(m18CredsFrom) == 1 && m18CredsFrom[0] == m18Cfg, "C18.credentials-wrap-the-tls-configuration")
	c, ok := m18TCArg.(*m18Creds)
	vAssert(ok && c == m18LastCreds && c.cfg == m18Cfg, "C18.transport-credentials-are-the-tls-credentials")
	// endpoints are host:port of the configured hosts, in order
	vAssert(len(s.Endpoints()) == ne, "C18.endpoints")
	for i := 0; i < ne && i < len(s.Endpoints()); i++ {
		vAssert(vEqString(s.Endpoints()[i], hosts[i]+":4443"), "C18.endpoint-is-host-colon-port")
	}
	// an endpoint that stalls is given up after the configured per-try
	// deadline, so that the next endpoint is still reached: the retry
	// interceptor is told exactly that deadline
	okPerTry := len(m18Timeouts) >= 1
	for _, t := range m18Timeouts {
		okPerTry = okPerTry && t == perTry
	}
	vAssert(okPerTry, "C18.per-try-deadline-is-the-configured-one")
	vReach("C18.wiring-ok")

	// every dial of a signing call gets exactly these options and the endpoint
	_, _, serr := s.Sign(context.Background(), &pb.SSHCertificateSigningRequest{})
	vAssert(serr != nil, "C18.failed-endpoints-are-an-error")
	vAssert(len(m18Dials) == ne, "C18.every-endpoint-dialled")
	for i := 0; i < len(m18Dials) && i < ne; i++ {
		vAssert(vEqString(m18Dials[i], hosts[i]+":4443"), "C18.dial-target-is-the-endpoint")
		opts := m18DialOpts[i]
		same := len(opts) == len(s.DialOptions())
		tc := 0
		for j := 0; same && j < len(opts); j++ {
			if vOpaqueTag(opts[j]) != vOpaqueTag(s.DialOptions()[j]) {
				same = false
			}
			if vOpaqueTag(opts[j]) == "transport-credentials" {
				tc++
			}
		}
		vAssert(same && tc == 1, "C18.dial-uses-exactly-the-signers-tls-options")
	}
	vReach("C18.dial-uses-tls-options")
}
