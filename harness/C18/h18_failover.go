package crypki

//vsym:pkg github.com/theparanoids/ysshra/crypki
//vsym:entry H18_later_genuine_endpoint_still_used
//vsym:include crypki/ctor.go || crypki/ctor_bb.go
//vsym:include C17/h17_failover.go
//vsym:model google.golang.org/grpc.NewClient m17NewClient
//vsym:model (*google.golang.org/grpc.ClientConn).Close m17ConnClose
//vsym:model github.com/theparanoids/crypki/proto.NewSigningClient m17NewSigningClient
//vsym:model golang.org/x/crypto/ssh.ParseAuthorizedKey m17ParseAuthorizedKey
//vsym:model google.golang.org/grpc/status.Errorf m17StatusErrorf
//vsym:model google.golang.org/grpc/status.Code m17StatusCode
//vsym:replay same-harness
//vsym:expect-cover C17.failover.all-failed C17.failover.later-ok
//vsym:bound H18_later_genuine_endpoint_still_used: an endpoint that is refused (bad certificate, wrong name, old protocol: for the signer simply a failed endpoint) does not prevent a later genuine endpoint from being used: failover order and first-success semantics of Sign - bounds of C17's H17_failover
//vsym:assume grpc and ssh.ParseAuthorizedKey modelled as in C17

// What follows a refused endpoint; shared with C17.
func H18_later_genuine_endpoint_still_used() { H17_failover() }
