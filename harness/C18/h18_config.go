package tlsutils

//vsym:pkg github.com/theparanoids/ysshra/tlsutils
//vsym:entry H18_config
//vsym:model os.ReadFile m18ReadFile
//vsym:model crypto/x509.NewCertPool m18NewCertPool
//vsym:model (*crypto/x509.CertPool).AppendCertsFromPEM m18AppendCerts
//vsym:model github.com/theparanoids/crypki/certreload.NewCertReloader m18NewCertReloader
//vsym:model crypto/x509.SystemCertPool m18SystemCertPool
//vsym:replay same-harness
//vsym:expect-cover C18.config-ok C18.ca-unreadable C18.ca-unparsable C18.reloader-fails C18.no-ca-files C18.second-config
//vsym:bound H18_config: 0..3 CA files with symbolic 1-byte names, each readable or not and parsable or not; client certificate / key paths symbolic 1-byte names; the certificate reloader fails or not; after a successful call a second call with the same client key pair and one more CA file
//vsym:assume file reads, the certificate pool and the client-certificate reloader are logging models; what the resulting tls.Config means during a handshake is crypto/tls's documented contract (RootCAs set => the server chain must verify against exactly that pool and the name must match unless InsecureSkipVerify / VerifyPeerCertificate / VerifyConnection override it; MinVersion bounds the protocol version; GetClientCertificate supplies the client certificate)

import (
	"crypto/ecdsa"
	"crypto/elliptic"
	"crypto/rand"
	"crypto/tls"
	"crypto/x509"
	"crypto/x509/pkix"
	"encoding/pem"
	"errors"
	"math/big"
	"os"
	"path/filepath"
	"time"

	"github.com/theparanoids/crypki/certreload"
)

type s18File struct {
	name       string
	unreadable bool
	unparsable bool
}

var w18CAs []s18File
var w18Cert, w18Key string
var m18Reads []string
var m18Pools []*x509.CertPool
var m18Appended []string // file names (by content) appended, in order
var m18AppendPool []*x509.CertPool
var m18Reloader *certreload.MemCertReloader
var m18Getter func() ([]byte, []byte, error)
var m18ReloaderFails bool

func m18ReadFile(name string) ([]byte, error) {
	m18Reads = append(m18Reads, name)
	for _, f := range w18CAs {
		if vEqString(name, f.name) {
			if f.unreadable {
				return nil, errors.New("model: unreadable")
			}
			return []byte("CA:" + f.name), nil
		}
	}
	if vEqString(name, w18Cert) {
		return []byte("CERT"), nil
	}
	if vEqString(name, w18Key) {
		return []byte("KEY"), nil
	}
	return nil, errors.New("model: no such file")
}

func m18NewCertPool() *x509.CertPool {
	p := new(x509.CertPool)
	m18Pools = append(m18Pools, p)
	return p
}

var m18SystemPool *x509.CertPool

func m18SystemCertPool() (*x509.CertPool, error) {
	m18SystemPool = new(x509.CertPool) // stands for the host's trust store
	return m18SystemPool, nil
}

func m18AppendCerts(p *x509.CertPool, pemCerts []byte) bool {
	m18AppendPool = append(m18AppendPool, p)
	m18Appended = append(m18Appended, string(pemCerts))
	for _, f := range w18CAs {
		if vEqString(string(pemCerts), "CA:"+f.name) {
			return !f.unparsable
		}
	}
	return false
}

func m18NewCertReloader(c certreload.CertReloadConfig) (*certreload.MemCertReloader, error) {
	m18Getter = c.CertKeyGetter
	if m18ReloaderFails {
		return nil, errors.New("model: cannot load client certificate")
	}
	m18Reloader = new(certreload.MemCertReloader)
	return m18Reloader, nil
}

// ---- native files ------------------------------------------------------------

func n18PEM(cn string, isCA bool) ([]byte, []byte) {
	priv, _ := ecdsa.GenerateKey(elliptic.P256(), rand.Reader)
	tpl := &x509.Certificate{SerialNumber: big.NewInt(1), Subject: pkix.Name{CommonName: cn}, NotBefore: time.Now().Add(-time.Hour),
		NotAfter: time.Now().Add(24 * time.Hour), IsCA: isCA, BasicConstraintsValid: true, KeyUsage: x509.KeyUsageCertSign | x509.KeyUsageDigitalSignature}
	der, _ := x509.CreateCertificate(rand.Reader, tpl, tpl, &priv.PublicKey, priv)
	kb, _ := x509.MarshalECPrivateKey(priv)
	return pem.EncodeToMemory(&pem.Block{Type: "CERTIFICATE", Bytes: der}), pem.EncodeToMemory(&pem.Block{Type: "EC PRIVATE KEY", Bytes: kb})
}

func H18_config() {
	n := vChoose(4, "ca-files")
	var names []string
	for i := 0; i < n; i++ {
		nm := vNondetString("ca-name", 1)
		for _, p := range names {
			vAssume(!vEqString(p, nm))
		}
		names = append(names, nm)
		st := vChoose(3, "ca-state")
		w18CAs = append(w18CAs, s18File{name: nm, unreadable: st == 1, unparsable: st == 2})
	}
	w18Cert, w18Key = vNondetString("cert-path", 1), vNondetString("key-path", 1)
	vAssume(!vEqString(w18Cert, w18Key))
	for _, p := range names {
		vAssume(vAnd(!vEqString(p, w18Cert), !vEqString(p, w18Key)))
	}
	m18ReloaderFails = vChoose(2, "reloader-fails") == 1

	certPath, keyPath := w18Cert, w18Key
	caPaths := names
	if vIsNative() {
		dir, _ := os.MkdirTemp("", "vsym-c18")
		defer os.RemoveAll(dir)
		c, k := n18PEM("client", false)
		certPath, keyPath = filepath.Join(dir, "cert.pem"), filepath.Join(dir, "key.pem")
		os.WriteFile(certPath, c, 0o600)
		os.WriteFile(keyPath, k, 0o600)
		if m18ReloaderFails {
			os.WriteFile(keyPath, []byte("garbage"), 0o600)
		}
		caPaths = nil
		for i, f := range w18CAs {
			p := filepath.Join(dir, "ca"+string(rune('0'+i))+".pem")
			switch {
			case f.unreadable:
			case f.unparsable:
				os.WriteFile(p, []byte("garbage"), 0o600)
			default:
				c, _ := n18PEM("ca"+string(rune('0'+i)), true)
				os.WriteFile(p, c, 0o600)
			}
			caPaths = append(caPaths, p)
		}
	}

	cfg, err := TLSClientConfiguration(certPath, keyPath, caPaths)

	firstBad := -1
	for i, f := range w18CAs {
		if f.unreadable || f.unparsable {
			firstBad = i
			break
		}
	}
	if m18ReloaderFails {
		vAssert(err != nil && cfg == nil, "C18.client-certificate-failure-is-an-error")
		vReach("C18.reloader-fails")
		return
	}
	if firstBad >= 0 {
		vAssert(err != nil && cfg == nil, "C18.unreadable-or-unparsable-ca-file-is-an-error")
		if w18CAs[firstBad].unreadable {
			vReach("C18.ca-unreadable")
		} else {
			vReach("C18.ca-unparsable")
		}
		return
	}
	vAssert(err == nil && cfg != nil, "C18.configuration-built")
	if err != nil || cfg == nil {
		return
	}
	vAssert(!cfg.InsecureSkipVerify, "C18.server-certificate-verification-not-disabled")
	vAssert(cfg.VerifyPeerCertificate == nil && cfg.VerifyConnection == nil, "C18.no-verification-override")
	vAssert(cfg.Time == nil, "C18.certificates-verified-at-the-real-current-time")
	vAssert(cfg.Rand == nil && cfg.KeyLogWriter == nil, "C18.no-weakened-randomness-or-key-logging")
	vAssert(cfg.MinVersion >= tls.VersionTLS12, "C18.tls-1.2-or-later")
	vAssert(cfg.MaxVersion == 0 || cfg.MaxVersion >= cfg.MinVersion, "C18.max-version-not-below-min")
	vAssert(cfg.RootCAs != nil, "C18.root-cas-set")
	vAssert(cfg.GetClientCertificate != nil || len(cfg.Certificates) > 0, "C18.client-certificate-presented")
	vAssert(cfg.ServerName == "", "C18.server-name-left-to-grpc")
	if vIsNative() {
		vAssert(len(cfg.RootCAs.Subjects()) == n, "C18.root-cas-are-exactly-the-configured-files")
	} else {
		vAssert(m18SystemPool == nil, "C18.system-trust-store-not-consulted")
		vAssert(len(m18Pools) == 1 && cfg.RootCAs == m18Pools[0], "C18.root-cas-is-the-pool-built-in-this-call")
		vAssert(len(m18Appended) == n, "C18.root-cas-are-exactly-the-configured-files")
		for i := 0; i < n && i < len(m18Appended); i++ {
			vAssert(m18AppendPool[i] == cfg.RootCAs && vEqString(m18Appended[i], "CA:"+names[i]), "C18.root-cas-are-exactly-the-configured-files")
		}
		vAssert(vBoundMethodOf(cfg.GetClientCertificate, m18Reloader, "GetClientCertificate"), "C18.client-certificate-from-the-reloader")
		// the reloader reads the configured certificate and key files
		vAssert(m18Getter != nil, "C18.reloader-configured")
		if m18Getter != nil {
			m18Reads = nil
			c, k, gerr := m18Getter()
			vAssert(gerr == nil && string(c) == "CERT" && string(k) == "KEY", "C18.reloader-reads-the-configured-certificate-and-key")
			vAssert(len(m18Reads) == 2 && vEqString(m18Reads[0], w18Cert) && vEqString(m18Reads[1], w18Key), "C18.reloader-reads-the-configured-certificate-and-key")
		}
	}
	if n == 0 {
		vReach("C18.no-ca-files")
	}
	vReach("C18.config-ok")

	// a second configuration in the same process: same client key pair,
	// another bundle (one more CA file) - its roots are that bundle
	extra := vNondetString("second-ca-name", 1)
	for _, p := range names {
		vAssume(!vEqString(p, extra))
	}
	vAssume(vAnd(!vEqString(extra, w18Cert), !vEqString(extra, w18Key)))
	w18CAs = append(w18CAs, s18File{name: extra})
	caPaths2 := append(append([]string(nil), caPaths...), extra)
	if vIsNative() {
		dir, _ := os.MkdirTemp("", "vsym-c18b")
		defer os.RemoveAll(dir)
		c, _ := n18PEM("ca-second", true)
		p := filepath.Join(dir, "ca-second.pem")
		os.WriteFile(p, c, 0o600)
		caPaths2[len(caPaths2)-1] = p
	}
	pools0, appended0 := len(m18Pools), len(m18Appended)
	cfg2, err2 := TLSClientConfiguration(certPath, keyPath, caPaths2)
	vAssert(err2 == nil && cfg2 != nil, "C18.second-configuration-built")
	if err2 != nil || cfg2 == nil {
		return
	}
	vAssert(cfg2.RootCAs != nil && cfg2.RootCAs != cfg.RootCAs, "C18.second-configuration-has-its-own-roots")
	if cfg2.RootCAs == nil {
		return
	}
	if vIsNative() {
		vAssert(len(cfg2.RootCAs.Subjects()) == n+1, "C18.second-configuration-roots-are-exactly-its-files")
		vAssert(len(cfg.RootCAs.Subjects()) == n, "C18.first-configuration-roots-unchanged")
	} else {
		vAssert(len(m18Pools) == pools0+1 && cfg2.RootCAs == m18Pools[pools0], "C18.second-configuration-has-its-own-roots")
		vAssert(len(m18Appended) == appended0+n+1, "C18.second-configuration-roots-are-exactly-its-files")
		for i := 0; i <= n && appended0+i < len(m18Appended); i++ {
			vAssert(m18AppendPool[appended0+i] == cfg2.RootCAs && vEqString(m18Appended[appended0+i], "CA:"+caPaths2[i]), "C18.second-configuration-roots-are-exactly-its-files")
		}
	}
	vReach("C18.second-config")
}
