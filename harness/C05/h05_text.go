package keyid

//vsym:pkg github.com/theparanoids/ysshra/keyid
//vsym:entry H05_text_decode
//vsym:entry H05_text_twice
//vsym:entry H05_text_roundtrip
//vsym:model encoding/json.Marshal t05Marshal
//vsym:model encoding/json.Unmarshal t05Unmarshal
//vsym:include C05/s05.go
//vsym:replay same-harness
//vsym:expect-cover C05.text.ok C05.text.refused C05.text.missing-key C05.text.roundtrip C05.text.second-ok C05.text.retyped
//vsym:bound H05_text_*: the text handed to Unmarshal is a genuine JSON object (not a token): keys in struct order, every string value L symbolic bytes (L in {0,1,3,5,7}; thorough also 10,11,13) from the printable ASCII set without the characters JSON or encoding/json escape, booleans symbolic (rendered `true ` / `false`), numbers one symbolic decimal digit, version also null, at most one key absent (thorough: two) or null or written in upper case only, the version stated twice in different case, or a text that is not JSON
//vsym:bound H05_text_twice: first text: string length 1 or 7, one principal, every key / first or last key absent / last key null / not JSON; decode, overwrite every flag of the result with arbitrary values, decode again either the same text or a second text (same string length, one principal, every key or all but one of the first two)
//vsym:bound H05_text_roundtrip: Marshal of a KeyID with one-digit numbers produces the exact encoding/json text; decode, overwrite the result, decode the same text again
//vsym:assume encoding/json is modelled by its contract on exactly the texts built here (the model finds the document by its text); code that inspects the text itself sees the genuine bytes

import (
	"encoding/json"
	"errors"
	"strings"
)

type t05Doc struct {
	text    string
	invalid bool
	kid     KeyID             // values stated by the text (zero where absent or null)
	present map[string]bool   // JSON name -> the key occurs
	null    map[string]bool   // JSON name -> the value is null
	raw     map[string]string // JSON name -> value text
	exactVer *uint16          // the value under the exact key "ver" when "VER" states another one
	extra   map[string]interface{} // members no struct field matches (what a map decode sees in addition)
	retyped map[string]bool   // JSON name -> the value has another JSON type than the field (a string for a boolean, a number or a list; a number for a string)
	variant map[string]bool   // JSON name -> the text (also) carries the key in upper case (encoding/json matches struct fields case-insensitively, a map does not)
}

var t05Docs []*t05Doc
var t05Len int

// t05Str: L symbolic bytes that stand for themselves inside a JSON string
// and that encoding/json neither escapes nor replaces.
func t05Str(name string) string {
	s := vNondetString(name, t05Len)
	for i := 0; i < len(s); i++ {
		c := s[i]
		ok := vAnd(c >= 0x20, c <= 0x7e)
		ok = vAnd(ok, vAnd(c != '"', c != '\\'))
		ok = vAnd(ok, vAnd(c != '<', vAnd(c != '>', c != '&')))
		vAssume(ok)
	}
	return s
}

func t05Digit(name string) uint8 {
	d := vNondetU8(name)
	vAssume(d <= 9)
	return d
}

func t05Bool(b bool, exact bool) []byte {
	if exact {
		if b {
			return []byte("true")
		}
		return []byte("false")
	}
	// `true ` and `false`: same length, no fork; trailing white space is JSON
	t, f := "true ", "false"
	out := make([]byte, 5)
	for i := 0; i < 5; i++ {
		out[i] = vIteU8(b, t[i], f[i])
	}
	return out
}

// t05QuoteHook, t05ForeignHook: set by H05_text_escapes (values that need
// escaping; texts the code under test rewrote); nil elsewhere.
var t05QuoteHook func(string) []byte
var t05ForeignHook func([]byte) *t05Doc

func t05Quote(s string) []byte {
	if t05QuoteHook != nil {
		return t05QuoteHook(s)
	}
	return []byte(`"` + s + `"`)
}

// t05Fresh: an arbitrary KeyID within the bound.
func t05Fresh(tag string, nprins int) KeyID {
	var prins []string
	for i := 0; i < nprins; i++ {
		prins = append(prins, t05Str(tag+"prin"))
	}
	if nprins > 0 && prins == nil {
		prins = []string{}
	}
	return KeyID{
		Principals:    prins,
		TransID:       t05Str(tag + "transid"),
		ReqUser:       t05Str(tag + "user"),
		ReqIP:         t05Str(tag + "ip"),
		ReqHost:       t05Str(tag + "host"),
		IsFirefighter: vNondetBool(tag + "ff"),
		IsHWKey:       vNondetBool(tag + "hw"),
		IsHeadless:    vNondetBool(tag + "headless"),
		IsNonce:       vNondetBool(tag + "nonce"),
		Usage:         Usage(t05Digit(tag + "usage")),
		TouchPolicy:   TouchPolicy(t05Digit(tag + "policy")),
		Version:       uint16(t05Digit(tag + "ver")),
	}
}

// t05Render builds the text of k.  exact: byte-for-byte what encoding/json
// emits (omitempty honoured).  absent: JSON names left out; nullName: a key
// whose value is null.
// caseOnly: JSON names written in upper case instead of their exact spelling
var t05CaseOnly map[string]bool

// t05Retyped: the JSON name whose value is written with another JSON type
var t05Retyped string

func t05Render(k *KeyID, exact bool, absent map[string]bool, nullName string) *t05Doc {
	d := &t05Doc{present: map[string]bool{}, null: map[string]bool{}, raw: map[string]string{}, variant: map[string]bool{}, retyped: map[string]bool{}}
	d.kid = *k
	d.kid.Principals = append([]string(nil), k.Principals...)
	if k.Principals != nil && d.kid.Principals == nil {
		d.kid.Principals = []string{}
	}
	var out []byte
	out = append(out, '{')
	first := true
	for _, f := range vJSONFields(k) {
		p := strings.Split(f, "|")
		goName, name, omit := p[0], p[1], p[2] == "true"
		var val []byte
		zero := false
		switch goName {
		case "Principals":
			if k.Principals == nil {
				val = []byte("null")
				d.null[name] = true
			} else {
				val = append(val, '[')
				for i, s := range k.Principals {
					if i > 0 {
						val = append(val, ',')
					}
					val = append(val, t05Quote(s)...)
				}
				val = append(val, ']')
			}
			zero = len(k.Principals) == 0
		case "TransID":
			val, zero = t05Quote(k.TransID), len(k.TransID) == 0
		case "ReqUser":
			val, zero = t05Quote(k.ReqUser), len(k.ReqUser) == 0
		case "ReqIP":
			val, zero = t05Quote(k.ReqIP), len(k.ReqIP) == 0
		case "ReqHost":
			val, zero = t05Quote(k.ReqHost), len(k.ReqHost) == 0
		case "IsFirefighter":
			val, zero = t05Bool(k.IsFirefighter, exact), omit && !k.IsFirefighter
		case "IsHWKey":
			val, zero = t05Bool(k.IsHWKey, exact), omit && !k.IsHWKey
		case "IsHeadless":
			val, zero = t05Bool(k.IsHeadless, exact), omit && !k.IsHeadless
		case "IsNonce":
			val, zero = t05Bool(k.IsNonce, exact), omit && !k.IsNonce
		case "Usage":
			val, zero = []byte{'0' + byte(k.Usage)}, omit && k.Usage == 0
		case "TouchPolicy":
			val, zero = []byte{'0' + byte(k.TouchPolicy)}, omit && k.TouchPolicy == 0
		case "Version":
			val, zero = []byte{'0' + byte(k.Version)}, omit && k.Version == 0
		default:
			panic("t05: KeyID has a field the JSON model does not know: " + goName)
		}
		if name == nullName {
			val = []byte("null")
			d.null[name] = true
		}
		if name == t05Retyped && name != nullName {
			d.retyped[name] = true
			d.null[name] = false
			switch goName {
			case "TransID", "ReqUser", "ReqIP", "ReqHost":
				val = []byte("7")
			default:
				val = []byte(`"1"`)
			}
		}
		if absent[name] || (exact && omit && zero) {
			d.present[name] = false
			continue
		}
		written := name
		if t05CaseOnly[name] {
			// the key occurs only in another case: no exact key in the text
			written = strings.ToUpper(name)
			d.variant[name] = true
			d.present[name] = false
		} else {
			d.present[name] = true
		}
		d.raw[written] = string(val)
		if !first {
			out = append(out, ',')
		}
		first = false
		out = append(out, t05Quote(written)...)
		out = append(out, ':')
		out = append(out, val...)
	}
	out = append(out, '}')
	d.text = string(out)
	return d
}

func t05Marshal(v any) ([]byte, error) {
	// encoding hooks of the value's type are honoured as encoding/json does
	if m, ok := v.(json.Marshaler); ok {
		return m.MarshalJSON()
	}
	if w := vRetype(v, (*KeyID)(nil)); w != nil {
		v = w
	}
	k, ok := v.(*KeyID)
	if !ok {
		panic("t05Marshal: unexpected type")
	}
	d := t05Render(k, true, nil, "")
	t05Docs = append(t05Docs, d)
	return []byte(d.text), nil
}

func t05Find(data []byte) *t05Doc {
	for i := len(t05Docs) - 1; i >= 0; i-- {
		if vEqString(t05Docs[i].text, string(data)) {
			return t05Docs[i]
		}
	}
	if t05ForeignHook != nil {
		return t05ForeignHook(data)
	}
	panic("t05Unmarshal: text of unknown origin")
}

// t05Any: the value encoding/json stores in a map[string]interface{} for the
// key: float64 for numbers, string, bool, []interface{} for arrays, nil for null
func t05Any(d *t05Doc, name string) interface{} {
	if d.null[name] {
		return nil
	}
	if d.retyped[name] {
		switch name {
		case "transID", "reqUser", "reqIP", "reqHost":
			return float64(7)
		}
		return "1"
	}
	k := &d.kid
	switch name {
	case "prins":
		out := []interface{}{}
		for _, p := range k.Principals {
			out = append(out, p)
		}
		return out
	case "transID":
		return k.TransID
	case "reqUser":
		return k.ReqUser
	case "reqIP":
		return k.ReqIP
	case "reqHost":
		return k.ReqHost
	case "isFirefighter":
		return k.IsFirefighter
	case "isHWKey":
		return k.IsHWKey
	case "isHeadless":
		return k.IsHeadless
	case "isNonce":
		return k.IsNonce
	case "usage":
		return float64(k.Usage)
	case "touchPolicy":
		return float64(k.TouchPolicy)
	case "ver":
		return float64(k.Version)
	}
	return true
}

func t05Unmarshal(data []byte, v any) error {
	// decoding hooks of the destination type are honoured as encoding/json does;
	// inside such a hook the destination is usually a method-less twin type
	if u, ok := v.(json.Unmarshaler); ok {
		return u.UnmarshalJSON(data)
	}
	if w := vRetype(v, (*KeyID)(nil)); w != nil {
		v = w
	}
	d := t05Find(data)
	if d.invalid {
		return errors.New("model: invalid JSON")
	}
	set := func(name string) bool { return (d.present[name] || d.variant[name]) && !d.null[name] }
	typeErr := false
	switch dst := v.(type) {
	case *KeyID:
		for _, f := range vJSONFields(dst) {
			p := strings.Split(f, "|")
			if !set(p[1]) {
				continue // absent or null: the destination keeps what it had
			}
			if d.retyped[p[1]] {
				// a value of the wrong type: the field keeps what it had, the
				// other fields are decoded, and the call reports a type error
				typeErr = true
				continue
			}
			switch p[0] {
			case "Principals":
				dst.Principals = append([]string{}, d.kid.Principals...)
			case "TransID":
				dst.TransID = d.kid.TransID
			case "ReqUser":
				dst.ReqUser = d.kid.ReqUser
			case "ReqIP":
				dst.ReqIP = d.kid.ReqIP
			case "ReqHost":
				dst.ReqHost = d.kid.ReqHost
			case "IsFirefighter":
				dst.IsFirefighter = d.kid.IsFirefighter
			case "IsHWKey":
				dst.IsHWKey = d.kid.IsHWKey
			case "IsHeadless":
				dst.IsHeadless = d.kid.IsHeadless
			case "IsNonce":
				dst.IsNonce = d.kid.IsNonce
			case "Usage":
				dst.Usage = d.kid.Usage
			case "TouchPolicy":
				dst.TouchPolicy = d.kid.TouchPolicy
			case "Version":
				dst.Version = d.kid.Version
			default:
				panic("t05: KeyID has a field the JSON model does not know: " + p[0])
			}
		}
		if typeErr {
			return errors.New("model: json: cannot unmarshal a value of another type into that field")
		}
		return nil
	case *map[string]interface{}:
		if *dst == nil {
			*dst = map[string]interface{}{}
		}
		for name, pr := range d.present {
			if !pr {
				continue
			}
			(*dst)[name] = t05Any(d, name)
			if name == "ver" && d.exactVer != nil {
				(*dst)[name] = float64(*d.exactVer)
			}
		}
		for name, v := range d.variant {
			if v {
				(*dst)[strings.ToUpper(name)] = t05Any(d, name)
			}
		}
		for name, v := range d.extra {
			(*dst)[name] = v
		}
		return nil
	case *map[string]json.RawMessage:
		if *dst == nil {
			*dst = map[string]json.RawMessage{}
		}
		for name := range d.raw {
			(*dst)[name] = json.RawMessage(d.raw[name])
		}
		return nil
	}
	panic("t05Unmarshal: unexpected destination type")
}

// ---- documents ------------------------------------------------------------

func t05Lens() []int {
	if vThorough() {
		return []int{0, 1, 3, 5, 7, 10, 11, 13}
	}
	return []int{0, 1, 3, 5, 7}
}

// t05Arbitrary: one text of the bound, registered with the model.
func t05Arbitrary(tag string) *t05Doc { return t05ArbitraryIn(tag, false) }

// t05Medium: string length 1 or 7, one principal; every key present, the
// first or the last key absent, the last key null, or not JSON
func t05Medium(tag string) *t05Doc {
	t05Len = []int{1, 7}[vChoose(2, tag+"string-len")]
	k := t05Fresh(tag, 1)
	var names []string
	for _, f := range vJSONFields(&k) {
		names = append(names, strings.Split(f, "|")[1])
	}
	var d *t05Doc
	switch vChoose(5, tag+"shape") {
	case 0:
		d = t05Render(&k, false, nil, "")
	case 1:
		d = t05Render(&k, false, map[string]bool{names[0]: true}, "")
	case 2:
		d = t05Render(&k, false, map[string]bool{names[len(names)-1]: true}, "")
	case 3:
		d = t05Render(&k, false, nil, names[len(names)-1])
		if names[len(names)-1] == "ver" {
			d.kid.Version = 0
		}
	default:
		d = &t05Doc{text: `{"prins":`, invalid: true}
	}
	t05Docs = append(t05Docs, d)
	return d
}

// reduced: the string length already chosen, one principal, every key present
// or one of the first two absent
func t05ArbitraryIn(tag string, reduced bool) *t05Doc {
	np := 1
	if !reduced {
		ls := t05Lens()
		t05Len = ls[vChoose(len(ls), tag+"string-len")]
		np = vChoose(3, tag+"nprins")
	}
	k := t05Fresh(tag, np)
	var names []string
	for _, f := range vJSONFields(&k) {
		names = append(names, strings.Split(f, "|")[1])
	}
	absent := map[string]bool{}
	nullName := ""
	nested := ""
	// shape: 0 = not JSON; 1 = every key; 2.. = one key absent; then one key null
	n := len(names)
	shape := 1
	if reduced {
		shape = 1 + vChoose(3, tag+"shape")
	} else {
		shape = vChoose(2+5*n+1, tag+"shape")
	}
	t05CaseOnly = nil
	var d *t05Doc
	switch {
	case shape == 0:
		d = &t05Doc{text: `{"prins":`, invalid: true}
		t05Docs = append(t05Docs, d)
		return d
	case shape == 1:
	case shape < 2+n:
		absent[names[shape-2]] = true
		if vThorough() {
			if j := vChoose(n+1, tag+"second-absent"); j < n {
				absent[names[j]] = true
			}
		}
	case shape < 2+2*n:
		nullName = names[shape-2-n]
	case shape < 2+3*n:
		// one key occurs only in upper case
		t05CaseOnly = map[string]bool{names[shape-2-2*n]: true}
	case shape > 2+3*n && shape <= 2+4*n:
		// one value has another JSON type than its field
		t05Retyped = names[shape-3-3*n]
	case shape > 2+4*n:
		// one key is absent at the top level; its name occurs only as a
		// member of a nested object under a name no field has
		nested = names[shape-3-4*n]
		absent[nested] = true
	}
	d = t05Render(&k, false, absent, nullName)
	t05CaseOnly = nil
	t05Retyped = ""
	if nested != "" {
		inner := `{"` + nested + `":1}`
		d.text = `{"ext":` + inner + "," + d.text[1:]
		d.raw["ext"] = inner
		d.extra = map[string]interface{}{"ext": map[string]interface{}{nested: float64(1)}}
	}
	if shape == 2+3*n {
		// every key, and after them "VER" with another value: the struct
		// field takes the last one, a map keeps both keys
		v2 := t05Digit(tag + "ver-again")
		d.text = d.text[:len(d.text)-1] + `,"VER":` + string([]byte{'0' + v2}) + "}"
		d.raw["VER"] = string([]byte{'0' + v2})
		d.variant["ver"] = true
		first := d.kid.Version
		d.exactVer = &first
		d.kid.Version = uint16(v2)
	}
	if nullName != "" {
		// the text states no value for that key
		switch nullName {
		case "ver":
			d.kid.Version = 0
		}
	}
	t05Docs = append(t05Docs, d)
	return d
}

func t05Decode(text string) (k *KeyID, err error, crashed bool) {
	crashed = vCatch(func() { k, err = Unmarshal(text) })
	return
}

// t05Oracle: what the statement says about decoding the text of d.
func t05Oracle(d *t05Doc, k *KeyID, err error, crashed bool, tag string) {
	vAssert(!crashed, "C05.text-no-crash")
	if crashed {
		return
	}
	if d.invalid {
		vAssert(err != nil, "C05.text-not-json-is-refused")
	}
	for _, r := range d.retyped {
		if r {
			// encoding/json reports the mismatch; what comes back would not
			// be what the text states
			vAssert(err != nil, "C05.text-retyped-field-is-refused")
			vReach("C05.text.retyped")
		}
	}
	if err != nil {
		vAssert(k == nil, "C05.text-error-returns-nil")
		return
	}
	vAssert(k != nil, "C05.text-ok-returns-value")
	if k == nil {
		return
	}
	vAssert(k.Version == 1, "C05.text-version-supported")
	stated := d.present["ver"] && !d.null["ver"]
	vAssert(vAnd(stated, d.kid.Version == 1), "C05.text-version-stated-by-the-text")
	for _, n := range s05Required {
		vAssert(d.present[n], "C05.text-required-present:"+n)
	}
	vAssert(s05Consistent(k), "C05.text-consistent")
}

func H05_text_decode() {
	d := t05Arbitrary("")
	k, err, crashed := t05Decode(d.text)
	vCover(err == nil, "C05.text.ok")
	vCover(err != nil, "C05.text.refused")
	vCover(vAnd(err != nil, vAnd(!d.invalid, vAnd(d.kid.Version == 1, !d.present["isNonce"]))), "C05.text.missing-key")
	t05Oracle(d, k, err, crashed, "")
}

// t05Scribble overwrites every scalar of a decoded KeyID (a caller is free to
// do that with a value it was given).
func t05Scribble(k *KeyID, tag string) {
	k.IsFirefighter = vNondetBool(tag + "w-ff")
	k.IsHWKey = vNondetBool(tag + "w-hw")
	k.IsHeadless = vNondetBool(tag + "w-headless")
	k.IsNonce = vNondetBool(tag + "w-nonce")
	k.TouchPolicy = TouchPolicy(t05Digit(tag + "w-policy"))
	k.Usage = Usage(t05Digit(tag + "w-usage"))
	k.TransID = "scribbled"
	if len(k.Principals) > 0 {
		k.Principals[0] = "scribbled"
	}
}

func H05_text_twice() {
	d1 := t05Medium("first-")
	k1, err1, crashed1 := t05Decode(d1.text)
	t05Oracle(d1, k1, err1, crashed1, "first-")
	if !crashed1 && err1 == nil && k1 != nil {
		t05Scribble(k1, "first-")
	}
	d2 := d1
	if vChoose(2, "second-text") == 1 {
		d2 = t05ArbitraryIn("", true)
	}
	k2, err2, crashed2 := t05Decode(d2.text)
	vCover(err2 == nil, "C05.text.second-ok")
	t05Oracle(d2, k2, err2, crashed2, "")
	if d2 == d1 && !crashed1 && !crashed2 {
		vAssert((err1 == nil) == (err2 == nil), "C05.text-same-text-same-verdict")
	}
	if !crashed2 && err2 == nil && k2 != nil && d2.present["transID"] && !d2.null["transID"] {
		vAssert(vEqString(k2.TransID, d2.kid.TransID), "C05.text-second-decode-states-the-text")
	}
}

func t05Equal(a, b *KeyID) bool {
	eq := len(a.Principals) == len(b.Principals)
	if eq {
		for i := range a.Principals {
			eq = vAnd(eq, vEqString(a.Principals[i], b.Principals[i]))
		}
	}
	eq = vAnd(eq, vEqString(a.TransID, b.TransID))
	eq = vAnd(eq, vEqString(a.ReqUser, b.ReqUser))
	eq = vAnd(eq, vEqString(a.ReqIP, b.ReqIP))
	eq = vAnd(eq, vEqString(a.ReqHost, b.ReqHost))
	eq = vAnd(eq, a.IsFirefighter == b.IsFirefighter)
	eq = vAnd(eq, a.IsHWKey == b.IsHWKey)
	eq = vAnd(eq, a.IsHeadless == b.IsHeadless)
	eq = vAnd(eq, a.IsNonce == b.IsNonce)
	eq = vAnd(eq, a.Usage == b.Usage)
	eq = vAnd(eq, a.TouchPolicy == b.TouchPolicy)
	eq = vAnd(eq, a.Version == b.Version)
	return eq
}

func H05_text_roundtrip() {
	ls := t05Lens()
	t05Len = ls[vChoose(len(ls), "string-len")]
	k := t05Fresh("", vChoose(3, "nprins")) // no principals: a nil list, encoded as null
	t05Roundtrip(k)
}

func t05Roundtrip(k KeyID) {
	orig := k
	if k.Principals != nil {
		orig.Principals = append([]string{}, k.Principals...)
	}
	want := vAnd(k.Version == 1, s05Consistent(&k))
	var s string
	var err error
	crashed := vCatch(func() { s, err = k.Marshal() })
	vAssert(!crashed, "C05.text-marshal-no-crash")
	if crashed {
		return
	}
	vAssert(vIff(err == nil, want), "C05.text-marshal-iff-consistent")
	if err != nil {
		return
	}
	vAssert(t05Equal(&k, &orig), "C05.text-marshal-leaves-the-keyid-alone")
	k2, err2, crashed2 := t05Decode(s)
	vAssert(!crashed2, "C05.text-no-crash")
	vAssert(err2 == nil, "C05.text-roundtrip-decodes")
	if crashed2 || err2 != nil || k2 == nil {
		return
	}
	vCover(true, "C05.text.roundtrip")
	vAssert(t05Equal(k2, &orig), "C05.text-roundtrip-equal")
	t05Scribble(k2, "")
	k3, err3, crashed3 := t05Decode(s)
	vAssert(!crashed3, "C05.text-no-crash")
	vAssert(err3 == nil, "C05.text-roundtrip-decodes-again")
	if crashed3 || err3 != nil || k3 == nil {
		return
	}
	vAssert(t05Equal(k3, &orig), "C05.text-roundtrip-equal-again")
	// and the text of an equal KeyID is the same text
	k4 := orig
	var s4 string
	var err4 error
	if !vCatch(func() { s4, err4 = k4.Marshal() }) && err4 == nil {
		vAssert(vEqString(s4, s), "C05.text-marshal-deterministic")
	}
}
