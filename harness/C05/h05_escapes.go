package keyid

//vsym:pkg github.com/theparanoids/ysshra/keyid
//vsym:entry H05_text_escapes
//vsym:model encoding/json.Marshal t05Marshal
//vsym:model encoding/json.Unmarshal t05Unmarshal
//vsym:include C05/s05.go
//vsym:include C05/h05_text.go
//vsym:replay same-harness
//vsym:expect-cover C05.text.roundtrip C05.text.escaped-quote C05.text.escaped-html
//vsym:bound H05_text_escapes: a consistent version-1 KeyID whose strings are one byte long except one (a principal, the transaction id, the user, the address or the host) of 6 symbolic printable bytes of which one (any position), or the first two (thorough: any two), range over the whole printable ASCII set, including the quote, the backslash and the characters encoding/json writes as < > &, the others over the bytes that stand for themselves; flags and numbers fixed; Marshal produces the exact encoding/json text (escapes included); decode, overwrite, decode again, Marshal again
//vsym:assume a text that is not byte for byte what the harness rendered (the code under test rewrote it) is read by a reference parser for the JSON subset KeyID texts use (objects of strings, booleans, small non-negative integers, null and arrays of strings; all standard escapes below U+0080); texts outside that subset leave the bound

import "strings"

// Escapes: the round trip over values that need JSON escaping.  The text
// Marshal returns is judged by decoding it: when the code under test hands
// back exactly what encoding/json produced, the model knows the document; when
// it rewrote the text (say, to undo HTML escaping), the reference parser below
// says what that text states - possibly that it is not JSON at all.

const (
	j05OK = iota
	j05Invalid
	j05Unsupported
)

type j05Pair struct {
	key  string
	kind int // 0 null, 1 bool, 2 number, 3 string, 4 array of strings
	s    string
	arr  []string
	b    bool
	n    uint32
	raw  string
}

type j05P struct {
	t  string
	i  int
	st int
}

func (p *j05P) fail(st int) {
	if p.st == j05OK {
		p.st = st
	}
}

func (p *j05P) ws() {
	for p.st == j05OK && p.i < len(p.t) {
		c := p.t[p.i]
		if c == ' ' || c == '\t' || c == '\n' || c == '\r' {
			p.i++
			continue
		}
		return
	}
}

func j05Hex(c byte) (byte, bool) {
	switch {
	case c >= '0' && c <= '9':
		return c - '0', true
	case c >= 'a' && c <= 'f':
		return c - 'a' + 10, true
	case c >= 'A' && c <= 'F':
		return c - 'A' + 10, true
	}
	return 0, false
}

// str: a JSON string starting at the opening quote; the decoded bytes
func (p *j05P) str() string {
	if p.st != j05OK {
		return ""
	}
	if p.i >= len(p.t) || p.t[p.i] != '"' {
		p.fail(j05Invalid)
		return ""
	}
	p.i++
	var out []byte
	for {
		if p.i >= len(p.t) {
			p.fail(j05Invalid)
			return ""
		}
		c := p.t[p.i]
		if c == '"' {
			p.i++
			return string(out)
		}
		if c < 0x20 {
			p.fail(j05Invalid)
			return ""
		}
		if c >= 0x80 {
			p.fail(j05Unsupported)
			return ""
		}
		if c != '\\' {
			out = append(out, c)
			p.i++
			continue
		}
		p.i++
		if p.i >= len(p.t) {
			p.fail(j05Invalid)
			return ""
		}
		e := p.t[p.i]
		p.i++
		switch e {
		case '"', '\\', '/':
			out = append(out, e)
		case 'b':
			out = append(out, 8)
		case 'f':
			out = append(out, 12)
		case 'n':
			out = append(out, 10)
		case 'r':
			out = append(out, 13)
		case 't':
			out = append(out, 9)
		case 'u':
			if p.i+4 > len(p.t) {
				p.fail(j05Invalid)
				return ""
			}
			v := 0
			for j := 0; j < 4; j++ {
				h, ok := j05Hex(p.t[p.i+j])
				if !ok {
					p.fail(j05Invalid)
					return ""
				}
				v = v<<4 | int(h)
			}
			p.i += 4
			if v >= 0x80 {
				p.fail(j05Unsupported)
				return ""
			}
			out = append(out, byte(v))
		default:
			p.fail(j05Invalid)
			return ""
		}
	}
}

func (p *j05P) lit(w string) bool {
	if p.i+len(w) > len(p.t) {
		return false
	}
	for j := 0; j < len(w); j++ {
		if p.t[p.i+j] != w[j] {
			return false
		}
	}
	p.i += len(w)
	return true
}

func (p *j05P) value(pr *j05Pair) {
	if p.st != j05OK {
		return
	}
	if p.i >= len(p.t) {
		p.fail(j05Invalid)
		return
	}
	start := p.i
	c := p.t[p.i]
	switch {
	case c == '"':
		pr.kind, pr.s = 3, p.str()
	case c == '[':
		pr.kind = 4
		pr.arr = []string{}
		p.i++
		p.ws()
		if p.i < len(p.t) && p.t[p.i] == ']' {
			p.i++
			break
		}
		for p.st == j05OK {
			p.ws()
			if p.i < len(p.t) && p.t[p.i] != '"' {
				// an array of something else: valid JSON perhaps, not a KeyID text
				p.fail(j05Unsupported)
				return
			}
			pr.arr = append(pr.arr, p.str())
			p.ws()
			if p.st != j05OK {
				return
			}
			if p.i >= len(p.t) {
				p.fail(j05Invalid)
				return
			}
			d := p.t[p.i]
			p.i++
			if d == ']' {
				break
			}
			if d != ',' {
				p.fail(j05Invalid)
				return
			}
		}
	case c == 't':
		if !p.lit("true") {
			p.fail(j05Invalid)
			return
		}
		pr.kind, pr.b = 1, true
	case c == 'f':
		if !p.lit("false") {
			p.fail(j05Invalid)
			return
		}
		pr.kind, pr.b = 1, false
	case c == 'n':
		if !p.lit("null") {
			p.fail(j05Invalid)
			return
		}
		pr.kind = 0
	case c >= '0' && c <= '9':
		pr.kind = 2
		n, digits := uint32(0), 0
		for p.i < len(p.t) && p.t[p.i] >= '0' && p.t[p.i] <= '9' {
			if digits == 1 && n == 0 {
				p.fail(j05Invalid) // leading zero
				return
			}
			n = n*10 + uint32(p.t[p.i]-'0')
			digits++
			p.i++
			if digits > 5 {
				p.fail(j05Unsupported)
				return
			}
		}
		if p.i < len(p.t) && (p.t[p.i] == '.' || p.t[p.i] == 'e' || p.t[p.i] == 'E') {
			p.fail(j05Unsupported)
			return
		}
		pr.n = n
	case c == '-' || c == '{':
		p.fail(j05Unsupported)
		return
	default:
		p.fail(j05Invalid)
		return
	}
	if p.st == j05OK {
		pr.raw = p.t[start:p.i]
	}
}

func j05Parse(text string) ([]*j05Pair, int) {
	p := &j05P{t: text}
	var pairs []*j05Pair
	p.ws()
	if p.i >= len(p.t) || p.t[p.i] != '{' {
		return nil, j05Invalid
	}
	p.i++
	p.ws()
	if p.i < len(p.t) && p.t[p.i] == '}' {
		p.i++
	} else {
		for p.st == j05OK {
			p.ws()
			pr := &j05Pair{}
			pr.key = p.str()
			p.ws()
			if p.st != j05OK {
				break
			}
			if p.i >= len(p.t) || p.t[p.i] != ':' {
				p.fail(j05Invalid)
				break
			}
			p.i++
			p.ws()
			p.value(pr)
			p.ws()
			if p.st != j05OK {
				break
			}
			pairs = append(pairs, pr)
			if p.i >= len(p.t) {
				p.fail(j05Invalid)
				break
			}
			d := p.t[p.i]
			p.i++
			if d == '}' {
				break
			}
			if d != ',' {
				p.fail(j05Invalid)
				break
			}
		}
	}
	p.ws()
	if p.st == j05OK && p.i != len(p.t) {
		p.fail(j05Invalid)
	}
	return pairs, p.st
}

// j05Doc: the document a text of foreign origin states, in the vocabulary of
// the JSON model (t05Doc).
func j05Doc(data []byte) *t05Doc {
	text := string(data)
	d := &t05Doc{text: text, present: map[string]bool{}, null: map[string]bool{}, raw: map[string]string{}, variant: map[string]bool{}}
	pairs, st := j05Parse(text)
	if st == j05Unsupported {
		vReach("C05.text.foreign-text-outside-the-parser's-subset")
		vAssume(false)
	}
	t05Docs = append(t05Docs, d)
	if st == j05Invalid {
		d.invalid = true
		return d
	}
	names := map[string]string{} // JSON name -> Go name
	for _, f := range vJSONFields(&KeyID{}) {
		p := strings.Split(f, "|")
		names[p[1]] = p[0]
	}
	unsupported := func() {
		vReach("C05.text.foreign-text-outside-the-parser's-subset")
		vAssume(false)
	}
	for _, pr := range pairs {
		goName, ok := names[pr.key]
		if !ok {
			unsupported() // unknown key, or a key in another case
		}
		if _, dup := d.raw[pr.key]; dup {
			unsupported()
		}
		d.raw[pr.key] = pr.raw
		d.present[pr.key] = true
		if pr.kind == 0 {
			d.null[pr.key] = true
			continue
		}
		want := 3
		switch goName {
		case "Principals":
			want = 4
		case "IsFirefighter", "IsHWKey", "IsHeadless", "IsNonce":
			want = 1
		case "Usage", "TouchPolicy", "Version":
			want = 2
		}
		if pr.kind != want || (pr.kind == 2 && pr.n > 9) {
			unsupported() // a type error or a number the model does not render
		}
		switch goName {
		case "Principals":
			d.kid.Principals = pr.arr
		case "TransID":
			d.kid.TransID = pr.s
		case "ReqUser":
			d.kid.ReqUser = pr.s
		case "ReqIP":
			d.kid.ReqIP = pr.s
		case "ReqHost":
			d.kid.ReqHost = pr.s
		case "IsFirefighter":
			d.kid.IsFirefighter = pr.b
		case "IsHWKey":
			d.kid.IsHWKey = pr.b
		case "IsHeadless":
			d.kid.IsHeadless = pr.b
		case "IsNonce":
			d.kid.IsNonce = pr.b
		case "Usage":
			d.kid.Usage = Usage(pr.n)
		case "TouchPolicy":
			d.kid.TouchPolicy = TouchPolicy(pr.n)
		case "Version":
			d.kid.Version = uint16(pr.n)
		default:
			panic("j05: KeyID has a field the JSON model does not know: " + goName)
		}
	}
	return d
}

const j05HexDigits = "0123456789abcdef"

// e05Quote: the JSON string encoding/json writes for s (printable ASCII):
// quote and backslash get a backslash, the HTML characters become \u00XX
func e05Quote(s string) []byte {
	out := []byte{'"'}
	for i := 0; i < len(s); i++ {
		c := s[i]
		switch {
		case c == '"' || c == '\\':
			vReach("C05.text.escaped-quote")
			out = append(out, '\\', c)
		case c == '<' || c == '>' || c == '&':
			vReach("C05.text.escaped-html")
			out = append(out, '\\', 'u', '0', '0', j05HexDigits[c>>4], j05HexDigits[c&15])
		default:
			out = append(out, c)
		}
	}
	return append(out, '"')
}

// e05Wide: n printable bytes of which the ones at positions free[...] are
// arbitrary (quote, backslash and HTML characters included) and the others
// stand for themselves in JSON.
func e05Wide(name string, n int, free map[int]bool) string {
	s := vNondetString(name, n)
	for i := 0; i < len(s); i++ {
		c := s[i]
		vAssume(vAnd(c >= 0x20, c <= 0x7e))
		if !free[i] {
			plain := vAnd(vAnd(c != '"', c != '\\'), vAnd(c != '<', vAnd(c != '>', c != '&')))
			vAssume(plain)
		}
	}
	return s
}

func H05_text_escapes() {
	t05QuoteHook = e05Quote
	t05ForeignHook = j05Doc
	n := 6
	k := KeyID{
		Principals:  []string{"p"},
		TransID:     "t",
		ReqUser:     "u",
		ReqIP:       "i",
		ReqHost:     "h",
		IsHWKey:     true,
		Usage:       Usage(1),
		TouchPolicy: TouchPolicy(2),
		Version:     1,
	}
	// one arbitrary byte anywhere in the string, or two at the front, or
	// (thorough) two anywhere; the other bytes are plain but symbolic, so the
	// text after an escape may spell anything (an escape sequence, say)
	free := map[int]bool{}
	shapes := n + 1
	if vThorough() {
		shapes = n + n*(n-1)/2
	}
	sh := vChoose(shapes, "wide-shape")
	switch {
	case sh < n:
		free[sh] = true
	case sh == n && !vThorough():
		free[0], free[1] = true, true
	default:
		x := sh - n
		for a := 0; a < n; a++ {
			for b := a + 1; b < n; b++ {
				if x == 0 {
					free[a], free[b] = true, true
				}
				x--
			}
		}
	}
	w := e05Wide("wide", n, free)
	switch vChoose(5, "wide-field") {
	case 0:
		k.Principals[0] = w
	case 1:
		k.TransID = w
	case 2:
		k.ReqUser = w
	case 3:
		k.ReqIP = w
	case 4:
		k.ReqHost = w
	}
	t05Roundtrip(k)
}
