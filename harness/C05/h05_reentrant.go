package keyid

//vsym:pkg github.com/theparanoids/ysshra/keyid
//vsym:entry H05_concurrent_callers
//vsym:model encoding/json.Marshal t05Marshal
//vsym:model encoding/json.Unmarshal t05Unmarshal
//vsym:include C05/s05.go
//vsym:include C05/h05_text.go
//vsym:replay adapter h05_race_replay_test.go race
//vsym:expect-cover C05.concurrent.marshal C05.concurrent.unmarshal
//vsym:bound H05_concurrent_callers: one Marshal of a consistent version-1 KeyID and one Unmarshal of its text (1-byte symbolic strings), each recorded as a trace of accesses to the package-level variables of package keyid and of lock operations; every pair of traces (also a trace with itself) composed into a schedule query: no two callers touch the same variable, one of them writing, without a common lock; and no object is touched after it was handed to sync.Pool.Put
//vsym:assume two callers suffice (a data race is a pairwise notion); memory reachable only through a package-level pointer is not tracked, the variable itself is

// KeyIDs are encoded and decoded by concurrent requests of one server
// process; both directions are pure functions of their argument, so two
// callers must not meet in shared state.  The code under test has none; a
// change that introduces some (a scratch buffer, a pool) has to synchronise
// it for every access.

func H05_concurrent_callers() {
	t05Len = 1
	k := t05Fresh("", 1)
	k.IsFirefighter, k.IsHWKey, k.IsHeadless, k.IsNonce = false, vNondetBool("hw2"), false, false
	k.Version = 1
	d := t05Render(&k, true, nil, "")
	t05Docs = append(t05Docs, d)
	text := d.text
	vWatchGlobals("keyid")
	vPoolStrict()
	vTraceRaceLabel("C05.concurrent-callers-do-not-interfere")
	op := vChoose(2, "operation")
	vTraceReset()
	var err error
	crashed := vCatch(func() {
		if op == 0 {
			_, err = k.Marshal()
		} else {
			_, err = Unmarshal(text)
		}
	})
	if op == 0 {
		vTraceEmit("Marshal")
		vReach("C05.concurrent.marshal")
	} else {
		vTraceEmit("Unmarshal")
		vReach("C05.concurrent.unmarshal")
	}
	vAssert(!crashed, "C05.text-no-crash")
	vAssert(err == nil, "C05.text-roundtrip-decodes")
}
