package keyid

//vsym:pkg github.com/theparanoids/ysshra/keyid
//vsym:entry H05_marshal
//vsym:entry H05_decode_any
//vsym:entry H05_decode_twice
//vsym:model encoding/json.Marshal m05Marshal
//vsym:model encoding/json.Unmarshal m05Unmarshal
//vsym:include C05/s05.go
//vsym:replay same-harness
//vsym:expect-cover C05.marshal.ok C05.marshal.refused C05.decode.ok C05.decode.refused C05.decode.version-refused C05.decode.missing-key
//vsym:bound H05_marshal: all four flags, touch policy (64-bit), usage (64-bit) and version (16-bit) symbolic; strings and the single principal symbolic, all of one common length 0..2 bytes; principals also nil (JSON null)
//vsym:bound H05_decode_twice: two arbitrary decodes in sequence (the required-key tables and checkers are process state)
//vsym:bound H05_decode_any: the decoder's result is an arbitrary KeyID (every scalar symbolic, 1-byte symbolic strings, 0..2 principals) with an arbitrary key-presence predicate over the struct's JSON names and the statement's eleven names, or a decoding error
//vsym:assume encoding/json is modelled by its contract for a struct of exported, distinctly tagged, marshaler-free fields; the field -> JSON name / omitempty table is re-read from the struct tags of the loaded source on every run (vJSONFields)

import (
	"encoding/json"
	"errors"
	"strings"
)

// ---- JSON model ---------------------------------------------------------

const m05Marker = "\x00json-model-text#"

var m05Snap *KeyID               // value behind the model text produced by Marshal
var m05SnapPresent map[string]bool // JSON name -> emitted (omitempty fields only when non-zero)
var m05Arbitrary bool            // the text handed to Unmarshal is arbitrary input
var m05ArbErr bool               // ... and does not decode
var m05ArbKid KeyID              // ... or decodes to this
var m05ArbPresent map[string]bool
var m05NullVer bool // the text carries "ver":null
var m05PrinsName = "prins" // JSON name of the Principals field (re-read from the tags in m05Marshal)

func m05FieldZero(k *KeyID, goName string) bool {
	switch goName {
	case "Principals":
		return len(k.Principals) == 0
	case "TransID":
		return k.TransID == ""
	case "ReqUser":
		return k.ReqUser == ""
	case "ReqIP":
		return k.ReqIP == ""
	case "ReqHost":
		return k.ReqHost == ""
	case "IsFirefighter":
		return !k.IsFirefighter
	case "IsHWKey":
		return !k.IsHWKey
	case "IsHeadless":
		return !k.IsHeadless
	case "IsNonce":
		return !k.IsNonce
	case "Usage":
		return k.Usage == 0
	case "TouchPolicy":
		return k.TouchPolicy == 0
	case "Version":
		return k.Version == 0
	}
	panic("m05: KeyID has a field the JSON model does not know: " + goName)
}

func m05Marshal(v any) ([]byte, error) {
	// encoding hooks of the value's type are honoured as encoding/json does
	if m, ok := v.(json.Marshaler); ok {
		return m.MarshalJSON()
	}
	if w := vRetype(v, (*KeyID)(nil)); w != nil {
		v = w
	}
	k, ok := v.(*KeyID)
	if !ok {
		panic("m05Marshal: unexpected type")
	}
	snap := *k
	snap.Principals = append([]string(nil), k.Principals...)
	m05Snap = &snap
	m05SnapPresent = map[string]bool{}
	for _, f := range vJSONFields(k) {
		p := strings.Split(f, "|")
		if p[0] == "Principals" {
			m05PrinsName = p[1]
		}
		emitted := true
		if p[2] == "true" {
			emitted = !m05FieldZero(k, p[0])
		}
		m05SnapPresent[p[1]] = emitted
	}
	return []byte(m05Marker), nil
}

func m05Unmarshal(data []byte, v any) error {
	// decoding hooks of the destination type are honoured as encoding/json does;
	// inside such a hook the destination is usually a method-less twin type
	if u, ok := v.(json.Unmarshaler); ok {
		return u.UnmarshalJSON(data)
	}
	if w := vRetype(v, (*KeyID)(nil)); w != nil {
		v = w
	}
	var src *KeyID
	var present map[string]bool
	switch {
	case string(data) == m05Marker && m05Snap != nil:
		src, present = m05Snap, m05SnapPresent
	case m05Arbitrary:
		if m05ArbErr {
			return errors.New("model: invalid JSON")
		}
		src, present = &m05ArbKid, m05ArbPresent
	default:
		panic("m05Unmarshal: text of unknown origin")
	}
	switch dst := v.(type) {
	case *KeyID:
		// a field receives a value iff its JSON name was present in the text;
		// scalars are merged without forking (absent => zero value); strings
		// and principals are copied regardless: no code under test inspects
		// their content, only the key-presence map decides about them
		for _, f := range vJSONFields(dst) {
			p := strings.Split(f, "|")
			pr := present[p[1]]
			switch p[0] {
			case "Principals":
				dst.Principals = append([]string(nil), src.Principals...)
			case "TransID":
				dst.TransID = src.TransID
			case "ReqUser":
				dst.ReqUser = src.ReqUser
			case "ReqIP":
				dst.ReqIP = src.ReqIP
			case "ReqHost":
				dst.ReqHost = src.ReqHost
			case "IsFirefighter":
				dst.IsFirefighter = vAnd(pr, src.IsFirefighter)
			case "IsHWKey":
				dst.IsHWKey = vAnd(pr, src.IsHWKey)
			case "IsHeadless":
				dst.IsHeadless = vAnd(pr, src.IsHeadless)
			case "IsNonce":
				dst.IsNonce = vAnd(pr, src.IsNonce)
			case "Usage":
				dst.Usage = Usage(vIteInt(pr, int(src.Usage), 0))
			case "TouchPolicy":
				dst.TouchPolicy = TouchPolicy(vIteInt(pr, int(src.TouchPolicy), 0))
			case "Version":
				// absent or null: the destination keeps what it had
				dst.Version = uint16(vIteInt(vAnd(pr, !m05NullVer), int(src.Version), int(dst.Version)))
			default:
				panic("m05: KeyID has a field the JSON model does not know: " + p[0])
			}
		}
		return nil
	case *map[string]interface{}:
		if *dst == nil {
			*dst = map[string]interface{}{}
		}
		for name, pr := range present {
			// the decoded value: JSON null (nil) for a nil slice, something non-nil otherwise
			var val interface{} = true
			if name == m05PrinsName && src.Principals == nil {
				val = nil
			}
			vMapPutIf(*dst, name, val, pr)
		}
		return nil
	case *map[string]json.RawMessage:
		// key presence only (the raw value text is the JSON library's business)
		if *dst == nil {
			*dst = map[string]json.RawMessage{}
		}
		for name, pr := range present {
			val := json.RawMessage("1")
			if name == m05PrinsName && src.Principals == nil {
				val = json.RawMessage("null")
			}
			vMapPutIf(*dst, name, val, pr)
		}
		return nil
	}
	panic("m05Unmarshal: unexpected destination type")
}

// ---- harnesses ----------------------------------------------------------

var h05Len int

func h05Str(name string) string { return vNondetString(name, h05Len) }

func H05_marshal() {
	h05Len = vChoose(3, "string-len")
	prins := []string{h05Str("prin")}
	if vChoose(2, "nil-principals") == 1 {
		prins = nil // encoded as "prins":null
	}
	k := &KeyID{
		Principals:    prins,
		TransID:       h05Str("transid"),
		ReqUser:       h05Str("user"),
		ReqIP:         h05Str("ip"),
		ReqHost:       h05Str("host"),
		IsFirefighter: vNondetBool("ff"),
		IsHWKey:       vNondetBool("hw"),
		IsHeadless:    vNondetBool("headless"),
		IsNonce:       vNondetBool("nonce"),
		Usage:         Usage(vNondetI64("usage")),
		TouchPolicy:   TouchPolicy(vNondetI64("policy")),
		Version:       vNondetU16("ver"),
	}
	want := vAnd(k.Version == 1, s05Consistent(k))
	var s string
	var err error
	crashed := vCatch(func() { s, err = k.Marshal() })
	vAssert(!crashed, "C05.marshal-no-crash")
	vAssert(vIff(err == nil, want), "C05.marshal-iff-consistent")
	vCover(err == nil, "C05.marshal.ok")
	vCover(err != nil, "C05.marshal.refused")
	if err != nil {
		return
	}
	var k2 *KeyID
	var err2 error
	crashed = vCatch(func() { k2, err2 = Unmarshal(s) })
	vAssert(!crashed, "C05.unmarshal-no-crash")
	vAssert(err2 == nil, "C05.roundtrip-decodes")
	if err2 != nil || k2 == nil {
		return
	}
	eq := vAnd(len(k2.Principals) == len(k.Principals), true)
	if len(k2.Principals) == 1 && len(k.Principals) == 1 {
		eq = vAnd(eq, vEqString(k2.Principals[0], k.Principals[0]))
	}
	eq = vAnd(eq, vEqString(k2.TransID, k.TransID))
	eq = vAnd(eq, vEqString(k2.ReqUser, k.ReqUser))
	eq = vAnd(eq, vEqString(k2.ReqIP, k.ReqIP))
	eq = vAnd(eq, vEqString(k2.ReqHost, k.ReqHost))
	eq = vAnd(eq, k2.IsFirefighter == k.IsFirefighter)
	eq = vAnd(eq, k2.IsHWKey == k.IsHWKey)
	eq = vAnd(eq, k2.IsHeadless == k.IsHeadless)
	eq = vAnd(eq, k2.IsNonce == k.IsNonce)
	eq = vAnd(eq, k2.Usage == k.Usage)
	eq = vAnd(eq, k2.TouchPolicy == k.TouchPolicy)
	eq = vAnd(eq, k2.Version == k.Version)
	vAssert(eq, "C05.roundtrip-equal")
}

// H05_decode_twice: two decodes in a row on the same process state — the
// verdict on the second text must not depend on what the first one was.
func H05_decode_twice() {
	h05DecodeOnce("first-")
	h05DecodeOnce("")
}

func H05_decode_any() {
	h05DecodeOnce("")
}

func h05DecodeOnce(tag string) {
	m05Arbitrary = true
	m05ArbErr = vNondetBool(tag+"json-error")
	h05Len = 1
	np := vChoose(3, tag+"nprins")
	var prins []string
	for i := 0; i < np; i++ {
		prins = append(prins, h05Str("prin"))
	}
	m05ArbKid = KeyID{
		Principals:    prins,
		TransID:       h05Str("transid"),
		ReqUser:       h05Str("user"),
		ReqIP:         h05Str("ip"),
		ReqHost:       h05Str("host"),
		IsFirefighter: vNondetBool(tag+"ff"),
		IsHWKey:       vNondetBool(tag+"hw"),
		IsHeadless:    vNondetBool(tag+"headless"),
		IsNonce:       vNondetBool(tag+"nonce"),
		Usage:         Usage(vNondetI64(tag+"usage")),
		TouchPolicy:   TouchPolicy(vNondetI64(tag+"policy")),
		Version:       vNondetU16(tag+"ver"),
	}
	// presence predicate over the statement's names and the struct's names
	names := append([]string(nil), s05Required...)
	for _, f := range vJSONFields(&m05ArbKid) {
		n := strings.Split(f, "|")[1]
		dup := false
		for _, x := range names {
			if x == n {
				dup = true
			}
		}
		if !dup {
			names = append(names, n)
		}
	}
	m05ArbPresent = map[string]bool{}
	for _, n := range names {
		m05ArbPresent[n] = vNondetBool(tag+"present-" + n)
	}
	m05NullVer = vNondetBool(tag + "ver-is-null")
	text := "arbitrary"
	if vIsNative() {
		text = h05NativeText()
	}
	var k *KeyID
	var err error
	crashed := vCatch(func() { k, err = Unmarshal(text) })
	vAssert(!crashed, "C05.unmarshal-no-crash")
	vCover(err == nil, "C05.decode.ok")
	vCover(err != nil, "C05.decode.refused")
	vCover(vAnd(err != nil, vAnd(!m05ArbErr, m05ArbKid.Version != 1)), "C05.decode.version-refused")
	vCover(vAnd(err != nil, vAnd(!m05ArbErr, vAnd(m05ArbKid.Version == 1, !m05ArbPresent["isNonce"]))), "C05.decode.missing-key")
	if err != nil {
		vAssert(k == nil, "C05.decode-error-returns-nil")
		return
	}
	vAssert(k != nil, "C05.decode-ok-returns-value")
	if k == nil {
		return
	}
	vAssert(k.Version == 1, "C05.decode-version-supported")
	vAssert(vAnd(!m05NullVer, m05ArbKid.Version == 1), "C05.decode-version-stated-by-the-text")
	for _, n := range s05Required {
		vAssert(m05ArbPresent[n], "C05.decode-required-present:"+n)
	}
	vAssert(s05Consistent(k), "C05.decode-consistent")
}

// h05NativeText builds real JSON with exactly the keys the model marked present.
func h05NativeText() string {
	if m05ArbErr {
		return "{"
	}
	k := &m05ArbKid
	all := map[string]any{
		"prins": k.Principals, "transID": k.TransID, "reqUser": k.ReqUser, "reqIP": k.ReqIP, "reqHost": k.ReqHost,
		"isFirefighter": k.IsFirefighter, "isHWKey": k.IsHWKey, "isHeadless": k.IsHeadless, "isNonce": k.IsNonce,
		"usage": int(k.Usage), "touchPolicy": int(k.TouchPolicy), "ver": k.Version,
	}
	if m05NullVer {
		all["ver"] = nil
	}
	out := map[string]any{}
	for n, v := range all {
		if m05ArbPresent[n] {
			out[n] = v
		}
	}
	b, _ := json.Marshal(out)
	return string(b)
}
