package keyid

// shared by the C05 harness files: the statement's own vocabulary

// the eleven field names of the statement (PROTOCOL / README), independent of requiredKeysByVersion
var s05Required = []string{"prins", "transID", "reqUser", "reqIP", "reqHost", "isFirefighter", "isHWKey", "isHeadless", "isNonce", "touchPolicy", "ver"}

func s05Consistent(k *KeyID) bool {
	h := vImplies(k.IsHeadless, vAnd(vAnd(!k.IsHWKey, !k.IsFirefighter), k.TouchPolicy == NeverTouch))
	n := vImplies(k.IsNonce, vAnd(vAnd(!k.IsFirefighter, !k.IsHeadless), k.TouchPolicy == NeverTouch))
	return vAnd(h, n)
}

