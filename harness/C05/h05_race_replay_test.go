package PKGNAME

// Native confirmation for H05_concurrent_callers: many goroutines encode and
// decode the same KeyID under `go test -race`; a data race report (seen by
// the driver in the output) or a wrong result confirms the counterexample.

import (
	"fmt"
	"runtime"
	"sync"
	"sync/atomic"
	"testing"
	"time"
)

func TestVsymReplay(t *testing.T) {
	mk := func(i int) *KeyID {
		return &KeyID{Principals: []string{fmt.Sprintf("p%d", i)}, TransID: fmt.Sprintf("t%d", i), ReqUser: "u", ReqIP: "1.2.3.4", ReqHost: "h",
			IsHWKey: true, TouchPolicy: TouchPolicy(2), Version: 1}
	}
	var want []string
	for i := 0; i < 4; i++ {
		s, err := mk(i).Marshal()
		if err != nil {
			fmt.Println("VSYM-REPLAY: NOT-REPRODUCED the fixture does not encode:", err)
			return
		}
		want = append(want, s)
	}
	var bad atomic.Value
	deadline := time.Now().Add(4 * time.Second)
	var wg sync.WaitGroup
	for g := 0; g < 4*runtime.GOMAXPROCS(0); g++ {
		wg.Add(1)
		go func(g int) {
			defer wg.Done()
			defer func() {
				if p := recover(); p != nil {
					bad.Store(fmt.Sprint("panic: ", p))
				}
			}()
			i := g % 4
			for time.Now().Before(deadline) && bad.Load() == nil {
				s, err := mk(i).Marshal()
				if err != nil || s != want[i] {
					bad.Store(fmt.Sprintf("Marshal returned %q, %v (want %q)", s, err, want[i]))
					return
				}
				k, err := Unmarshal(want[i])
				if err != nil || k == nil || k.TransID != fmt.Sprintf("t%d", i) {
					bad.Store(fmt.Sprintf("Unmarshal(%q) returned %v, %v", want[i], k, err))
					return
				}
			}
		}(g)
	}
	wg.Wait()
	if m := bad.Load(); m != nil {
		fmt.Println("VSYM-REPLAY: REPRODUCED concurrent callers interfere:", m)
	}
}
