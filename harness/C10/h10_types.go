package key

//vsym:pkg github.com/theparanoids/ysshra/sshutils/key
//vsym:entry H10_certificate_types
//vsym:replay same-harness
//vsym:expect-cover C10.types.cert C10.types.plain
//vsym:bound H10_certificate_types: a certificate over a key of every key type OpenSSH certifies (RSA, DSA, ECDSA P-256/384/521, Ed25519, the two security-key types), and the plain key of each type
//vsym:assume (*ssh.Certificate).Type() is x/crypto's own table from key type to certificate type name

import (
	"golang.org/x/crypto/ssh"
)

type m10tKey struct{ typ string }

func (k *m10tKey) Type() string                            { return k.typ }
func (k *m10tKey) Marshal() []byte                         { return []byte(k.typ) }
func (k *m10tKey) Verify(d []byte, s *ssh.Signature) error { return nil }

// H10_certificate_types: "a certificate whose public key the underlying agent
// lists" - for every kind of certificate, not only RSA ones.
func H10_certificate_types() {
	types := []string{ssh.KeyAlgoRSA, ssh.KeyAlgoDSA, ssh.KeyAlgoECDSA256, ssh.KeyAlgoECDSA384, ssh.KeyAlgoECDSA521, ssh.KeyAlgoED25519, ssh.KeyAlgoSKECDSA256, ssh.KeyAlgoSKED25519}
	k := &m10tKey{typ: types[vChoose(len(types), "key-type")]}
	c := &ssh.Certificate{Key: k}
	got, err := CastSSHPublicKeyToCertificate(c)
	vAssert(err == nil && got == c, "C10.every-certificate-type-is-a-certificate")
	vReach("C10.types.cert")
	_, err2 := CastSSHPublicKeyToCertificate(k)
	vAssert(err2 != nil, "C10.a-plain-key-is-not-a-certificate")
	vReach("C10.types.plain")
}
