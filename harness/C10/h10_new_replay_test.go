package PKGNAME

// Native replay of H10_new counterexamples: a real unix socket served by
// x/crypto's agent server over an agent whose List fails, then the real New.

import (
	"encoding/json"
	"errors"
	"fmt"
	"net"
	"os"
	"path/filepath"
	"testing"

	"golang.org/x/crypto/ssh"
	"golang.org/x/crypto/ssh/agent"
)

type rFailingAgent struct {
	agent.Agent
	failList bool
}

func (a rFailingAgent) List() ([]*agent.Key, error) {
	if a.failList {
		return nil, errors.New("scripted list failure")
	}
	return a.Agent.List()
}
func (a rFailingAgent) Signers() ([]ssh.Signer, error) { return nil, nil }

func TestVsymReplay(t *testing.T) {
	var rp struct {
		Facts map[string]string `json:"facts"`
		Kind  string            `json:"kind"`
		Label string            `json:"label"`
	}
	b, err := os.ReadFile(os.Getenv("VSYM_REPLAY"))
	if err != nil {
		t.Fatal(err)
	}
	json.Unmarshal(b, &rp)
	dir, _ := os.MkdirTemp("", "vsym-c10")
	defer os.RemoveAll(dir)
	sock := filepath.Join(dir, "agent.sock")
	l, err := net.Listen("unix", sock)
	if err != nil {
		t.Fatal(err)
	}
	defer l.Close()
	go func() {
		for {
			c, err := l.Accept()
			if err != nil {
				return
			}
			go agent.ServeAgent(rFailingAgent{Agent: agent.NewKeyring(), failList: rp.Facts["first-list-fails"] == "true"}, c)
		}
	}()
	outcome := "NOT-REPRODUCED"
	func() {
		defer func() {
			if p := recover(); p != nil {
				outcome = fmt.Sprintf("REPRODUCED PANIC %v", p)
			}
		}()
		sa, err := New(Option{Address: sock, NoUpstream: rp.Facts["no-upstream"] == "true"})
		if rp.Facts["first-list-fails"] == "true" && rp.Facts["no-upstream"] == "true" && err == nil {
			outcome = "REPRODUCED construction failure did not surface as an error"
		}
		_ = sa
	}()
	fmt.Println("VSYM-REPLAY:", outcome)
}
