package shimagent

//vsym:pkg github.com/theparanoids/ysshra/agent/shimagent
//vsym:include shim/world.go
//vsym:include shim/peek.go || shim/peek_bb.go
//vsym:entry H10_addhardcert
//vsym:entry H10_passthrough
//vsym:entry H10_forward
//vsym:entry H10_faults
//vsym:replay same-harness
//vsym:max-len 4
//vsym:expect-cover C10.hw-accepted C10.hw-refused-no-key C10.hw-refused-not-cert C10.hw-sign-forwarded C10.hw-removed C10.listed-once C10.forward-ok C10.forward-too-large C10.forward-short C10.fault-surfaces
//vsym:bound H10_addhardcert: upstream holding 0..2 identities (either of two plain keys, a certificate over key 1); candidate = certificate over key 1 or 2 with symbolic window containing the symbolic clock, a plain key, or nil; sign data of 2 symbolic bytes, flags symbolic
//vsym:bound H10_forward: request of 0..3 symbolic bytes; reply with an arbitrary 32-bit declared length and 0..4 available body bytes, or a failing write/read
//vsym:bound H10_faults: one operation out of List, Signers, Sign, Add, Remove, RemoveAll, AddHardCert, Lock, Unlock, Extension, Sign / SignWithFlags (symbolic flags) with the in-memory hardware certificate, with the k-th upstream call failing, k in 0..2

import (
	"errors"
	"io"

	"golang.org/x/crypto/ssh"
	"golang.org/x/crypto/ssh/agent"
)


func h10Clock() {
	mwClock = vNondetI64("now")
	vAssume(vAnd(mwClock >= 0, mwClock < 1<<62))
}

func h10Valid(key int, decodes bool) *ssh.Certificate {
	va, vb := vNondetU64("valid-after"), vNondetU64("valid-before")
	vAssume(vAnd(va <= uint64(mwClock), uint64(mwClock) < vb))
	return mwNewCert(key, va, vb, decodes)
}

func H10_addhardcert() {
	h10Clock()
	up := &mwUpstream{failAt: -1}
	s := mwNewServer(up, vChoose(2, "no-upstream-mode") == 1)
	has := [3]bool{}
	nu := vChoose(3, "upstream")
	for i := 0; i < nu; i++ {
		switch vChoose(3, "upstream-kind") {
		case 0, 1:
			k := 1 + vChoose(2, "which-key")
			if has[k] {
				vAssume(false)
			}
			has[k] = true
			mwUpKey(up, k, "k")
		case 2:
			c := h10Valid(1, false)
			mwUpCert(up, c, "c")
		}
	}
	cand := vChoose(4, "candidate")
	var key ssh.PublicKey
	var crt *ssh.Certificate
	switch cand {
	case 0, 1:
		crt = h10Valid(cand+1, false)
		key = crt
	case 2:
		key = mwPlainKey(1)
	case 3:
		key = nil
	}
	var err error
	var callerBlob []byte
	if crt != nil && vChoose(2, "as-agent-key") == 1 {
		// the way a served request arrives: format + blob in a buffer the caller owns
		callerBlob = append([]byte(nil), mwCertMarshal(crt)...)
		format := mwCertFormat
		if vIsNative() {
			format = crt.Type()
		}
		key = &agent.Key{Format: format, Blob: callerBlob}
	}
	crashed := vCatch(func() { err = s.AddHardCert(key, "hw") })
	vAssert(!crashed, "C10.no-crash")
	// the caller reuses its buffer once the call has returned
	for i := range callerBlob {
		callerBlob[i] = 0xAA
	}
	vAssert(mwInv(s), "C10.table-invariant-preserved")
	if crt == nil {
		vAssert(err != nil, "C10.only-certificates-are-accepted")
		vAssert(!mwPeek || mwMemLen(s) == 0, "C10.refused-candidate-not-stored")
		vReach("C10.hw-refused-not-cert")
		return
	}
	held := has[cand+1]
	vAssert(vIff(err == nil, held), "C10.accepted-iff-its-key-is-currently-listed")
	if !held {
		vAssert(!mwPeek || !mwMemHas(s, crt), "C10.refused-candidate-not-stored")
		vReach("C10.hw-refused-no-key")
		return
	}
	vAssert(!mwPeek || mwMemHas(s, crt), "C10.accepted-certificate-stored")
	vReach("C10.hw-accepted")
	// adding it again is a no-op
	n0, calls0 := mwMemLen(s), up.calls
	err = s.AddHardCert(crt, "other")
	vAssert(err == nil && mwMemLen(s) == n0 && up.calls == calls0, "C10.adding-again-is-a-no-op")
	// it is listed
	l, lerr := s.List()
	vAssert(lerr == nil, "C10.list-ok")
	found := 0
	for _, k := range l {
		if string(k.Blob) == string(mwCertMarshal(crt)) {
			found++
		}
	}
	vAssert(found == 1, "C10.hardware-certificate-listed-once")
	// signing is forwarded with the plain key, same data, same flags, result unchanged
	data := vNondetBytes("data", 2)
	flags := agent.SignatureFlags(vNondetU32("flags"))
	nreq := len(up.signReq)
	sig, serr := s.SignWithFlags(crt, data, flags)
	vAssert(serr == nil && sig != nil, "C10.sign-with-hardware-certificate")
	vAssert(len(up.signReq) == nreq+1, "C10.sign-forwarded-once")
	if len(up.signReq) == nreq+1 {
		r := up.signReq[nreq]
		vAssert(string(r.blob) == string(crt.Key.Marshal()), "C10.sign-forwarded-under-the-plain-key")
		vAssert(len(r.data) == 2 && vEqBytes(r.data, data), "C10.sign-forwards-the-same-data")
		vAssert(r.flags == flags, "C10.sign-forwards-the-same-flags")
		if sig != nil {
			vAssert(string(sig.Blob) == "s"+string(crt.Key.Marshal()), "C10.signature-returned-unchanged")
		}
		vReach("C10.hw-sign-forwarded")
	}
	// removal — also when the underlying agent holds the very same certificate
	if vChoose(2, "also-held-upstream") == 1 {
		mwUpCert(up, crt, "dup")
	}
	if vChoose(2, "remove-all") == 1 {
		vAssert(s.RemoveAll() == nil, "C10.removeall")
	} else {
		vAssert(s.Remove(crt) == nil, "C10.remove-hardware-certificate")
	}
	vAssert(!mwPeek || !mwMemHas(s, crt), "C10.removed-certificate-disappears")
	vAssert(!up.has(mwCertMarshal(crt)), "C10.removed-certificate-disappears-upstream")
	l, _ = s.List()
	for _, k := range l {
		vAssert(string(k.Blob) != string(mwCertMarshal(crt)), "C10.removed-certificate-disappears")
	}
	vReach("C10.hw-removed")
}

func H10_passthrough() {
	h10Clock()
	up := &mwUpstream{failAt: -1}
	s := mwNewServer(up, false)
	nu := vChoose(4, "upstream")
	var blobs [][]byte
	for i := 0; i < nu; i++ {
		if i < 2 && vChoose(2, "plain") == 1 {
			mwUpKey(up, i+1, vNondetString("comment", 1))
			blobs = append(blobs, mwKeyBlob(i+1))
		} else {
			c := h10Valid(1+vChoose(2, "cert-key"), vChoose(2, "decodes") == 1)
			mwUpCert(up, c, vNondetString("comment", 1))
			blobs = append(blobs, mwCertMarshal(c))
		}
	}
	l, err := s.List()
	vAssert(err == nil, "C10.list-ok")
	vAssert(len(l) == nu, "C10.neither-loses-nor-duplicates")
	for _, b := range blobs {
		n := 0
		for _, k := range l {
			if string(k.Blob) == string(b) {
				n++
			}
		}
		vAssert(n == 1, "C10.every-upstream-identity-listed-once-with-unchanged-blob")
	}
	if nu > 0 {
		vReach("C10.listed-once")
	}
	sg, err := s.Signers()
	vAssert(err == nil && len(sg) == nu, "C10.signers-neither-lose-nor-duplicate")
	// add / remove reach the underlying agent with the same argument
	ak := agent.AddedKey{Comment: vNondetString("added", 1), LifetimeSecs: vNondetU32("lifetime")}
	vAssert(s.Add(ak) == nil, "C10.add-ok")
	vAssert(len(up.added) == 1 && vEqString(up.added[0].Comment, ak.Comment) && up.added[0].LifetimeSecs == ak.LifetimeSecs, "C10.add-reaches-the-underlying-agent-unchanged")
	if nu > 0 {
		w := vChoose(nu, "remove-which")
		key, _ := ssh.ParsePublicKey(blobs[w])
		vAssert(s.Remove(key) == nil, "C10.remove-ok")
		vAssert(!up.has(blobs[w]) && len(up.ids) == nu-1, "C10.remove-has-the-same-effect-as-on-the-underlying-agent")
	}
}

// connection model for Forward
type m10Conn struct {
	in, out   []byte
	pos       int
	failWrite int // 1-based index of the failing Write, 0 none
	writes    int
}

func (c *m10Conn) Read(p []byte) (int, error) {
	if c.pos >= len(c.in) {
		return 0, io.EOF
	}
	n := copy(p, c.in[c.pos:])
	c.pos += n
	return n, nil
}
func (c *m10Conn) Write(p []byte) (int, error) {
	c.writes++
	if c.failWrite == c.writes {
		return 0, errors.New("model: write failed")
	}
	c.out = append(c.out, p...)
	return len(p), nil
}
func (c *m10Conn) Close() error { return nil }

func H10_forward() {
	vAllocWatch()
	vMaxLen(4)
	up := &mwUpstream{failAt: -1}
	req := vNondetBytes("req", vChoose(4, "req-len"))
	conn := &m10Conn{failWrite: vChoose(3, "failing-write")}
	hdr := vNondetBytes("reply-len", 4)
	avail := vChoose(5, "reply-body")
	body := vNondetBytes("reply", avail)
	conn.in = append(append([]byte(nil), hdr...), body...)
	// the server talks to the underlying agent through this connection: under
	// vsym it is what connection.GetConn returns, natively it is put in place
	if !vIsNative() {
		mwNextConn = conn
	}
	s := mwNewServer(up, false)
	if vIsNative() {
		mwSetConn(s, conn)
	}
	var resp []byte
	var err error
	crashed := vCatch(func() { resp, err = s.Forward(req) })
	vAssert(!crashed, "C10.no-crash")
	if crashed {
		return
	}
	if conn.failWrite != 0 {
		vAssert(err != nil, "C10.failed-write-is-an-error")
		return
	}
	// the raw request went out as len || req, byte for byte
	vAssert(len(conn.out) == 4+len(req), "C10.forward-relays-exactly-one-frame")
	if len(conn.out) == 4+len(req) {
		vAssert(conn.out[0] == 0 && conn.out[1] == 0 && conn.out[2] == 0 && int(conn.out[3]) == len(req), "C10.forward-frame-length")
		vAssert(vEqBytes(conn.out[4:], req), "C10.forward-relays-byte-for-byte")
	}
	l := uint32(hdr[0])<<24 | uint32(hdr[1])<<16 | uint32(hdr[2])<<8 | uint32(hdr[3])
	vCover(l > 16<<20, "C10.forward-too-large")
	if l > 16<<20 {
		vAssert(err != nil, "C10.oversized-reply-refused")
		return
	}
	if int(l) <= avail {
		vAssert(err == nil && len(resp) == int(l), "C10.forward-returns-the-reply-body")
		if err == nil && len(resp) == int(l) {
			vAssert(vEqBytes(resp, body[:len(resp)]), "C10.forward-reply-byte-for-byte")
			// the reply is the caller's: a later forwarded request (of this or
			// another client) must not write into it
			kept := append([]byte(nil), resp...)
			vFreeze("C10.relayed-reply-not-overwritten-by-a-later-request", resp)
			conn.in = append(conn.in[:0:0], 0, 0, 0, byte(len(resp)))
			for i := 0; i < len(resp); i++ {
				conn.in = append(conn.in, 0x5A)
			}
			conn.pos = 0
			r2, err2 := s.Forward([]byte{200})
			vCheckFrozen()
			vThaw()
			vAssert(err2 == nil && len(r2) == len(resp), "C10.second-forward-ok")
			vAssert(vEqBytes(resp, kept), "C10.relayed-reply-not-overwritten-by-a-later-request")
		}
		vReach("C10.forward-ok")
	} else {
		vAssert(err != nil, "C10.short-reply-is-an-error")
		vReach("C10.forward-short")
	}
}

func H10_faults() {
	h10Clock()
	up := &mwUpstream{failAt: -1}
	s := mwNewServer(up, vChoose(2, "no-upstream-mode") == 1)
	mwUpKey(up, 1, "k")
	upc := h10Valid(1, vChoose(2, "up-decodes") == 1)
	mwUpCert(up, upc, "c")
	mem := h10Valid(1, false)
	mwPutMem(s, mem)
	lockedFirst := false
	op := vChoose(12, "operation")
	if op == 8 {
		vAssume(s.Lock([]byte("p")) == nil)
		lockedFirst = true
	}
	up.failAt = up.calls + vChoose(3, "failing-call")
	var err error
	crashed := vCatch(func() {
		switch op {
		case 0:
			_, err = s.List()
		case 1:
			_, err = s.Signers()
		case 2:
			_, err = s.Sign(mwPlainKey(1), []byte("d"))
		case 3:
			err = s.Add(agent.AddedKey{Comment: "x"})
		case 4:
			err = s.Remove(mwPlainKey(1))
		case 5:
			err = s.RemoveAll()
		case 6:
			err = s.AddHardCert(h10Valid(1, false), "hw")
		case 7:
			err = s.Lock([]byte("p"))
		case 8:
			err = s.Unlock([]byte("p"))
		case 9:
			_, err = s.Extension("ext", []byte("c"))
		case 10:
			// signing with the in-memory hardware certificate itself
			_, err = s.Sign(mem, []byte("d"))
		case 11:
			_, err = s.SignWithFlags(mem, []byte("d"), agent.SignatureFlags(vNondetU32("flags")))
		}
	})
	vAssert(!crashed, "C10.no-crash")
	vAssert(mwInv(s), "C10.table-invariant-preserved")
	if op == 6 && err != nil {
		// a refused registration leaves nothing behind: the candidate is
		// neither in the table nor in a later listing
		vAssert(!mwPeek || mwMemLen(s) == 1, "C10.failed-registration-registers-nothing")
		up.failAt = -1
		l, lerr := s.List()
		n := 0
		for _, k := range l {
			if mwCertByBlob(k.Blob) != nil && string(k.Blob) != string(mwCertMarshal(mem)) && string(k.Blob) != string(mwCertMarshal(upc)) {
				n++
			}
		}
		vAssert(lerr != nil || n == 0, "C10.failed-registration-registers-nothing")
	}
	if up.failed {
		// the failing call was reached.  It surfaces as an error unless it was
		// the tolerated removal of a certificate also held in memory.
		tolerated := len(up.log) > 0 && len(up.log[len(up.log)-1]) > 7 && up.log[len(up.log)-1][:7] == "Remove:"
		if !tolerated {
			vAssert(err != nil, "C10.underlying-failure-surfaces-as-an-error")
			vReach("C10.fault-surfaces")
		}
	}
	// a still-valid, non-orphan in-memory certificate is never discarded by a failure
	if op != 5 && !lockedFirst {
		vAssert(!mwPeek || mwMemHas(s, mem), "C10.failure-never-discards-a-valid-in-memory-certificate")
	}
}

