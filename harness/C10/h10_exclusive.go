package shimagent

//vsym:pkg github.com/theparanoids/ysshra/agent/shimagent
//vsym:include shim/world.go
//vsym:include shim/peek.go || shim/peek_bb.go
//vsym:include C11/h11.go
//vsym:entry H10_one_exchange_at_a_time_on_the_agent_connection
//vsym:replay adapter ../C11/h11_replay_test.go race
//vsym:expect-cover C11.traced
//vsym:bound H10_one_exchange_at_a_time_on_the_agent_connection: a relayed request and its reply are one exchange on the single connection to the underlying agent: no two operations of the shim (a relay among them) can have their exchanges interleaved, or the reply bytes one client gets are not the underlying agent's answer to its request - bounds of C11's H11_traces and its pairwise schedule queries (an operation paired with itself included)
//vsym:assume as C11

// "Relayed byte for byte" and "same effect as on the underlying agent" rest
// on every exchange with the underlying agent being exclusive; shared with C11.
func H10_one_exchange_at_a_time_on_the_agent_connection() { H11_traces() }
