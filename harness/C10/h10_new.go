package shimagent

//vsym:pkg github.com/theparanoids/ysshra/agent/shimagent
//vsym:include shim/world.go
//vsym:include shim/peek.go || shim/peek_bb.go
//vsym:entry H10_new
//vsym:model golang.org/x/crypto/ssh/agent.NewClient m10nNewClient
//vsym:model github.com/theparanoids/ysshra/agent/ssh/connection.GetConn m10GetConn
//vsym:replay adapter h10_new_replay_test.go
//vsym:expect-cover C10.new-ok C10.new-dial-fails C10.new-list-fails
//vsym:bound H10_new: both modes; connection.GetConn fails or succeeds; the first upstream List fails or succeeds

import (
	"errors"
	"net"

	"golang.org/x/crypto/ssh/agent"
)

var m10nUp *mwUpstream
var m10DialFails bool

func m10nNewClient(rw interface{ Read([]byte) (int, error); Write([]byte) (int, error) }) agent.ExtendedAgent {
	return m10nUp
}

func h10nClock() {
	mwClock = vNondetI64("now")
	vAssume(vAnd(mwClock >= 0, mwClock < 1<<62))
}

type m10NetConn struct {
	net.Conn
	c *mwConn
}

func (n *m10NetConn) Read(p []byte) (int, error)  { return n.c.Read(p) }
func (n *m10NetConn) Write(p []byte) (int, error) { return n.c.Write(p) }
func (n *m10NetConn) Close() error                { return n.c.Close() }

func m10GetConn(addr string) (net.Conn, error) {
	if m10DialFails {
		return nil, errors.New("model: cannot connect")
	}
	return &m10NetConn{c: &mwConn{}}, nil
}

func H10_new() {
	h10nClock()
	m10DialFails = vChoose(2, "dial-fails") == 1
	up := &mwUpstream{failAt: -1}
	if vChoose(2, "first-list-fails") == 1 {
		up.failAt = 0
	}
	mwUpKey(up, 1, "k")
	m10nUp = up
	noUp := vChoose(2, "no-upstream-mode") == 1
	vFact("no-upstream", noUp)
	vFact("first-list-fails", up.failAt == 0)
	var sa ShimAgent
	var err error
	crashed := vCatch(func() { sa, err = New(Option{Address: "/sock", NoUpstream: noUp}) })
	vAssert(!crashed, "C10.construction-never-crashes")
	if crashed {
		return
	}
	if m10DialFails {
		vAssert(err != nil, "C10.connection-failure-is-an-error")
		vReach("C10.new-dial-fails")
		return
	}
	if noUp && up.failAt == 0 {
		vAssert(err != nil, "C10.construction-failure-surfaces-as-an-error")
		vReach("C10.new-list-fails")
		return
	}
	vAssert(err == nil && sa != nil, "C10.construction-succeeds")
	if err == nil && sa != nil {
		l, lerr := sa.List()
		if up.failed || up.failAt == 0 {
			_ = lerr
		} else {
			vAssert(lerr == nil && len(l) == 1, "C10.constructed-agent-lists-upstream")
		}
		vReach("C10.new-ok")
	}
}
