package yubiagent

//vsym:pkg github.com/theparanoids/ysshra/agent/yubiagent
//vsym:entry H13_passthrough
//vsym:model golang.org/x/crypto/ssh/agent.NewClient m13pNewClient
//vsym:model crypto/rand.Read m13pRandRead
//vsym:replay none
//vsym:expect-cover C13.pass.ok C13.pass.error
//vsym:bound H13_passthrough: a client built by NewClientFromConn; each of List, Sign, SignWithFlags (flags symbolic), Add, Remove, RemoveAll, Lock, Unlock (passphrase of 0..2 symbolic bytes), Signers, Extension (contents of 0..2 symbolic bytes) once, the ssh-agent protocol client behind it (x/crypto) replaced by a recorder that succeeds or fails
//vsym:assume x/crypto's agent client (agent.NewClient) is a recording model: what it is asked is what goes over the wire to the served agent; that wire encoding itself is x/crypto's

import (
	"errors"
	"net"

	"golang.org/x/crypto/ssh"
	sshagent "golang.org/x/crypto/ssh/agent"
)

type m13pCall struct {
	op    string
	key   ssh.PublicKey
	data  []byte
	flags sshagent.SignatureFlags
	added sshagent.AddedKey
	text  string
}

type m13pRec struct {
	calls []m13pCall
	fail  bool
	sig   *ssh.Signature
	keys  []*sshagent.Key
	sgs   []ssh.Signer
	ext   []byte
}

var m13pErr = errors.New("model: the served agent refuses")

func (r *m13pRec) res() error {
	if r.fail {
		return m13pErr
	}
	return nil
}
func (r *m13pRec) log(c m13pCall) {
	// one request/reply exchange on the client's single connection
	vAccess("wr", "client.conn")
	c.data = append([]byte(nil), c.data...)
	r.calls = append(r.calls, c)
}
func (r *m13pRec) List() ([]*sshagent.Key, error) {
	r.log(m13pCall{op: "List"})
	return r.keys, r.res()
}
func (r *m13pRec) Sign(k ssh.PublicKey, d []byte) (*ssh.Signature, error) {
	r.log(m13pCall{op: "Sign", key: k, data: d})
	return r.sig, r.res()
}
func (r *m13pRec) SignWithFlags(k ssh.PublicKey, d []byte, f sshagent.SignatureFlags) (*ssh.Signature, error) {
	r.log(m13pCall{op: "SignWithFlags", key: k, data: d, flags: f})
	return r.sig, r.res()
}
func (r *m13pRec) Add(k sshagent.AddedKey) error      { r.log(m13pCall{op: "Add", added: k}); return r.res() }
func (r *m13pRec) Remove(k ssh.PublicKey) error       { r.log(m13pCall{op: "Remove", key: k}); return r.res() }
func (r *m13pRec) RemoveAll() error                   { r.log(m13pCall{op: "RemoveAll"}); return r.res() }
func (r *m13pRec) Lock(p []byte) error                { r.log(m13pCall{op: "Lock", data: p}); return r.res() }
func (r *m13pRec) Unlock(p []byte) error              { r.log(m13pCall{op: "Unlock", data: p}); return r.res() }
func (r *m13pRec) Signers() ([]ssh.Signer, error)     { r.log(m13pCall{op: "Signers"}); return r.sgs, r.res() }
func (r *m13pRec) Extension(t string, c []byte) ([]byte, error) {
	r.log(m13pCall{op: "Extension", text: t, data: c})
	return r.ext, r.res()
}

var m13pCur *m13pRec

// crypto/rand.Read: arbitrary bytes
func m13pRandRead(b []byte) (int, error) {
	copy(b, vNondetBytes("random", len(b)))
	return len(b), nil
}

func m13pNewClient(rw interface {
	Read([]byte) (int, error)
	Write([]byte) (int, error)
}) sshagent.ExtendedAgent {
	return m13pCur
}

type m13pKey struct{ id byte }

func (k *m13pKey) Type() string                             { return "ssh-rsa-cert-v01@openssh.com" }
func (k *m13pKey) Marshal() []byte                          { return []byte{'k', k.id} }
func (k *m13pKey) Verify(d []byte, s *ssh.Signature) error  { return nil }

type m13pConn struct{ net.Conn }

// H13_passthrough: the ssh-agent operations of the client reach the served
// agent with exactly the caller's arguments and come back with exactly its
// answers; the caller's buffers are left alone.
func H13_passthrough() {
	rec := &m13pRec{fail: vChoose(2, "served-agent-refuses") == 1, sig: &ssh.Signature{Format: "f", Blob: []byte{1}},
		keys: []*sshagent.Key{{Format: "x", Blob: []byte{2}}}, ext: []byte{3}}
	m13pCur = rec
	y, err := NewClientFromConn(&m13pConn{})
	vAssert(err == nil && y != nil, "C13.client-constructed")
	if err != nil || y == nil {
		return
	}
	key := &m13pKey{id: vNondetU8("key")}
	buf := vNondetBytes("buffer", vChoose(3, "buffer-len"))
	buf0 := append([]byte(nil), buf...)
	flags := sshagent.SignatureFlags(vNondetU32("flags"))
	ops := []string{"List", "Sign", "SignWithFlags", "Add", "Remove", "RemoveAll", "Lock", "Unlock", "Signers", "Extension"}
	op := ops[vChoose(len(ops), "operation")]
	added := sshagent.AddedKey{Comment: "c", LifetimeSecs: vNondetU32("lifetime"), ConfirmBeforeUse: vNondetBool("confirm")}
	vFreeze("C13.caller-buffers-left-alone", buf)
	// the extension requests of this client use the same connection under
	// the client's lock: so must these (its mutex is "client.<field>")
	vWatchAll(y, "client")
	vTraceReset()
	var gotErr error
	var gotSig *ssh.Signature
	var gotKeys []*sshagent.Key
	var gotSgs []ssh.Signer
	var gotExt []byte
	switch op {
	case "List":
		gotKeys, gotErr = y.List()
	case "Sign":
		gotSig, gotErr = y.Sign(key, buf)
	case "SignWithFlags":
		gotSig, gotErr = y.SignWithFlags(key, buf, flags)
	case "Add":
		gotErr = y.Add(added)
	case "Remove":
		gotErr = y.Remove(key)
	case "RemoveAll":
		gotErr = y.RemoveAll()
	case "Lock":
		gotErr = y.Lock(buf)
	case "Unlock":
		gotErr = y.Unlock(buf)
	case "Signers":
		gotSgs, gotErr = y.Signers()
	case "Extension":
		gotExt, gotErr = y.Extension("ext@x", buf)
	}
	vTraceCheckAtomic(op, "client.*")
	vTraceEmit("client." + op)
	vCheckFrozen()
	vThaw()
	vAssert(vEqBytes(buf, buf0), "C13.caller-buffers-left-alone")
	vAssert(len(rec.calls) == 1 && rec.calls[0].op == op, "C13.one-request-of-the-same-kind-reaches-the-served-agent")
	if len(rec.calls) != 1 {
		return
	}
	c := rec.calls[0]
	switch op {
	case "Sign", "SignWithFlags", "Remove":
		vAssert(c.key == ssh.PublicKey(key), "C13.same-key")
	}
	switch op {
	case "Sign", "SignWithFlags", "Lock", "Unlock", "Extension":
		vAssert(len(c.data) == len(buf0) && vEqBytes(c.data, buf0), "C13.same-bytes")
	}
	if op == "SignWithFlags" {
		vAssert(c.flags == flags, "C13.same-signature-flags")
	}
	if op == "Add" {
		vAssert(c.added.Comment == "c" && c.added.LifetimeSecs == added.LifetimeSecs && c.added.ConfirmBeforeUse == added.ConfirmBeforeUse, "C13.same-added-key")
	}
	if op == "Extension" {
		vAssert(c.text == "ext@x", "C13.same-extension-type")
	}
	// the served agent's answer comes back unchanged
	vAssert((gotErr != nil) == rec.fail, "C13.served-agents-verdict-returned")
	switch op {
	case "List":
		vAssert(len(gotKeys) == 1 && gotKeys[0] == rec.keys[0], "C13.served-agents-answer-returned")
	case "Sign", "SignWithFlags":
		vAssert(gotSig == rec.sig, "C13.served-agents-answer-returned")
	case "Signers":
		vAssert(len(gotSgs) == len(rec.sgs), "C13.served-agents-answer-returned")
	case "Extension":
		vAssert(len(gotExt) == 1 && gotExt[0] == 3, "C13.served-agents-answer-returned")
	}
	if rec.fail {
		vReach("C13.pass.error")
	} else {
		vReach("C13.pass.ok")
	}
}
