package yubiagent

//vsym:pkg github.com/theparanoids/ysshra/agent/yubiagent
//vsym:include yubiagent/ctor.go || yubiagent/ctor_bb.go
//vsym:entry H13_listslots
//vsym:entry H13_listslots_order
//vsym:entry H13_remote
//vsym:model os/exec.Command m13Command
//vsym:model (*os/exec.Cmd).Output m13Output
//vsym:replay same-harness
//vsym:expect-cover C13.slots.three C13.slots.none C13.slots.one C13.slots.tool-error C13.remote.refused
//vsym:thorough-expect-cover C13.slots.two
//vsym:bound H13_listslots: tool output of 0..8 (thorough 0..15) symbolic bytes, or a tool failure
//vsym:assume os/exec is modelled: Command/Output return the harness-chosen output or error and log the invocation; replay uses a real script on disk

import (
	"errors"
	"fmt"
	"os"
	"os/exec"
	"path/filepath"
)

var m13Out []byte
var m13Fail bool
var m13Runs int
var m13Args []string

func m13Command(name string, arg ...string) *exec.Cmd {
	m13Args = append([]string{name}, arg...)
	return new(exec.Cmd)
}

func m13Output(c *exec.Cmd) ([]byte, error) {
	m13Runs++
	if m13Fail {
		return nil, errors.New("model: tool failed")
	}
	return append([]byte(nil), m13Out...), nil
}

// h13Tool: natively, a real executable printing exactly m13Out (or failing).
func h13Tool() string {
	dir, err := os.MkdirTemp("", "vsym-piv")
	if err != nil {
		panic(err)
	}
	data := filepath.Join(dir, "out.bin")
	os.WriteFile(data, m13Out, 0o600)
	script := "#!/bin/sh\ncat " + data + "\n"
	if m13Fail {
		script = "#!/bin/sh\nexit 3\n"
	}
	p := filepath.Join(dir, "yubico-piv-tool")
	os.WriteFile(p, []byte(script), 0o700)
	return p
}

// H13_listslots_order: several slots, reported in the order the tool printed
// them (realistic status output: header lines, indented detail lines, a last
// line with or without newline).
func H13_listslots_order() {
	m13Fail = false
	a, b, c := vNondetString("slot-a", 2), vNondetString("slot-b", 2), vNondetString("slot-c", 2)
	for _, s := range []string{a, b, c} {
		vAssume(vAnd(s[0] != '\n', s[1] != '\n'))
	}
	out := "Version:\t5.2.7\nSlot " + a + ":\t\n\tAlgorithm:\tRSA2048\n\tSlot usage: x\nSlot " + b + ":\n\tAlgorithm:\tECCP256\nSlot " + c + ":"
	if vChoose(2, "final-newline") == 1 {
		out += "\n"
	}
	m13Out = []byte(out)
	tool := "/model/yubico-piv-tool"
	if vIsNative() {
		tool = h13Tool()
		defer os.RemoveAll(filepath.Dir(tool))
	}
	s := ygNewServer(nil, tool, false)
	var slots []string
	var err error
	crashed := vCatch(func() { slots, err = s.ListSlots() })
	vAssert(!crashed && err == nil, "C13.listslots-ok")
	if crashed || err != nil {
		return
	}
	vAssert(len(slots) == 3, "C13.listslots-count")
	if len(slots) == 3 {
		vAssert(vAnd(vEqString(slots[0], a), vAnd(vEqString(slots[1], b), vEqString(slots[2], c))), "C13.listslots-two-chars-in-order")
	}
	vReach("C13.slots.three")
}

func H13_listslots() {
	maxOut := 8
	if vThorough() {
		maxOut = 15
	}
	m13Fail = vChoose(2, "tool-fails") == 1
	n := 0
	if !m13Fail {
		n = vChoose(maxOut+1, "output-len")
	}
	m13Out = vNondetBytes("out", n)
	tool := "/model/yubico-piv-tool"
	if vIsNative() {
		tool = h13Tool()
		defer os.RemoveAll(filepath.Dir(tool))
	}
	s := ygNewServer(nil, tool, false)
	var slots []string
	var err error
	crashed := vCatch(func() { slots, err = s.ListSlots() })
	vFact("output-len", n)
	vAssert(!crashed, "C13.listslots-no-crash")
	if crashed {
		return
	}
	if m13Fail {
		vAssert(err != nil, "C13.listslots-tool-failure-is-error")
		vReach("C13.slots.tool-error")
		return
	}
	vAssert(err == nil, "C13.listslots-ok")
	// oracle: scan lines independently
	var want []string
	start := 0
	for i := 0; i <= n; i++ {
		if i == n || m13Out[i] == '\n' {
			line := m13Out[start:i]
			if len(line) >= 7 && line[0] == 'S' && line[1] == 'l' && line[2] == 'o' && line[3] == 't' {
				want = append(want, string(line[5:7]))
			}
			start = i + 1
		}
	}
	vAssert(len(slots) == len(want), "C13.listslots-count")
	if len(slots) == len(want) {
		for i := range want {
			vAssert(vEqString(slots[i], want[i]), "C13.listslots-two-chars-in-order")
		}
	}
	switch len(want) {
	case 0:
		vReach("C13.slots.none")
	case 1:
		vReach("C13.slots.one")
	default:
		vReach("C13.slots.two")
	}
}

func H13_remote() {
	m13Out = []byte("Slot 9a:\n")
	s := ygNewServer(nil, "/model/yubico-piv-tool", true)
	op := vChoose(3, "op")
	var err error
	switch op {
	case 0:
		_, err = s.ListSlots()
	case 1:
		_, err = s.ReadSlot(vNondetString("slot", 2))
	case 2:
		_, err = s.AttestSlot(vNondetString("slot", 2))
	}
	vAssert(err != nil, "C13.remote-refuses-slot-operations")
	if !vIsNative() {
		vAssert(m13Runs == 0, "C13.remote-does-not-run-the-tool")
	}
	vReach("C13.remote.refused")
	_ = fmt.Sprint
}
