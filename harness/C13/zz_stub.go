package yubiagent

// shared stubs for the yubiagent harnesses (included, no entries)

//vsym:pkg github.com/theparanoids/ysshra/agent/yubiagent

import (
	"crypto/x509"
	"errors"
	"io"
	"net"
	"time"

	"golang.org/x/crypto/ssh"
	sshagent "golang.org/x/crypto/ssh/agent"
)

type m12AgentStub struct{}

func (m12AgentStub) List() ([]*sshagent.Key, error)                     { return nil, nil }
func (m12AgentStub) Sign(ssh.PublicKey, []byte) (*ssh.Signature, error) { return nil, errors.New("e") }
func (m12AgentStub) Add(sshagent.AddedKey) error                        { return nil }
func (m12AgentStub) Remove(ssh.PublicKey) error                         { return nil }
func (m12AgentStub) RemoveAll() error                                   { return nil }
func (m12AgentStub) Lock([]byte) error                                  { return nil }
func (m12AgentStub) Unlock([]byte) error                                { return nil }
func (m12AgentStub) Signers() ([]ssh.Signer, error)                     { return nil, nil }
func (m12AgentStub) SignWithFlags(ssh.PublicKey, []byte, sshagent.SignatureFlags) (*ssh.Signature, error) {
	return nil, errors.New("e")
}
func (m12AgentStub) Extension(string, []byte) ([]byte, error)                  { return nil, nil }
func (m12AgentStub) Forward(req []byte) ([]byte, error)                        { return []byte{7}, nil }
func (m12AgentStub) AddHardCert(ssh.PublicKey, string) error                   { return nil }
func (m12AgentStub) Wait(byte) error                                           { return nil }
func (m12AgentStub) Close() error                                              { return nil }
func (m12AgentStub) ListSlots() ([]string, error)                              { return nil, nil }
func (m12AgentStub) ReadSlot(string) (*x509.Certificate, error)                { return nil, errors.New("e") }
func (m12AgentStub) AttestSlot(string) (*x509.Certificate, error)              { return nil, errors.New("e") }
func (m12AgentStub) AddSmartcardKey(string, []byte, time.Duration, bool) error { return nil }
func (m12AgentStub) RemoveSmartcardKey(string, []byte) error                   { return nil }

type m20ClientConn struct {
	net.Conn
	in  []byte
	pos int
	out []byte
}

func (n *m20ClientConn) Read(p []byte) (int, error) {
	if n.pos >= len(n.in) {
		return 0, io.EOF
	}
	k := copy(p, n.in[n.pos:])
	n.pos += k
	return k, nil
}
func (n *m20ClientConn) Write(p []byte) (int, error) { n.out = append(n.out, p...); return len(p), nil }
func (n *m20ClientConn) Close() error                { return nil }
