package yubiagent

//vsym:pkg github.com/theparanoids/ysshra/agent/yubiagent
//vsym:include yubiagent/ctor.go || yubiagent/ctor_bb.go
//vsym:include C13/zz_stub.go
//vsym:entry H13_addhardcert
//vsym:entry H13_addhardcert_sequence
//vsym:entry H13_client_exchange
//vsym:model golang.org/x/crypto/ssh.ParsePublicKey m13ParsePublicKey
//vsym:model golang.org/x/crypto/ssh.Unmarshal m13SSHUnmarshal
//vsym:model golang.org/x/crypto/ssh.Marshal m13SSHMarshal
//vsym:replay none
//vsym:expect-cover C13.addhc.sequence C13.client.exchange C13.addhc.legacy C13.addhc.current C13.addhc.malformed C13.addhc.client-request
//vsym:bound H13_addhardcert: one add-hardware-certificate frame of 1..3 bytes after the type byte (symbolic); the frame is in the legacy format (the bytes after the type byte are a key blob), in the current format (ssh.Unmarshal succeeds, its key blob parses or not), or neither, or a legacy frame that also decodes as the structured request with a blob that is no key; the served agent accepts or refuses; client side: AddHardCert with a symbolic 1-byte comment
//vsym:bound H13_addhardcert_sequence: a current-format request followed by a legacy-format request on the same connection (and the reverse order)
//vsym:bound H13_client_exchange: each extended client operation (AddHardCert, ListSlots, ReadSlot, AttestSlot, Wait, Forward): the request write and the response read on the single connection lie inside one critical section of the client's lock
//vsym:assume ssh.ParsePublicKey / ssh.Unmarshal / ssh.Marshal are modelled: a blob parses to the key object registered for it or fails; a failed ssh.Unmarshal may leave arbitrary data in its destination (the documentation promises nothing on error); no frame is valid in both formats

import (
	"errors"
	"io"

	"golang.org/x/crypto/ssh"
)

type m13Key struct{ tag string }

func (k *m13Key) Type() string                            { return "ssh-model-cert-v01@openssh.com" }
func (k *m13Key) Marshal() []byte                         { return []byte("blob:" + k.tag) }
func (k *m13Key) Verify(d []byte, s *ssh.Signature) error { return nil }

var w13Tail []byte
var w13TailParses, w13UnmarshalOK, w13BlobParses bool
var w13TailKey = &m13Key{tag: "tail"}
var w13BlobKey = &m13Key{tag: "blob"}
var m13Marshalled []interface{}
var m13SeqMode bool

func m13ParsePublicKey(in []byte) (ssh.PublicKey, error) {
	if m13SeqMode {
		// sequence harness: the legacy tail parses, the current frame's tail does not, its blob does
		switch string(in) {
		case string(w13Tail):
			return w13TailKey, nil
		case "\x07":
			return w13BlobKey, nil
		}
		return nil, errors.New("model: not a key")
	}
	if len(in) == len(w13Tail) && vEqBytes(in, w13Tail) {
		if w13TailParses {
			return w13TailKey, nil
		}
		return nil, errors.New("model: not a key")
	}
	if string(in) == "\x07" {
		if w13BlobParses {
			return w13BlobKey, nil
		}
		return nil, errors.New("model: not a key")
	}
	return nil, errors.New("model: unknown blob")
}

func m13SSHUnmarshal(data []byte, out interface{}) error {
	m, ok := out.(*agentAddHardCertReq)
	if !ok {
		return errors.New("model: unexpected message type")
	}
	if m13SeqMode {
		if len(data) == 4 && data[1] == 9 {
			m.KeyBlob = []byte{7}
			m.Comment = "c"
			return nil
		}
		m.KeyBlob = []byte{8}
		m.Comment = "garbage"
		return errors.New("model: malformed message")
	}
	if w13UnmarshalOK {
		m.KeyBlob = []byte{7}
		m.Comment = "c"
		return nil
	}
	// nothing is promised about the destination after an error
	m.KeyBlob = []byte{8}
	m.Comment = "garbage"
	return errors.New("model: malformed message")
}

func m13SSHMarshal(msg interface{}) []byte {
	m13Marshalled = append(m13Marshalled, msg)
	if r, ok := msg.(agentAddHardCertReq); ok {
		return append([]byte{AgentMessageAddHardCert, 'M'}, []byte(r.Comment)...)
	}
	return []byte{0, 'M'}
}

type m13Agent struct {
	m12AgentStub
	keys     []ssh.PublicKey
	comments []string
	refuse   bool
}

func (a *m13Agent) AddHardCert(k ssh.PublicKey, c string) error {
	a.keys = append(a.keys, k)
	a.comments = append(a.comments, c)
	if a.refuse {
		return errors.New("refused")
	}
	return nil
}

type m13Conn struct {
	in, out []byte
	pos     int
}

func (c *m13Conn) Read(p []byte) (int, error) {
	if c.pos >= len(c.in) {
		return 0, io.EOF
	}
	n := copy(p, c.in[c.pos:])
	c.pos += n
	return n, nil
}
func (c *m13Conn) Write(p []byte) (int, error) { c.out = append(c.out, p...); return len(p), nil }

func H13_addhardcert() {
	n := 1 + vChoose(3, "tail-len")
	w13Tail = vNondetBytes("tail", n)
	vAssume(w13Tail[0] != 7) // keep the model's two blobs distinct
	w13TailParses = vChoose(2, "legacy-format") == 1
	if !w13TailParses {
		w13UnmarshalOK = vChoose(2, "current-format") == 1
		w13BlobParses = vChoose(2, "key-blob-parses") == 1
	} else {
		// an ambiguous frame: a legacy key blob that is itself two SSH strings (a plain ed25519 key:
		// type name, 32 key bytes) also decodes as the structured request, whose "blob" is no key
		w13UnmarshalOK = vChoose(2, "legacy-frame-also-decodes-as-a-structure") == 1
		w13BlobParses = false
	}
	ag := &m13Agent{refuse: vChoose(2, "agent-refuses") == 1}
	frame := append([]byte{AgentMessageAddHardCert}, w13Tail...)
	c := &m13Conn{in: append([]byte{0, 0, 0, byte(len(frame))}, frame...)}
	err := ServeAgent(ag, c)
	wantReply := "SUCCESS"
	if ag.refuse {
		wantReply = "refused"
	}
	switch {
	case w13TailParses:
		vAssert(err == nil, "C13.legacy-add-hard-cert-served")
		vAssert(len(ag.keys) == 1 && ag.keys[0] == ssh.PublicKey(w13TailKey), "C13.legacy-format-delivers-the-certificate")
		vAssert(len(ag.comments) == 1 && ag.comments[0] == "", "C13.legacy-format-carries-no-comment")
		vAssert(string(c.out) == string(append([]byte{0, 0, 0, byte(len(wantReply))}, wantReply...)), "C13.add-hard-cert-result-returned")
		vReach("C13.addhc.legacy")
	case w13UnmarshalOK && w13BlobParses:
		vAssert(err == nil, "C13.current-add-hard-cert-served")
		vAssert(len(ag.keys) == 1 && ag.keys[0] == ssh.PublicKey(w13BlobKey), "C13.current-format-delivers-the-certificate")
		vAssert(len(ag.comments) == 1 && ag.comments[0] == "c", "C13.current-format-delivers-the-comment")
		vAssert(string(c.out) == string(append([]byte{0, 0, 0, byte(len(wantReply))}, wantReply...)), "C13.add-hard-cert-result-returned")
		vReach("C13.addhc.current")
	default:
		vAssert(err != nil && len(ag.keys) == 0, "C13.malformed-add-hard-cert-is-an-error")
		vReach("C13.addhc.malformed")
	}

	// client side: the request carries the key blob and the comment, failures come back as errors
	comment := vNondetString("comment", 1)
	reply := "SUCCESS"
	if vChoose(2, "server-says-error") == 1 {
		reply = "boom"
	}
	cc := &m20ClientConn{in: append([]byte{0, 0, 0, byte(len(reply))}, reply...)}
	cl := ygNewClient(cc)
	cerr := cl.AddHardCert(w13BlobKey, comment)
	vAssert((cerr == nil) == (reply == "SUCCESS"), "C13.client-reports-server-failures-as-errors")
	if cerr != nil {
		vAssert(cerr.Error() == "boom", "C13.client-error-text-is-the-servers")
	}
	vAssert(len(m13Marshalled) >= 1, "C13.client-encodes-the-request")
	if len(m13Marshalled) >= 1 {
		r, ok := m13Marshalled[len(m13Marshalled)-1].(agentAddHardCertReq)
		vAssert(ok && string(r.KeyBlob) == string(w13BlobKey.Marshal()) && vEqString(r.Comment, comment), "C13.client-request-carries-blob-and-comment")
	}
	vReach("C13.addhc.client-request")
}

// H13_addhardcert_sequence: what one request carried must not leak into the next.
func H13_addhardcert_sequence() {
	w13Tail = []byte{1, 2}
	legacyFirst := vChoose(2, "legacy-first") == 1
	ag := &m13Agent{}
	legacy := append([]byte{AgentMessageAddHardCert}, w13Tail...)
	current := []byte{AgentMessageAddHardCert, 9, 9, 9}
	var in []byte
	frames := [][]byte{current, legacy}
	if legacyFirst {
		frames = [][]byte{legacy, current}
	}
	for _, f := range frames {
		in = append(in, 0, 0, 0, byte(len(f)))
		in = append(in, f...)
	}
	c := &m13Conn{in: in}
	// the model's verdicts depend on the frame being decoded
	m13SeqMode = true
	err := ServeAgent(ag, c)
	m13SeqMode = false
	vAssert(err == nil, "C13.both-formats-served-on-one-connection")
	vAssert(len(ag.keys) == 2 && len(ag.comments) == 2, "C13.one-delivery-per-request")
	if len(ag.comments) == 2 {
		li, ci := 1, 0
		if legacyFirst {
			li, ci = 0, 1
		}
		vAssert(ag.comments[li] == "" && ag.keys[li] == ssh.PublicKey(w13TailKey), "C13.legacy-format-carries-no-comment")
		vAssert(ag.comments[ci] == "c" && ag.keys[ci] == ssh.PublicKey(w13BlobKey), "C13.current-format-delivers-the-comment")
	}
	vReach("C13.addhc.sequence")
}

// ---- client: one request/response exchange per critical section -----------------

type m13LockedConn struct {
	m20ClientConn
}

func (n *m13LockedConn) Read(p []byte) (int, error) {
	vAccess("wr", "client.conn")
	return n.m20ClientConn.Read(p)
}
func (n *m13LockedConn) Write(p []byte) (int, error) {
	vAccess("wr", "client.conn")
	return n.m20ClientConn.Write(p)
}

func H13_client_exchange() {
	ops := []string{"AddHardCert", "ListSlots", "ReadSlot", "AttestSlot", "Wait", "Forward"}
	op := ops[vChoose(len(ops), "operation")]
	reply := []byte("\x00\x00\x00\x07SUCCESS")
	// the reply may also never come (the connection ends after the request, or
	// in the middle of the reply): the operation fails and releases its lock
	switch vChoose(3, "reply") {
	case 1:
		reply = nil
	case 2:
		reply = reply[:6]
	}
	conn := &m13LockedConn{m20ClientConn{in: reply}}
	cl := ygNewClient(conn)
	vWatchAll(cl, "client") // its mutex is "client.<field>"
	vTraceReset()
	vCatch(func() {
		switch op {
		case "AddHardCert":
			cl.AddHardCert(w13BlobKey, "c")
		case "ListSlots":
			cl.ListSlots()
		case "ReadSlot":
			cl.ReadSlot("9a")
		case "AttestSlot":
			cl.AttestSlot("9a")
		case "Wait":
			cl.Wait(vNondetU8("code"))
		case "Forward":
			cl.Forward(vNondetBytes("req", 2))
		}
	})
	vTraceCheckAtomic(op, "client.*")
	vTraceEmit("client." + op)
	vReach("C13.client.exchange")
}
