package yubiagent

//vsym:pkg github.com/theparanoids/ysshra/agent/yubiagent
//vsym:include yubiagent/ctor.go || yubiagent/ctor_bb.go
//vsym:include C13/zz_stub.go
//vsym:include C13/h13_compose.go
//vsym:entry H13_history
//vsym:model golang.org/x/crypto/ssh.Marshal m13cMarshal
//vsym:model golang.org/x/crypto/ssh.Unmarshal m13cUnmarshal
//vsym:model encoding/pem.EncodeToMemory m13cPEMEncode
//vsym:model encoding/pem.Decode m13cPEMDecode
//vsym:model github.com/theparanoids/ysshra/attestation/yubiattest.ParseCertificate m13cParseCertificate
//vsym:replay none
//vsym:expect-cover C13.history.compared C13.history.failure-then-success
//vsym:bound H13_history: two (thorough three) requests out of ListSlots, ReadSlot, AttestSlot (slot names of 1 symbolic byte) framed back to back on ONE connection served by one call of the real ServeAgent over a scripted YubiAgent whose k-th call succeeds (certificate of 2 symbolic bytes, slot list of 0..1 symbolic names) or fails (1-byte symbolic error text) independently; the reply to each request is compared, field by field, with the reply a fresh ServeAgent gives to that request alone under the same scripted result
//vsym:assume as H13_compose (ssh.Marshal / pem.EncodeToMemory uninterpreted, replies compared as the message structs handed to ssh.Marshal); writes to the connection succeed

import (
	"crypto/x509"
	"errors"
)

// a served agent whose results are scripted per call
type m13hServed struct {
	m12AgentStub
	n     int
	fail  [3]bool
	text  [3]string
	cert  [3][]byte
	slots [3][]string
	args  []string
}

func (a *m13hServed) next() int {
	k := a.n
	if k > 2 {
		k = 2
	}
	a.n++
	return k
}
func (a *m13hServed) ListSlots() ([]string, error) {
	k := a.next()
	a.args = append(a.args, "")
	if a.fail[k] {
		return nil, errors.New(a.text[k])
	}
	return a.slots[k], nil
}
func (a *m13hServed) ReadSlot(s string) (*x509.Certificate, error) {
	k := a.next()
	a.args = append(a.args, s)
	if a.fail[k] {
		return nil, errors.New(a.text[k])
	}
	return &x509.Certificate{Raw: a.cert[k]}, nil
}
func (a *m13hServed) AttestSlot(s string) (*x509.Certificate, error) {
	k := a.next()
	a.args = append(a.args, s)
	if a.fail[k] {
		return nil, errors.New(a.text[k])
	}
	return &x509.Certificate{Raw: a.cert[k]}, nil
}

func m13hFrame(code byte, slot string) []byte {
	body := []byte{code}
	if code != AgentMessageListSlots {
		body = append(body, slot...)
	}
	return append([]byte{0, 0, 0, byte(len(body))}, body...)
}

// field-by-field comparison of two messages handed to ssh.Marshal
func m13hSame(x, y interface{}) {
	if a, ok := x.(agentListSlotsResp); ok {
		b, ok2 := y.(agentListSlotsResp)
		vAssert(ok2, "C13.reply-independent-of-earlier-requests-on-the-connection")
		if ok2 {
			vAssert(len(a.Slots) == len(b.Slots) && vEqString(a.Err, b.Err), "C13.reply-independent-of-earlier-requests-on-the-connection")
			for i := 0; i < len(a.Slots) && i < len(b.Slots); i++ {
				vAssert(vEqString(a.Slots[i], b.Slots[i]), "C13.reply-independent-of-earlier-requests-on-the-connection")
			}
		}
		return
	}
	var ac, bc []byte
	var ae, be string
	if a, ok := x.(agentReadSlotResp); ok {
		ac, ae = a.Cert, a.Err
	} else if a, ok := x.(agentAttestSlotResp); ok {
		ac, ae = a.Cert, a.Err
	} else {
		vAssert(false, "C13.reply-independent-of-earlier-requests-on-the-connection")
		return
	}
	if b, ok := y.(agentReadSlotResp); ok {
		bc, be = b.Cert, b.Err
	} else if b, ok := y.(agentAttestSlotResp); ok {
		bc, be = b.Cert, b.Err
	} else {
		vAssert(false, "C13.reply-independent-of-earlier-requests-on-the-connection")
		return
	}
	vAssert(len(ac) == len(bc) && vEqString(ae, be), "C13.reply-independent-of-earlier-requests-on-the-connection")
	if len(ac) == len(bc) {
		vAssert(vEqBytes(ac, bc), "C13.reply-independent-of-earlier-requests-on-the-connection")
	}
}

func H13_history() {
	codes := []byte{AgentMessageListSlots, AgentMessageReadSlot, AgentMessageAttestSlot}
	var code [3]byte
	var slot [3]string
	sv := &m13hServed{}
	nreq := 2
	if vThorough() {
		nreq = 3
	}
	for k := 0; k < nreq; k++ {
		code[k] = codes[vChoose(3, "request")]
		slot[k] = vNondetString("slot", 1)
		sv.fail[k] = vChoose(2, "served-agent-fails") == 1
		sv.text[k] = vNondetString("error-text", 1)
		vAssume(vAnd(sv.text[k][0] > 0x20, sv.text[k][0] < 0x7f))
		sv.cert[k] = vNondetBytes("cert", 2)
		if vChoose(2, "slots") == 1 {
			sv.slots[k] = []string{vNondetString("listed", 2)}
		}
	}
	// both requests on one connection
	base := len(m13cTable)
	both := &m13cServerSide{}
	for k := 0; k < nreq; k++ {
		both.in = append(both.in, m13hFrame(code[k], slot[k])...)
	}
	err := ServeAgent(sv, both)
	vAssert(err == nil, "C13.clean-end-of-stream-is-not-an-error")
	vAssert(len(m13cTable) == base+nreq && sv.n == nreq, "C13.request-reaches-the-served-agent-once")
	if len(m13cTable) != base+nreq {
		return
	}
	for k := 0; k < nreq; k++ {
		if code[k] != AgentMessageListSlots && k < len(sv.args) {
			vAssert(vEqString(sv.args[k], slot[k]), "C13.served-agent-receives-the-callers-slot")
		}
	}
	// each request alone on a fresh connection, same scripted result
	for k := 0; k < nreq; k++ {
		one := &m13hServed{}
		one.fail[0], one.text[0], one.cert[0], one.slots[0] = sv.fail[k], sv.text[k], sv.cert[k], sv.slots[k]
		at := len(m13cTable)
		ss := &m13cServerSide{in: m13hFrame(code[k], slot[k])}
		ServeAgent(one, ss)
		if len(m13cTable) != at+1 {
			vAssert(false, "C13.request-reaches-the-served-agent-once")
			return
		}
		m13hSame(m13cTable[base+k], m13cTable[at])
	}
	vReach("C13.history.compared")
	if sv.fail[0] && !sv.fail[1] {
		vReach("C13.history.failure-then-success")
	}
}
