package yubiattest

//vsym:pkg github.com/theparanoids/ysshra/attestation/yubiattest
//vsym:entry H13_certificates_survive_the_client
//vsym:include C16/h16_parse.go
//vsym:replay none
//vsym:expect-cover C16.pk.p256 C16.pk.p384 C16.pk.p521 C16.pk.rsa-ok C16.f.ok
//vsym:bound H13_certificates_survive_the_client: ReadSlot / AttestSlot hand the served agent's certificate to the caller through the lenient parser: every key type the served agent can hold (RSA, P-256/384/521) is accepted and the fields are those of the certificate - bounds of C16's H16_pubkey and H16_fields
//vsym:assume encoding/asn1 and crypto/ecdh modelled by contract (see C16)

// What the client returns for a slot is the certificate the served agent
// holds; shared with C16.
func H13_certificates_survive_the_client() {
	if vChoose(2, "part") == 0 {
		H16_pubkey()
	} else {
		H16_fields()
	}
}
