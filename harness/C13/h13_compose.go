package yubiagent

//vsym:pkg github.com/theparanoids/ysshra/agent/yubiagent
//vsym:include yubiagent/ctor.go || yubiagent/ctor_bb.go
//vsym:include C13/zz_stub.go
//vsym:entry H13_compose
//vsym:model golang.org/x/crypto/ssh.Marshal m13cMarshal
//vsym:model golang.org/x/crypto/ssh.Unmarshal m13cUnmarshal
//vsym:model encoding/pem.EncodeToMemory m13cPEMEncode
//vsym:model encoding/pem.Decode m13cPEMDecode
//vsym:model github.com/theparanoids/ysshra/attestation/yubiattest.ParseCertificate m13cParseCertificate
//vsym:replay none
//vsym:expect-cover C13.compose.listslots C13.compose.readslot C13.compose.attestslot C13.compose.wait C13.compose.forward C13.compose.error-text
//vsym:bound H13_compose: one operation out of ListSlots, ReadSlot, AttestSlot, Wait, Forward invoked on a real *client whose connection is served, request by request, by the real ServeAgent over a recording YubiAgent; slot names of 0..3 symbolic bytes, wait code symbolic, forwarded body of 1..4 symbolic bytes (first byte outside the interpreted codes), slot lists of 0..2 two-byte symbolic names, certificate bytes symbolic; the served agent succeeds or fails with a 1-byte symbolic error text
//vsym:assume ssh.Marshal / ssh.Unmarshal are an uninterpreted inverse pair per message struct (a blob decodes to a copy of the value that was encoded, into the same struct type only); pem.EncodeToMemory / pem.Decode likewise; the lenient certificate parser returns a certificate carrying the given bytes

import (
	"crypto/x509"
	"encoding/pem"
	"errors"
	"io"
	"net"

	"golang.org/x/crypto/ssh"
)

// ---- codec models -------------------------------------------------------------

var m13cTable []interface{}

// (if-chains of single type assertions, not type switches: the read-slot and
// attest-slot replies have the same layout and may be one type under two names)
func m13cMarshal(msg interface{}) []byte {
	if m, ok := msg.(*agentListSlotsResp); ok {
		c := *m
		c.Slots = append([]string(nil), m.Slots...)
		m13cTable = append(m13cTable, c)
	} else if m, ok := msg.(*agentReadSlotResp); ok {
		c := *m
		m13cTable = append(m13cTable, c)
	} else if m, ok := msg.(*agentAttestSlotResp); ok {
		c := *m
		m13cTable = append(m13cTable, c)
	} else {
		panic("m13cMarshal: unexpected message type")
	}
	return []byte{0xF0, byte(len(m13cTable) - 1)}
}

func m13cUnmarshal(data []byte, out interface{}) error {
	if len(data) != 2 || data[0] != 0xF0 || int(data[1]) >= len(m13cTable) {
		return errors.New("model: malformed message")
	}
	stored := m13cTable[data[1]]
	if o, ok := out.(*agentListSlotsResp); ok {
		if v, ok := stored.(agentListSlotsResp); ok {
			*o = v
			return nil
		}
		return errors.New("model: message of another type")
	}
	if o, ok := out.(*agentReadSlotResp); ok {
		// the attest reply has the same wire layout as the read reply
		if v, ok := stored.(agentReadSlotResp); ok {
			*o = v
			return nil
		}
		if v, ok := stored.(agentAttestSlotResp); ok {
			o.Cert, o.Err = v.Cert, v.Err
			return nil
		}
		return errors.New("model: message of another type")
	}
	if o, ok := out.(*agentAttestSlotResp); ok {
		if v, ok := stored.(agentAttestSlotResp); ok {
			*o = v
			return nil
		}
	}
	return errors.New("model: message of another type")
}

func m13cPEMEncode(b *pem.Block) []byte { return append([]byte("PEM:"), b.Bytes...) }
func m13cPEMDecode(data []byte) (*pem.Block, []byte) {
	if len(data) >= 4 && string(data[:4]) == "PEM:" {
		return &pem.Block{Type: "CERTIFICATE", Bytes: data[4:]}, nil
	}
	return nil, data
}
func m13cParseCertificate(der []byte) (*x509.Certificate, error) {
	return &x509.Certificate{Raw: append([]byte(nil), der...)}, nil
}

// ---- the served agent and the synchronous pipe ----------------------------------

type m13cServed struct {
	m12AgentStub
	calls    []string
	slotArg  string
	waitArg  byte
	fwdArg   []byte
	fail     bool
	errText  string
	slots    []string
	certRaw  []byte
	fwdReply []byte
}

func (a *m13cServed) result() error {
	if a.fail {
		return errors.New(a.errText)
	}
	return nil
}
func (a *m13cServed) ListSlots() ([]string, error) {
	a.calls = append(a.calls, "ListSlots")
	if a.fail {
		return nil, a.result()
	}
	return a.slots, nil
}
func (a *m13cServed) ReadSlot(s string) (*x509.Certificate, error) {
	a.calls = append(a.calls, "ReadSlot")
	a.slotArg = s
	if a.fail {
		return nil, a.result()
	}
	return &x509.Certificate{Raw: a.certRaw}, nil
}
func (a *m13cServed) AttestSlot(s string) (*x509.Certificate, error) {
	a.calls = append(a.calls, "AttestSlot")
	a.slotArg = s
	if a.fail {
		return nil, a.result()
	}
	return &x509.Certificate{Raw: a.certRaw}, nil
}
func (a *m13cServed) Wait(c byte) error {
	a.calls = append(a.calls, "Wait")
	a.waitArg = c
	return a.result()
}
func (a *m13cServed) Forward(req []byte) ([]byte, error) {
	a.calls = append(a.calls, "Forward")
	a.fwdArg = append([]byte(nil), req...)
	if a.fail {
		return nil, a.result()
	}
	return a.fwdReply, nil
}

// the client's connection: a complete request is served synchronously by ServeAgent
type m13cPipe struct {
	net.Conn
	served  *m13cServed
	pending []byte
	reply   []byte
	pos     int
	srvErr  error
}

type m13cServerSide struct {
	in  []byte
	pos int
	out []byte
}

func (s *m13cServerSide) Read(p []byte) (int, error) {
	if s.pos >= len(s.in) {
		return 0, io.EOF
	}
	n := copy(p, s.in[s.pos:])
	s.pos += n
	return n, nil
}
func (s *m13cServerSide) Write(p []byte) (int, error) { s.out = append(s.out, p...); return len(p), nil }

func (c *m13cPipe) Write(p []byte) (int, error) {
	c.pending = append(c.pending, p...)
	return len(p), nil
}
func (c *m13cPipe) Read(p []byte) (int, error) {
	if c.pos >= len(c.reply) && len(c.pending) > 0 {
		ss := &m13cServerSide{in: c.pending}
		c.pending = nil
		c.srvErr = ServeAgent(c.served, ss)
		c.reply = append(c.reply, ss.out...)
	}
	if c.pos >= len(c.reply) {
		return 0, io.EOF
	}
	n := copy(p, c.reply[c.pos:])
	c.pos += n
	return n, nil
}
func (c *m13cPipe) Close() error { return nil }

func H13_compose() {
	sv := &m13cServed{fail: vChoose(2, "served-agent-fails") == 1, errText: vNondetString("error-text", 1)}
	vAssume(vAnd(sv.errText[0] > 0x20, sv.errText[0] < 0x7f))
	vAssume(!vEqString(sv.errText, "S")) // (a one-byte text cannot be mistaken for SUCCESS anyway)
	pipe := &m13cPipe{served: sv}
	cl := ygNewClient(pipe)
	op := vChoose(5, "operation")
	switch op {
	case 0:
		n := vChoose(3, "slots")
		for i := 0; i < n; i++ {
			sv.slots = append(sv.slots, vNondetString("slot", 2))
		}
		got, err := cl.ListSlots()
		vAssert(len(sv.calls) == 1 && sv.calls[0] == "ListSlots", "C13.request-reaches-the-served-agent-once")
		if sv.fail {
			vAssert(err != nil && vEqString(err.Error(), sv.errText), "C13.server-failure-reported-as-an-error-with-its-text")
			vReach("C13.compose.error-text")
		} else {
			vAssert(err == nil && len(got) == n, "C13.caller-receives-the-served-agents-result")
			for i := 0; i < n && i < len(got); i++ {
				vAssert(vEqString(got[i], sv.slots[i]), "C13.slot-list-unchanged-and-in-order")
			}
		}
		vReach("C13.compose.listslots")
	case 1, 2:
		slot := vNondetString("slot", vChoose(4, "slot-len"))
		sv.certRaw = vNondetBytes("cert", 3)
		var crt *x509.Certificate
		var err error
		name := "ReadSlot"
		if op == 1 {
			crt, err = cl.ReadSlot(slot)
		} else {
			name = "AttestSlot"
			crt, err = cl.AttestSlot(slot)
		}
		vAssert(len(sv.calls) == 1 && sv.calls[0] == name, "C13.request-reaches-the-served-agent-once")
		vAssert(vEqString(sv.slotArg, slot), "C13.served-agent-receives-the-callers-slot")
		if sv.fail {
			vAssert(err != nil && crt == nil && vEqString(err.Error(), sv.errText), "C13.server-failure-reported-as-an-error-with-its-text")
			vReach("C13.compose.error-text")
		} else {
			vAssert(err == nil && crt != nil, "C13.caller-receives-the-served-agents-result")
			if crt != nil {
				vAssert(len(crt.Raw) == 3 && vEqBytes(crt.Raw, sv.certRaw), "C13.certificate-byte-identical")
			}
		}
		if op == 1 {
			vReach("C13.compose.readslot")
		} else {
			vReach("C13.compose.attestslot")
		}
	case 3:
		code := vNondetU8("code")
		err := cl.Wait(code)
		vAssert(len(sv.calls) == 1 && sv.calls[0] == "Wait" && sv.waitArg == code, "C13.served-agent-receives-the-callers-code")
		if sv.fail {
			vAssert(err != nil && vEqString(err.Error(), sv.errText), "C13.server-failure-reported-as-an-error-with-its-text")
		} else {
			vAssert(err == nil, "C13.caller-receives-the-served-agents-result")
		}
		vReach("C13.compose.wait")
	case 4:
		body := vNondetBytes("body", 1+vChoose(4, "body-len"))
		// a request type the server does not interpret
		vAssume(vAnd(body[0] >= 36, body[0] != 0))
		sv.fwdReply = vNondetBytes("reply", vChoose(3, "reply-len"))
		got, err := cl.Forward(body)
		if sv.fail {
			vAssert(err != nil || len(got) == 0, "C13.failed-forward-is-not-a-success-with-data")
		} else {
			vAssert(err == nil, "C13.caller-receives-the-served-agents-result")
			vAssert(len(sv.calls) == 1 && sv.calls[0] == "Forward" && len(sv.fwdArg) == len(body) && vEqBytes(sv.fwdArg, body), "C13.raw-request-relayed-byte-for-byte")
			vAssert(len(got) == len(sv.fwdReply) && vEqBytes(got, sv.fwdReply), "C13.raw-reply-relayed-byte-for-byte")
		}
		vReach("C13.compose.forward")
	}
	_ = ssh.Marshal
}
