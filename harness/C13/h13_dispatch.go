package yubiagent

//vsym:pkg github.com/theparanoids/ysshra/agent/yubiagent
//vsym:entry H13_standard_requests_reach_the_served_agent
//vsym:include C12/h12.go
//vsym:expect-cover C13.dispatch.library C13.dispatch.relayed
//vsym:bound H13_standard_requests_reach_the_served_agent: one frame of 2 or 3 symbolic bytes (every request code): the requests the ssh-agent library serves (request identities v1/v2, sign, add identity, add identity constrained, remove, remove all, lock, unlock) are handed to the library server over the served agent with their bytes unchanged and are not relayed; every other code outside the YubiAgent extension codes (and outside 9 and 27, about which nothing is claimed) is relayed raw, exactly once, with its bytes unchanged
//vsym:assume the ssh-agent library's request processing is a recording model (which request bytes it was handed); counterexamples are solver counterexamples (natively the library would need well-formed request bodies)

// List, sign, add (with constraints), remove, remove-all, lock and unlock issued through a client reach the served agent's own methods: the server hands exactly these request codes, bytes unchanged, to the ssh-agent library's server over the served agent, and relays only what that library does not serve; the code is C12's H12_dispatch.
func H13_standard_requests_reach_the_served_agent() { H12_dispatch() }
