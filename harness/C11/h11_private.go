package shimagent

//vsym:pkg github.com/theparanoids/ysshra/agent/shimagent
//vsym:include shim/world.go
//vsym:include shim/peek.go || shim/peek_bb.go
//vsym:entry H11_replies_are_private
//vsym:replay same-harness
//vsym:expect-cover C11.private
//vsym:bound H11_replies_are_private: one client lists (keys and signers) and keeps the reply; a second client then performs 1..2 requests out of Remove + AddHardCert under another comment, List, Signers, Add, RemoveAll; the first client's reply is compared field by field with what it was; both modes, hardware certificate decoding or not
//vsym:assume the shim world of C07..C10

import (
	"golang.org/x/crypto/ssh/agent"
)

// H11_replies_are_private: a reply handed to one client is that client's: it
// is read outside the shim lock, so no later request may write to it.
func H11_replies_are_private() {
	mwClock = 1000
	up := &mwUpstream{failAt: -1}
	s := mwNewServer(up, vChoose(2, "no-upstream-mode") == 1)
	mwUpKey(up, 1, "k")
	upc := mwNewCert(1, 0, 1<<40, false)
	mwUpCert(up, upc, "other")
	c := mwNewCert(1, 0, 1<<40, vChoose(2, "decodes") == 1)
	vAssert(s.AddHardCert(c, "alice") == nil, "C11.setup")
	l1, err := s.List()
	vAssert(err == nil, "C11.setup")
	type snap struct {
		format, comment string
		blob            []byte
	}
	var kept []snap
	for _, k := range l1 {
		kept = append(kept, snap{k.Format, k.Comment, append([]byte(nil), k.Blob...)})
	}
	n := 1 + vChoose(2, "requests")
	for i := 0; i < n; i++ {
		switch vChoose(5, "request") {
		case 0:
			s.Remove(c)
			s.AddHardCert(c, "bob")
			s.List()
		case 1:
			s.List()
		case 2:
			s.Signers()
		case 3:
			s.Add(agent.AddedKey{Comment: "x"})
			s.List()
		case 4:
			s.RemoveAll()
			s.List()
		}
	}
	vAssert(len(l1) == len(kept), "C11.reply-not-rewritten-by-later-requests")
	for i, k := range l1 {
		vAssert(k.Format == kept[i].format && k.Comment == kept[i].comment && string(k.Blob) == string(kept[i].blob), "C11.reply-not-rewritten-by-later-requests")
	}
	vReach("C11.private")
}
