package PKGNAME

// Native replay for C11: the two operations of the solver's schedule run in
// two goroutines on one shim agent under `go test -race`.  The underlying
// agent is a real x/crypto keyring served over a pipe; the connection type
// counts its calls in an unsynchronised field so that unsynchronised use of
// the single upstream connection is visible to the race detector.

import (
	"crypto/ed25519"
	"crypto/rand"
	"encoding/json"
	"fmt"
	"net"
	"os"
	"sync"
	"testing"
	"time"

	"golang.org/x/crypto/ssh"
	"golang.org/x/crypto/ssh/agent"
)

type rConn struct {
	net.Conn
	n int
}

func (c *rConn) Write(p []byte) (int, error) { c.n++; return c.Conn.Write(p) }
func (c *rConn) Read(p []byte) (int, error)  { c.n++; return c.Conn.Read(p) }
func (c *rConn) Close() error                { c.n++; return nil }

const rKeyID = `{"prins":["u"],"transID":"t","reqUser":"u","reqIP":"1.1.1.1","reqHost":"h","isFirefighter":false,"isHWKey":false,"isHeadless":false,"isNonce":false,"usage":0,"touchPolicy":1,"ver":1}`

func rCert(t *testing.T, keyID string, before uint64) (ed25519.PrivateKey, *ssh.Certificate) {
	pub, priv, _ := ed25519.GenerateKey(rand.Reader)
	spub, _ := ssh.NewPublicKey(pub)
	sg, _ := ssh.NewSignerFromKey(priv)
	c := &ssh.Certificate{Key: spub, KeyId: keyID, CertType: ssh.UserCert, ValidAfter: 0, ValidBefore: before}
	if err := c.SignCert(rand.Reader, sg); err != nil {
		t.Fatal(err)
	}
	return priv, c
}

func TestVsymReplay(t *testing.T) {
	var rp struct {
		Facts map[string]string `json:"facts"`
	}
	b, _ := os.ReadFile(os.Getenv("VSYM_REPLAY"))
	json.Unmarshal(b, &rp)
	opA, opB := rp.Facts["opA"], rp.Facts["opB"]

	for round := 0; round < 20; round++ {
		c1, c2 := net.Pipe()
		kr := agent.NewKeyring()
		go agent.ServeAgent(kr, c2)
		s, err := newShimAgent(&rConn{Conn: c1}, true)
		if err != nil {
			t.Fatal(err)
		}
		s.pubKeyComp = func(x, y ssh.PublicKey) bool { return string(x.Marshal()) < string(y.Marshal()) }
		// upstream content added after construction: a YSSHCA certificate (to be
		// hidden and cached), an expired certificate (to be purged), a plain key
		p1, ysshca := rCert(t, rKeyID, ssh.CertTimeInfinity)
		kr.Add(agent.AddedKey{PrivateKey: p1, Certificate: ysshca})
		p2, expired := rCert(t, "other", 1)
		kr.Add(agent.AddedKey{PrivateKey: p2, Certificate: expired})
		p3, hw := rCert(t, "hw", ssh.CertTimeInfinity)
		kr.Add(agent.AddedKey{PrivateKey: p3})
		s.AddHardCert(hw, "hw")
		_, stale := rCert(t, "stale", 1)
		s.certs[hash(stale.Marshal())] = &certificate{stale, stale.Marshal(), "stale"}

		run := func(op string) func() {
			switch op {
			case "List":
				return func() { s.List() }
			case "Signers":
				return func() { s.Signers() }
			case "Sign":
				return func() { s.Sign(hw, []byte("data")) }
			case "Add":
				return func() { _, p, _ := ed25519.GenerateKey(rand.Reader); s.Add(agent.AddedKey{PrivateKey: p}) }
			case "Remove":
				return func() { s.Remove(hw) }
			case "RemoveAll":
				return func() { s.RemoveAll() }
			case "AddHardCert":
				return func() { s.AddHardCert(hw, "again") }
			case "Lock":
				return func() { s.Lock([]byte("p")) }
			case "Unlock":
				return func() { s.Unlock([]byte("p")) }
			case "Close":
				return func() { s.Close() }
			case "Extension":
				return func() { s.Extension("ext@vsym", []byte("x")) }
			case "Forward":
				return func() { s.Forward([]byte{11}) }
			}
			return func() {}
		}
		var wg sync.WaitGroup
		done := make(chan struct{})
		for _, f := range []func(){run(opA), run(opB)} {
			wg.Add(1)
			go func(f func()) { defer wg.Done(); defer func() { recover() }(); f() }(f)
		}
		go func() { wg.Wait(); close(done) }()
		select {
		case <-done:
		case <-time.After(3 * time.Second):
			// interleaved frames on the one connection can confuse the protocol; the race report, if any, is already out
		}
		c1.Close()
		c2.Close()
	}
	fmt.Println("VSYM-REPLAY-DONE (a data race, if any, is reported by the race detector above)")
}
