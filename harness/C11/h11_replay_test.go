package PKGNAME

// Native replay for C11: the two operations of the solver's schedule run in
// two goroutines on one shim agent under `go test -race`.  The underlying
// agent is a real x/crypto keyring served over a pipe; the connection type
// counts its calls in an unsynchronised field so that unsynchronised use of
// the single upstream connection is visible to the race detector.

import (
	"crypto/ed25519"
	"crypto/rand"
	"encoding/json"
	"fmt"
	"net"
	"os"
	"strings"
	"sync"
	"sync/atomic"
	"testing"
	"time"

	"golang.org/x/crypto/ssh"
	"golang.org/x/crypto/ssh/agent"
)

type rConn struct {
	net.Conn
	n int
}

func (c *rConn) Write(p []byte) (int, error) { c.n++; return c.Conn.Write(p) }
func (c *rConn) Read(p []byte) (int, error)  { c.n++; return c.Conn.Read(p) }
func (c *rConn) Close() error                { c.n++; return nil }

const rKeyID = `{"prins":["u"],"transID":"t","reqUser":"u","reqIP":"1.1.1.1","reqHost":"h","isFirefighter":false,"isHWKey":false,"isHeadless":false,"isNonce":false,"usage":0,"touchPolicy":1,"ver":1}`

func rCert(t *testing.T, keyID string, before uint64) (ed25519.PrivateKey, *ssh.Certificate) {
	pub, priv, _ := ed25519.GenerateKey(rand.Reader)
	spub, _ := ssh.NewPublicKey(pub)
	sg, _ := ssh.NewSignerFromKey(priv)
	c := &ssh.Certificate{Key: spub, KeyId: keyID, CertType: ssh.UserCert, ValidAfter: 0, ValidBefore: before}
	if err := c.SignCert(rand.Reader, sg); err != nil {
		t.Fatal(err)
	}
	return priv, c
}

func rCertFor(t *testing.T, priv ed25519.PrivateKey) (ed25519.PrivateKey, *ssh.Certificate) {
	spub, _ := ssh.NewPublicKey(priv.Public())
	sg, _ := ssh.NewSignerFromKey(priv)
	c := &ssh.Certificate{Key: spub, KeyId: "fresh", CertType: ssh.UserCert, ValidAfter: 0, ValidBefore: ssh.CertTimeInfinity, Nonce: []byte(time.Now().String())}
	if err := c.SignCert(rand.Reader, sg); err != nil {
		t.Fatal(err)
	}
	return priv, c
}

// rSignerSign: sign through the signer the shim hands out for the hardware certificate
func rSignerSign(s *Server, hw *ssh.Certificate) func() {
	sgs, _ := s.Signers()
	for _, sg := range sgs {
		if string(sg.PublicKey().Marshal()) == string(hw.Marshal()) {
			return func() { sg.Sign(rand.Reader, []byte("d")) }
		}
	}
	return func() {}
}

// gateConn suspends reads (the replies of the underlying agent) while closed.
type gateConn struct {
	net.Conn
	mu      sync.Mutex
	closed  bool
	blocked chan struct{}
	open    chan struct{}
}

func (g *gateConn) Read(p []byte) (int, error) {
	g.mu.Lock()
	c := g.closed
	g.mu.Unlock()
	if c {
		select {
		case g.blocked <- struct{}{}:
		default:
		}
		<-g.open
	}
	return g.Conn.Read(p)
}

// replayLockHeld: after operation op has returned, the shim lock must be free.
func replayLockHeld(t *testing.T, op string, lockedFirst bool) {
	c1, c2 := net.Pipe()
	defer c1.Close()
	defer c2.Close()
	kr := agent.NewKeyring()
	go agent.ServeAgent(kr, c2)
	s, err := newShimAgent(c1, false)
	if err != nil {
		t.Fatal(err)
	}
	s.pubKeyComp = func(x, y ssh.PublicKey) bool { return string(x.Marshal()) < string(y.Marshal()) }
	p3, hw := rCert(t, "hw", ssh.CertTimeInfinity)
	kr.Add(agent.AddedKey{PrivateKey: p3})
	s.AddHardCert(hw, "hw")
	if lockedFirst {
		s.Lock([]byte("p"))
	}
	_, fresh := rCertFor(t, p3)
	ops := map[string]func(){
		"List": func() { s.List() }, "Signers": func() { s.Signers() }, "Sign": func() { s.Sign(hw, []byte("d")) },
		"Add": func() { _, p, _ := ed25519.GenerateKey(rand.Reader); s.Add(agent.AddedKey{PrivateKey: p}) },
		"Remove": func() { s.Remove(hw) }, "RemoveAll": func() { s.RemoveAll() }, "AddHardCert": func() { s.AddHardCert(fresh, "fresh") },
		"Lock": func() { s.Lock([]byte("p")) }, "Unlock": func() { s.Unlock([]byte("p")) }, "Close": func() { s.Close() },
		"Extension": func() { s.Extension("ext@vsym", []byte("x")) }, "Forward": func() { s.Forward([]byte{11}) },
		"SignerSign": rSignerSign(s, hw),
	}
	f := ops[op]
	if f == nil {
		fmt.Println("VSYM-REPLAY: NOT-REPRODUCED no replay for " + op)
		return
	}
	done := make(chan struct{})
	go func() { defer close(done); defer func() { recover() }(); f() }()
	select {
	case <-done:
	case <-time.After(3 * time.Second):
		fmt.Println("VSYM-REPLAY: NOT-REPRODUCED operation did not return")
		return
	}
	if s.mu.TryLock() {
		s.mu.Unlock()
		fmt.Println("VSYM-REPLAY: NOT-REPRODUCED")
		return
	}
	fmt.Println("VSYM-REPLAY: REPRODUCED " + op + " returned while still holding the shim lock")
}

// replayAtomicity: while operation op is suspended inside a call to the
// underlying agent, the shim lock must be held.
func replayAtomicity(t *testing.T, op string) string {
	c1, c2 := net.Pipe()
	defer c1.Close()
	defer c2.Close()
	kr := agent.NewKeyring()
	go agent.ServeAgent(kr, c2)
	g := &gateConn{Conn: c1, blocked: make(chan struct{}, 1), open: make(chan struct{})}
	s, err := newShimAgent(g, false)
	if err != nil {
		t.Fatal(err)
	}
	s.pubKeyComp = func(x, y ssh.PublicKey) bool { return string(x.Marshal()) < string(y.Marshal()) }
	p3, hw := rCert(t, "hw", ssh.CertTimeInfinity)
	kr.Add(agent.AddedKey{PrivateKey: p3})
	s.AddHardCert(hw, "hw")
	_, fresh := rCertFor(t, p3)
	ops := map[string]func(){
		"List": func() { s.List() }, "Signers": func() { s.Signers() }, "Sign": func() { s.Sign(hw, []byte("d")) },
		"Add": func() { _, p, _ := ed25519.GenerateKey(rand.Reader); s.Add(agent.AddedKey{PrivateKey: p}) },
		"Remove": func() { s.Remove(hw) }, "RemoveAll": func() { s.RemoveAll() }, "AddHardCert": func() { s.AddHardCert(fresh, "fresh") },
		"Lock": func() { s.Lock([]byte("p")) }, "Unlock": func() { s.Unlock([]byte("p")) },
		"Extension": func() { s.Extension("ext@vsym", []byte("x")) }, "Forward": func() { s.Forward([]byte{11}) },
		"SignerSign": rSignerSign(s, hw),
	}
	f := ops[op]
	if f == nil {
		return "NOT-REPRODUCED no atomicity replay for " + op
	}
	g.mu.Lock()
	g.closed = true
	g.mu.Unlock()
	done := make(chan struct{})
	go func() { defer close(done); defer func() { recover() }(); f() }()
	outcome := "NOT-REPRODUCED"
	select {
	case <-g.blocked:
		if s.mu.TryLock() {
			s.mu.Unlock()
			outcome = "REPRODUCED " + op + " does not hold the shim lock while its call to the underlying agent is in flight"
		}
	case <-done:
		outcome = "NOT-REPRODUCED operation made no upstream call"
	case <-time.After(3 * time.Second):
		outcome = "NOT-REPRODUCED timeout"
	}
	g.mu.Lock()
	g.closed = false
	g.mu.Unlock()
	close(g.open)
	select {
	case <-done:
	case <-time.After(3 * time.Second):
	}
	return outcome
}

// replaySplit: operation op is queued behind a held shim lock, a second
// client's request (a plain acquisition of the shim lock that then holds it
// for a while) is queued behind it, and the lock is released.  An operation
// that is one critical section finishes while the second client holds the
// lock; one that leaves its critical section and enters another is still
// waiting for the lock when the second client is done: the second client ran
// in the middle of it.
func replaySplit(t *testing.T, op string) string {
	c1, c2 := net.Pipe()
	defer c1.Close()
	defer c2.Close()
	kr := agent.NewKeyring()
	go agent.ServeAgent(kr, c2)
	s, err := newShimAgent(c1, false)
	if err != nil {
		t.Fatal(err)
	}
	s.pubKeyComp = func(x, y ssh.PublicKey) bool { return string(x.Marshal()) < string(y.Marshal()) }
	p3, hw := rCert(t, "hw", ssh.CertTimeInfinity)
	kr.Add(agent.AddedKey{PrivateKey: p3})
	s.AddHardCert(hw, "hw")
	_, fresh := rCertFor(t, p3)
	ops := map[string]func(){
		"List": func() { s.List() }, "Signers": func() { s.Signers() }, "Sign": func() { s.Sign(hw, []byte("d")) },
		"Add": func() { _, p, _ := ed25519.GenerateKey(rand.Reader); s.Add(agent.AddedKey{PrivateKey: p}) },
		"Remove": func() { s.Remove(hw) }, "RemoveAll": func() { s.RemoveAll() }, "AddHardCert": func() { s.AddHardCert(fresh, "fresh") },
		"Lock": func() { s.Lock([]byte("p")) }, "Unlock": func() { s.Unlock([]byte("p")) },
		"Extension": func() { s.Extension("ext@vsym", []byte("x")) }, "Forward": func() { s.Forward([]byte{11}) },
		"SignerSign": rSignerSign(s, hw),
	}
	f := ops[op]
	if f == nil {
		return "NOT-REPRODUCED no atomicity replay for " + op
	}
	var aDone, bIn sync.WaitGroup
	var doneFlag, sawDone int32
	s.mu.Lock()
	aDone.Add(1)
	go func() {
		defer aDone.Done()
		defer func() { recover() }()
		f()
		atomic.StoreInt32(&doneFlag, 1)
	}()
	time.Sleep(150 * time.Millisecond) // op is now waiting for the shim lock
	bIn.Add(1)
	go func() {
		defer bIn.Done()
		s.mu.Lock()
		time.Sleep(400 * time.Millisecond)
		sawDone = atomic.LoadInt32(&doneFlag)
		s.mu.Unlock()
	}()
	time.Sleep(150 * time.Millisecond) // the second client is queued behind it
	s.mu.Unlock()
	bIn.Wait()
	fin := make(chan struct{})
	go func() { aDone.Wait(); close(fin) }()
	select {
	case <-fin:
	case <-time.After(3 * time.Second):
		return "NOT-REPRODUCED operation did not return"
	}
	if sawDone == 0 {
		return "REPRODUCED " + op + " released the shim lock and took it again: another client's request ran in the middle of it"
	}
	return "NOT-REPRODUCED"
}

func TestVsymReplay(t *testing.T) {
	var rp struct {
		Facts map[string]string `json:"facts"`
	}
	b, _ := os.ReadFile(os.Getenv("VSYM_REPLAY"))
	json.Unmarshal(b, &rp)
	opA, opB := rp.Facts["opA"], rp.Facts["opB"]
	if rp.Facts["kind"] == "atomicity" {
		out := replayAtomicity(t, opA)
		if !strings.HasPrefix(out, "REPRODUCED") {
			out = replaySplit(t, opA)
		}
		fmt.Println("VSYM-REPLAY:", out)
		return
	}
	if rp.Facts["kind"] == "lock-held" {
		replayLockHeld(t, opA, rp.Facts["locked-first"] == "true")
		return
	}

	for round := 0; round < 20; round++ {
		c1, c2 := net.Pipe()
		kr := agent.NewKeyring()
		go agent.ServeAgent(kr, c2)
		s, err := newShimAgent(&rConn{Conn: c1}, true)
		if err != nil {
			t.Fatal(err)
		}
		s.pubKeyComp = func(x, y ssh.PublicKey) bool { return string(x.Marshal()) < string(y.Marshal()) }
		// upstream content added after construction: a YSSHCA certificate (to be
		// hidden and cached), an expired certificate (to be purged), a plain key
		p1, ysshca := rCert(t, rKeyID, ssh.CertTimeInfinity)
		kr.Add(agent.AddedKey{PrivateKey: p1, Certificate: ysshca})
		p2, expired := rCert(t, "other", 1)
		kr.Add(agent.AddedKey{PrivateKey: p2, Certificate: expired})
		p3, hw := rCert(t, "hw", ssh.CertTimeInfinity)
		kr.Add(agent.AddedKey{PrivateKey: p3})
		s.AddHardCert(hw, "hw")
		_, stale := rCert(t, "stale", 1)
		s.certs[hash(stale.Marshal())] = &certificate{stale, stale.Marshal(), "stale"}

		run := func(op string) func() {
			switch op {
			case "List":
				return func() { s.List() }
			case "Signers":
				return func() { s.Signers() }
			case "Sign":
				return func() { s.Sign(hw, []byte("data")) }
			case "Add":
				return func() { _, p, _ := ed25519.GenerateKey(rand.Reader); s.Add(agent.AddedKey{PrivateKey: p}) }
			case "Remove":
				return func() { s.Remove(hw) }
			case "RemoveAll":
				return func() { s.RemoveAll() }
			case "AddHardCert":
				return func() { _, fresh := rCertFor(t, p3); s.AddHardCert(fresh, "fresh") }
			case "Lock":
				return func() { s.Lock([]byte("p")) }
			case "Unlock":
				return func() { s.Unlock([]byte("p")) }
			case "Close":
				return func() { s.Close() }
			case "Extension":
				return func() { s.Extension("ext@vsym", []byte("x")) }
			case "Forward":
				return func() { s.Forward([]byte{11}) }
			case "SignerSign":
				return rSignerSign(s, hw)
			}
			return func() {}
		}
		var wg sync.WaitGroup
		done := make(chan struct{})
		for _, f := range []func(){run(opA), run(opB)} {
			wg.Add(1)
			go func(f func()) { defer wg.Done(); defer func() { recover() }(); f() }(f)
		}
		go func() { wg.Wait(); close(done) }()
		select {
		case <-done:
		case <-time.After(3 * time.Second):
			// interleaved frames on the one connection can confuse the protocol; the race report, if any, is already out
		}
		c1.Close()
		c2.Close()
	}
	fmt.Println("VSYM-REPLAY-DONE (a data race, if any, is reported by the race detector above)")
}
