package shimagent

//vsym:pkg github.com/theparanoids/ysshra/agent/shimagent
//vsym:include shim/world.go
//vsym:include shim/peek.go || shim/peek_bb.go
//vsym:entry H11_traces
//vsym:replay adapter h11_replay_test.go race
//vsym:expect-cover C11.traced
//vsym:bound H11_traces: each of the 12 operations (List, Signers, Sign, Add, Remove, RemoveAll, AddHardCert, Lock, Unlock, Close, Extension, Forward) executed symbolically from pre-states with 0..1 in-memory certificate and an upstream holding a plain key and a certificate (symbolic windows, decoding or not), both modes, locked or not; every distinct event trace (lock acquire/release, reads/writes of certs, cache, locked, the upstream connection) is kept; every unordered pair of traces (including an operation with itself) is composed into one integer-clock schedule query
//vsym:assume two goroutines suffice: a data race and a broken critical section are pairwise notions and the operations share no other synchronisation; x/crypto's agent client serialises its request/reply exchanges with its own mutex (modelled as acquire/release events around every upstream call); Forward's write/read use the connection directly; sync.RWMutex is modelled as ghost events

import (
	"golang.org/x/crypto/ssh"
	"golang.org/x/crypto/ssh/agent"
)

var h11Signers []ssh.Signer

func H11_traces() {
	h11Signers = nil
	mwClock = vNondetI64("now")
	vAssume(vAnd(mwClock >= 0, mwClock < 1<<62))
	up := &mwUpstream{failAt: -1}
	s := mwNewServer(up, vChoose(2, "no-upstream-mode") == 1)
	cert := func(name string, dec bool) *ssh.Certificate {
		return mwNewCert(1, vNondetU64(name+"-va"), vNondetU64(name+"-vb"), dec)
	}
	var mem *ssh.Certificate
	if vChoose(2, "in-memory") == 1 {
		mem = cert("mem", false)
		mwPutMem(s, mem)
	}
	mwUpKey(up, 1, "k")
	upc := cert("up", vChoose(2, "up-decodes") == 1)
	mwUpCert(up, upc, "c")
	lockedFirst := vChoose(2, "locked") == 1
	vFact("locked-first", lockedFirst)
	if lockedFirst {
		mwForceLocked(s)
		up.locked = true
		up.pass = []byte("p")
	}

	// every field of the server is a watched location named after the field;
	// its mutex is "shim.<field>" (no knowledge of the representation needed)
	vWatchAll(s, "shim")

	ops := []string{"List", "Signers", "Sign", "Add", "Remove", "RemoveAll", "AddHardCert", "Lock", "Unlock", "Close", "Extension", "Forward"}
	op := vChoose(len(ops), "operation")
	vTraceReset()
	crashed := vCatch(func() {
		switch ops[op] {
		case "List":
			s.List()
		case "Signers":
			h11Signers, _ = s.Signers()
		case "Sign":
			var k ssh.PublicKey = upc
			if mem != nil && vChoose(2, "sign-mem") == 1 {
				k = mem
			}
			s.Sign(k, []byte("d"))
		case "Add":
			s.Add(agent.AddedKey{Comment: "x"})
		case "Remove":
			var k ssh.PublicKey = upc
			if mem != nil && vChoose(2, "remove-mem") == 1 {
				k = mem
			}
			s.Remove(k)
		case "RemoveAll":
			s.RemoveAll()
		case "AddHardCert":
			s.AddHardCert(cert("hw", false), "hw")
		case "Lock":
			s.Lock([]byte("p"))
		case "Unlock":
			s.Unlock([]byte("p"))
		case "Close":
			s.Close()
		case "Extension":
			s.Extension("ext", []byte("c"))
		case "Forward":
			s.Forward([]byte{27})
		}
	})
	vAssert(!crashed, "C11.operation-completes")
	vTraceCheckAtomic(ops[op], "shim.*")
	vTraceEmit(ops[op])
	vReach("C11.traced")
	// signing through the signer the shim hands out for an in-memory hardware
	// certificate is again an operation on the shim: it may not go around the
	// shim's lock to the shared connection.  (Signers of the underlying
	// agent's own identities are x/crypto's objects and are handed through as
	// they are; they are not among the operations the statement quantifies over.)
	for _, sg := range h11Signers {
		if mem == nil || string(sg.PublicKey().Marshal()) != string(mwCertMarshal(mem)) {
			continue
		}
		vTraceReset()
		crashed = vCatch(func() { sg.Sign(nil, []byte("d")) })
		vAssert(!crashed, "C11.operation-completes")
		vTraceCheckAtomic("SignerSign", "shim.*")
		vTraceEmit("SignerSign")
	}
}
