package yubiagent

//vsym:pkg github.com/theparanoids/ysshra/agent/yubiagent
//vsym:include yubiagent/ctor.go || yubiagent/ctor_bb.go
//vsym:entry H11_no_request_code_takes_the_agent_down
//vsym:include C20/h20_serve.go
//vsym:model golang.org/x/crypto/ssh/agent.NewClient m20NewClient
//vsym:model github.com/theparanoids/ysshra/agent/ssh/connection.GetConn m20GetConn
//vsym:model (*golang.org/x/crypto/ssh/agent.server).processRequestBytes m20Process
//vsym:replay none
//vsym:expect-cover C20.serve.broadcast C20.serve.wait-out-of-range C20.serve.pipelined
//vsym:bound H11_no_request_code_takes_the_agent_down: every operation of every client completes: a request whose code is outside the condition-variable table must not panic the shared agent (ServeAgent over the real *shimagent.Server): every first byte outside 31..35 with 1..2 byte frames, every wait code, two pipelined frames - bounds of C20's serve harnesses
//vsym:assume as C20's h20_serve.go

// The served agent of the shipped binary is the shim agent: no request code
// may crash it; shared with C20.
func H11_no_request_code_takes_the_agent_down() {
	switch vChoose(3, "part") {
	case 0:
		H20_serve_broadcast()
	case 1:
		H20_serve_wait()
	case 2:
		H20_serve_pipelined()
	}
}
