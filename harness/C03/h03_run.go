package gensign

//vsym:pkg github.com/theparanoids/ysshra/gensign
//vsym:entry H03_run_delivery
//vsym:replay same-harness
//vsym:expect-cover C03.run.success C03.run.failed-during-signing C03.run.several-requests-per-key
//vsym:bound H03_run_delivery: gensign.Run over a handler that generates 1..2 agent keys with 1..3 (thorough 1..4) signing requests each (three keys of four requests did not finish within 20 minutes and are outside the claim); the signer answers every request with 0..2 certificates (with parallel comments) or fails at a symbolic request index (or never; index, certificate counts and the agent's refusal are solver variables); the agent key records every AddCertsToAgent call, which may itself fail for the first key; the request context is live, or found done from the moment the CA fails (symbolic)
//vsym:assume AddCertsToAgent is the only step of a run that removes the earlier generation (shown for the shipped agent key by H03_provision); the handler's Authenticate is C01's subject

import (
	"context"
	"errors"

	"github.com/theparanoids/crypki/proto"
	"github.com/theparanoids/ysshra/csr"
	"golang.org/x/crypto/ssh"
)

type m03rPub struct{ id int }

func (k *m03rPub) Type() string                            { return "ssh-model" }
func (k *m03rPub) Marshal() []byte                         { return []byte{'P', byte(k.id)} }
func (k *m03rPub) Verify(d []byte, s *ssh.Signature) error { return nil }

type m03rKey struct {
	reqs     []*proto.SSHCertificateSigningRequest
	added    int
	certs    []ssh.PublicKey
	comments []string
	signedAt int // number of requests the signer had seen when the certificates were delivered
	signer   *m03rSigner
	failAdd  bool
}

func (k *m03rKey) CSRs() []*proto.SSHCertificateSigningRequest { return k.reqs }
func (k *m03rKey) AddCertsToAgent(certs []ssh.PublicKey, comments []string) error {
	k.added++
	k.certs = append(k.certs, certs...)
	k.comments = append(k.comments, comments...)
	k.signedAt = len(k.signer.seen)
	if k.failAdd {
		return errors.New("model: agent refused")
	}
	return nil
}

// a request context that is found done (cancelled, deadline passed) once the CA has failed
type m03rCtx struct {
	context.Context
	done *bool
}

func (c m03rCtx) Err() error {
	if *c.done {
		return context.Canceled
	}
	return nil
}

type m03rSigner struct {
	ctxDone       *bool
	doneAtFailure bool
	seen     []*proto.SSHCertificateSigningRequest
	failAt   int // index of the request that fails, -1: never
	perReq   []int
	returned [][]ssh.PublicKey
	nextID   int
}

func (s *m03rSigner) Sign(ctx context.Context, r *proto.SSHCertificateSigningRequest) ([]ssh.PublicKey, []string, error) {
	i := len(s.seen)
	s.seen = append(s.seen, r)
	if i == s.failAt {
		if s.doneAtFailure && s.ctxDone != nil {
			*s.ctxDone = true
		}
		s.returned = append(s.returned, nil)
		return nil, nil, errors.New("model: CA failed")
	}
	n := 1
	if i < len(s.perReq) {
		n = s.perReq[i]
	}
	var keys []ssh.PublicKey
	var comments []string
	for j := 0; j < n; j++ {
		s.nextID++
		keys = append(keys, &m03rPub{id: s.nextID})
		comments = append(comments, string([]byte{'c', byte('0' + s.nextID)}))
	}
	s.returned = append(s.returned, keys)
	return keys, comments, nil
}

type m03rHandler struct{ keys []csr.AgentKey }

func (h *m03rHandler) Name() string                      { return "model" }
func (h *m03rHandler) Authenticate(p *csr.ReqParam) error { return nil }
func (h *m03rHandler) Generate(p *csr.ReqParam) ([]csr.AgentKey, error) {
	return h.keys, nil
}

func H03_run_delivery() {
	sg := &m03rSigner{failAt: -1}
	maxKeys, maxReqs := 2, 3
	if vThorough() {
		maxKeys, maxReqs = 2, 4
	}
	nkeys := 1 + vChoose(maxKeys, "agent-keys")
	var keys []*m03rKey
	h := &m03rHandler{}
	total := 0
	for i := 0; i < nkeys; i++ {
		k := &m03rKey{signer: sg}
		n := 1 + vChoose(maxReqs, "requests-of-key")
		for j := 0; j < n; j++ {
			k.reqs = append(k.reqs, &proto.SSHCertificateSigningRequest{KeyMeta: &proto.KeyMeta{Identifier: string([]byte{'k', byte('0' + i), byte('0' + j)})}})
			c := vNondetInt("certificates-returned")
			vAssume(vAnd(c >= 0, c <= 2))
			sg.perReq = append(sg.perReq, c)
		}
		total += n
		keys = append(keys, k)
		h.keys = append(h.keys, k)
	}
	// the failing request index, the certificate counts and the agent's refusal are symbolic:
	// which requests are signed, what is delivered and where the run stops is decided by the solver
	sg.failAt = vNondetInt("failing-request")
	vAssume(vAnd(sg.failAt >= -1, sg.failAt < total))
	keys[0].failAdd = vNondetBool("agent-refuses-first-key")

	// the CA failure may coincide with the end of the request context (deadline, cancellation)
	ctxDone := false
	sg.ctxDone, sg.doneAtFailure = &ctxDone, vNondetBool("context-done-when-the-ca-fails")
	err := Run(m03rCtx{Context: context.Background(), done: &ctxDone}, &csr.ReqParam{TransID: "t"}, []Handler{h}, sg)

	// requests reach the signer in order, each once, up to the first failure
	pos := 0
	stopped := false
	for i, k := range keys {
		first := pos
		allSigned := !stopped
		for j := range k.reqs {
			if stopped {
				allSigned = false
				break
			}
			if pos < len(sg.seen) {
				vAssert(sg.seen[pos] == k.reqs[j], "C03.requests-signed-in-order-and-unmodified")
			} else {
				vAssert(false, "C03.every-request-reaches-the-signer")
			}
			if pos == sg.failAt {
				stopped = true
				allSigned = false
			}
			pos++
		}
		if allSigned {
			// everything the CA returned for this key is delivered in one call, after all of it was signed
			vAssert(k.added == 1, "C03.certificates-of-a-key-delivered-once-after-all-were-signed")
			vAssert(k.signedAt >= pos, "C03.certificates-of-a-key-delivered-once-after-all-were-signed")
			var want []ssh.PublicKey
			for q := first; q < pos && q < len(sg.returned); q++ {
				want = append(want, sg.returned[q]...)
			}
			vAssert(len(k.certs) == len(want) && len(k.comments) == len(want), "C03.every-returned-certificate-delivered-with-its-comment")
			for q := 0; q < len(want) && q < len(k.certs); q++ {
				vAssert(k.certs[q] == want[q], "C03.every-returned-certificate-delivered-with-its-comment")
				id := want[q].(*m03rPub).id
				if q < len(k.comments) {
					vAssert(k.comments[q] == string([]byte{'c', byte('0' + id)}), "C03.every-returned-certificate-delivered-with-its-comment")
				}
			}
			if len(k.reqs) > 1 {
				vReach("C03.run.several-requests-per-key")
			}
			if i == 0 && k.failAdd {
				stopped = true
			}
		} else {
			// a key whose signing failed (or that was never reached) is left alone: nothing removed, nothing added
			vAssert(k.added == 0, "C03.failed-signing-leaves-the-agent-untouched")
		}
	}
	vAssert(len(sg.seen) == pos, "C03.nothing-signed-after-a-failure")
	failed := sg.failAt >= 0 || keys[0].failAdd
	if failed {
		vAssert(err != nil && (IsErrorOfType(err, SignerSignErr) || IsErrorOfType(err, AgentOpCertErr)), "C03.failed-run-is-an-error")
		if sg.failAt >= 0 && !(keys[0].failAdd && sg.failAt >= len(keys[0].reqs)) {
			vAssert(IsErrorOfType(err, SignerSignErr), "C03.failed-run-is-an-error")
			vReach("C03.run.failed-during-signing")
		}
	} else {
		vAssert(err == nil, "C03.successful-run-reports-success")
		vReach("C03.run.success")
	}
}
