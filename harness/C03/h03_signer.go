package crypki

//vsym:pkg github.com/theparanoids/ysshra/crypki
//vsym:entry H03_signer_contract
//vsym:include crypki/ctor.go || crypki/ctor_bb.go
//vsym:include C17/h17_failover.go
//vsym:model google.golang.org/grpc.NewClient m17NewClient
//vsym:model (*google.golang.org/grpc.ClientConn).Close m17ConnClose
//vsym:model github.com/theparanoids/crypki/proto.NewSigningClient m17NewSigningClient
//vsym:model golang.org/x/crypto/ssh.ParseAuthorizedKey m17ParseAuthorizedKey
//vsym:model google.golang.org/grpc/status.Errorf m17StatusErrorf
//vsym:model google.golang.org/grpc/status.Code m17StatusCode
//vsym:replay same-harness
//vsym:expect-cover C17.failover.all-failed C17.failover.later-ok
//vsym:bound H03_signer_contract: the run treats "the signer returned no error" as "every request was signed": the shipped signer (crypki.Signer.Sign, with GetPublicKeysFromBytes) never answers with an empty success - bounds of C17's H17_failover
//vsym:assume grpc and ssh.ParseAuthorizedKey modelled as in C17

// The signer behind gensign.Run keeps its side of the contract; shared with C17.
func H03_signer_contract() { H17_failover() }
