package regular

//vsym:pkg github.com/theparanoids/ysshra/gensign/regular
//vsym:include regular/ctor.go || regular/ctor_bb.go
//vsym:entry H03_provision
//vsym:entry H03_lifetime
//vsym:model github.com/theparanoids/ysshra/sshutils/key.GenerateKeyPair m03GenerateKeyPair
//vsym:model golang.org/x/crypto/ssh.MarshalAuthorizedKey m03MarshalAuthorizedKey
//vsym:model encoding/json.Marshal m03JSONMarshal
//vsym:model (*golang.org/x/crypto/ssh.Certificate).Type m03CertType
//vsym:replay same-harness
//vsym:expect-cover C03.success C03.second-generation-replaces-first C03.foreign-identity-kept C03.labelled-identity-removed C03.failed-before-signing C03.agent-fault
//vsym:bound H03_provision: 1..2 runs of gensign.Run with the real regular handler (Authenticate stubbed: C01's subject); 0..1 (thorough 0..2) pre-existing agent identities whose comments are symbolic strings of length 5, 17 or 18 (thorough also 0) (so the handler name, a truncation and super-strings are all values the solver may pick); the CA returns 0..2 keys per request, each a certificate or a plain key; each run may fail at the CA or at one of its first 3 (thorough 5) agent operations; validity symbolic in [1, 315360000]
//vsym:bound H03_lifetime: validity any value in [1, 315360000] (the statement's range: up to 10 years); beyond it uint32(validity)+3600 wraps, which is outside the claim
//vsym:assume a refused agent operation answers with the protocol's generic failure ("agent: failure", what x/crypto's client returns for SSH_AGENT_FAILURE)
//vsym:assume the forwarded agent is a stateful model of the ssh-agent protocol (identity list with blob, comment, lifetime); key generation and JSON as in C02; (*ssh.Certificate).Type is modelled as a '-cert-' type name

import (
	"context"
	"crypto"
	crand "crypto/rand"
	"crypto/ed25519"
	"crypto/x509"
	"errors"

	"github.com/theparanoids/crypki/proto"
	"github.com/theparanoids/ysshra/csr"
	"github.com/theparanoids/ysshra/gensign"
	"github.com/theparanoids/ysshra/message"
	keyutil "github.com/theparanoids/ysshra/sshutils/key"
	"golang.org/x/crypto/ssh"
	ag "golang.org/x/crypto/ssh/agent"
)

type m03Priv struct{ id int }
type m03Pub struct{ id int }

func (k *m03Pub) Type() string                            { return "ssh-model" }
func (k *m03Pub) Marshal() []byte                         { return []byte{'P', byte(k.id)} }
func (k *m03Pub) Verify(d []byte, s *ssh.Signature) error { return nil }

var m03NextKey int

func m03GenerateKeyPair(pka keyutil.PublicKeyAlgo) (crypto.PrivateKey, ssh.PublicKey, error) {
	m03NextKey++
	return &m03Priv{id: m03NextKey}, &m03Pub{id: m03NextKey}, nil
}
func m03MarshalAuthorizedKey(key ssh.PublicKey) []byte { return []byte("AK\n") }
func m03JSONMarshal(v any) ([]byte, error)             { return []byte("{}"), nil }
func m03CertType(c *ssh.Certificate) string            { return "ssh-model-cert-v01@openssh.com" }

// ---- stateful agent ------------------------------------------------------------

type m03Ident struct {
	blob     []byte
	comment  string
	lifetime uint32
	origin   string // "pre", "key", "cert"
	priv     interface{}
	cert     *ssh.Certificate
	run      int
}

type m03Agent struct {
	ids      []*m03Ident
	ops      int
	failAt   int // operation index that fails (-1: none)
	removes  int
	adds     []ag.AddedKey
	run      int
	nextBlob byte
}

func (a *m03Agent) fault() bool {
	a.ops++
	return a.failAt >= 0 && a.ops-1 == a.failAt
}

func (a *m03Agent) List() ([]*ag.Key, error) {
	if a.fault() {
		return nil, errors.New("agent: failure")
	}
	var out []*ag.Key
	for _, id := range a.ids {
		out = append(out, &ag.Key{Format: "ssh-model", Blob: id.blob, Comment: id.comment})
	}
	return out, nil
}
func (a *m03Agent) Add(k ag.AddedKey) error {
	if a.fault() {
		return errors.New("agent: failure")
	}
	a.adds = append(a.adds, k)
	a.nextBlob++
	id := &m03Ident{blob: []byte{'B', a.nextBlob}, comment: k.Comment, lifetime: k.LifetimeSecs, priv: k.PrivateKey, cert: k.Certificate, run: a.run, origin: "key"}
	if k.Certificate != nil {
		id.origin = "cert"
	}
	a.ids = append(a.ids, id)
	return nil
}
func (a *m03Agent) Remove(key ssh.PublicKey) error {
	if a.fault() {
		return errors.New("agent: failure")
	}
	a.removes++
	blob := key.Marshal()
	for i, id := range a.ids {
		if string(id.blob) == string(blob) {
			a.ids = append(a.ids[:i:i], a.ids[i+1:]...)
			return nil
		}
	}
	return errors.New("model: key not found")
}
func (a *m03Agent) RemoveAll() error                                   { a.ids = nil; return nil }
func (a *m03Agent) Sign(ssh.PublicKey, []byte) (*ssh.Signature, error) { return nil, errors.New("no") }
func (a *m03Agent) Lock([]byte) error                                  { return nil }
func (a *m03Agent) Unlock([]byte) error                                { return nil }
func (a *m03Agent) Signers() ([]ssh.Signer, error)                     { return nil, nil }

// ---- CA ------------------------------------------------------------------------

type m03Signer struct {
	during func() // what else happens while this request waits for the CA
	fail   bool
	shape  []bool // per returned key: true = certificate, false = plain key
	issued []*ssh.Certificate
}

func h03Cert() *ssh.Certificate {
	if vIsNative() {
		pub, priv, _ := ed25519.GenerateKey(crand.Reader)
		spub, _ := ssh.NewPublicKey(pub)
		sg, _ := ssh.NewSignerFromKey(priv)
		c := &ssh.Certificate{Key: spub, CertType: ssh.UserCert, ValidBefore: ssh.CertTimeInfinity}
		c.SignCert(crand.Reader, sg)
		return c
	}
	return &ssh.Certificate{KeyId: "issued"}
}

func (s *m03Signer) Sign(ctx context.Context, r *proto.SSHCertificateSigningRequest) ([]ssh.PublicKey, []string, error) {
	if s.during != nil {
		f := s.during
		s.during = nil
		f()
	}
	if s.fail {
		return nil, nil, errors.New("model: CA failed")
	}
	var keys []ssh.PublicKey
	var comments []string
	for _, isCert := range s.shape {
		if isCert {
			c := h03Cert()
			s.issued = append(s.issued, c)
			keys = append(keys, c)
		} else {
			if vIsNative() {
				pub, _, _ := ed25519.GenerateKey(crand.Reader)
				spub, _ := ssh.NewPublicKey(pub)
				keys = append(keys, spub)
			} else {
				keys = append(keys, &m03Pub{id: 99})
			}
		}
		comments = append(comments, "ca")
	}
	return keys, comments, nil
}

// the real handler with authentication stubbed (C01's subject)
type h03Real struct{ *Handler }

func (h h03Real) Authenticate(p *csr.ReqParam) error { return nil }

func h03Contains(s, sub string) bool {
	r := false
	for i := 0; i+len(sub) <= len(s); i++ {
		r = vOr(r, vEqString(s[i:i+len(sub)], sub))
	}
	return r
}

func H03_provision() {
	validity := vNondetU64("validity")
	vAssume(vAnd(validity >= 1, validity <= 315360000))
	agent := &m03Agent{failAt: -1}
	// pre-existing identities
	maxPre, maxFault := 1, 4
	lens := []int{5, 17, 18}
	if vThorough() {
		maxPre, maxFault = 2, 6
		lens = []int{0, 5, 17, 18}
	}
	npre := vChoose(maxPre+1, "pre-existing")
	for i := 0; i < npre; i++ {
		c := vNondetString("comment", lens[vChoose(len(lens), "comment-len")])
		agent.nextBlob++
		agent.ids = append(agent.ids, &m03Ident{blob: []byte{'B', agent.nextBlob}, comment: c, origin: "pre", run: -1})
	}
	h := h03Real{rgNewHandler(validity, agent, map[x509.PublicKeyAlgorithm]string{0: "slot"}, "")}
	param := &csr.ReqParam{LogName: "user", TransID: "t", ClientIP: "1.2.3.4", ReqUser: "u", ReqHost: "h", Attrs: &message.Attributes{}}

	maxRuns := 2
	runs := 1 + vChoose(maxRuns, "runs")
	var prevCerts []*ssh.Certificate // certificates delivered by the last successful run
	for run := 0; run < runs; run++ {
		agent.run = run
		signer := &m03Signer{fail: vChoose(2, "ca-fails") == 1}
		nk := vChoose(3, "keys-returned")
		for i := 0; i < nk; i++ {
			signer.shape = append(signer.shape, vChoose(2, "is-cert") == 1)
		}
		// an agent fault at operation k of this run (or none)
		agent.ops = 0
		agent.failAt = vChoose(maxFault, "agent-fault-at") - 1
		// snapshot
		type snapT struct {
			blob    string
			comment string
			origin  string
			cert    *ssh.Certificate
		}
		var before []snapT
		for _, id := range agent.ids {
			before = append(before, snapT{string(id.blob), id.comment, id.origin, id.cert})
		}
		removes0, adds0 := agent.removes, len(agent.adds)
		key0 := m03NextKey

		err := gensign.Run(context.Background(), param, []gensign.Handler{h}, signer)

		newAdds := agent.adds[adds0:]
		// every identity the RA added has a finite lifetime not shorter than the validity
		for _, a := range newAdds {
			vAssert(a.LifetimeSecs != 0, "C03.lifetime-finite")
			vAssert(uint64(a.LifetimeSecs) >= validity, "C03.lifetime-not-shorter-than-validity")
		}
		// identities without the handler's label are never removed or altered
		for _, b := range before {
			if b.origin == "cert" {
				continue
			}
			labelled := h03Contains(b.comment, "paranoids.regular")
			still := false
			for _, id := range agent.ids {
				if string(id.blob) == b.blob {
					still = true
					vAssert(vEqString(id.comment, b.comment), "C03.unlabelled-identity-unaltered")
				}
			}
			vAssert(vImplies(!labelled, still), "C03.unlabelled-identity-never-removed")
			if b.origin == "pre" {
				vCover(vAnd(!labelled, still), "C03.foreign-identity-kept")
				vCover(vAnd(labelled, !still), "C03.labelled-identity-removed")
			}
		}
		if err != nil {
			failedBeforeDelivery := signer.fail || gensign.IsErrorOfType(err, gensign.HandlerGenCSRErr)
			if failedBeforeDelivery {
				// a run that fails before or during signing leaves previously provisioned certificates in place
				vAssert(agent.removes == removes0, "C03.failed-run-removes-nothing")
				for _, b := range before {
					if b.cert == nil {
						continue
					}
					found := false
					for _, id := range agent.ids {
						if id.cert == b.cert {
							found = true
						}
					}
					vAssert(found, "C03.failed-run-keeps-earlier-certificates")
				}
				vReach("C03.failed-before-signing")
			} else {
				vReach("C03.agent-fault")
				// a delivery that failed half-way may have replaced the earlier generation already
				prevCerts = nil
				for _, id := range agent.ids {
					if id.cert != nil {
						prevCerts = append(prevCerts, id.cert)
					}
				}
			}
			continue
		}
		// success: the new private key alone, and each returned certificate with that private key
		vAssert(m03NextKey == key0+1 || vIsNative(), "C03.one-fresh-key-per-run")
		vAssert(len(newAdds) >= 1 && newAdds[0].Certificate == nil && newAdds[0].PrivateKey != nil, "C03.private-key-added")
		if len(newAdds) < 1 {
			continue
		}
		priv := newAdds[0].PrivateKey
		vAssert(len(newAdds) == 1+len(signer.issued), "C03.every-returned-certificate-added")
		for j, c := range signer.issued {
			if 1+j < len(newAdds) {
				a := newAdds[1+j]
				vAssert(a.Certificate == c, "C03.certificate-stored")
				vAssert(a.PrivateKey == priv, "C03.certificate-stored-with-its-private-key")
			}
		}
		// earlier generations are gone, the new one is there
		for _, c := range prevCerts {
			for _, id := range agent.ids {
				vAssert(id.cert != c, "C03.earlier-generation-removed")
			}
		}
		if len(prevCerts) > 0 {
			vReach("C03.second-generation-replaces-first")
		}
		for _, c := range signer.issued {
			found := false
			for _, id := range agent.ids {
				if id.cert == c && id.priv == priv {
					found = true
				}
			}
			vAssert(found, "C03.agent-holds-new-certificate-with-key")
		}
		prevCerts = signer.issued
		vReach("C03.success")
	}
}

// H03_lifetime: the lifetime arithmetic alone, over the full validity range.
func H03_lifetime() {
	validity := vNondetU64("validity")
	vAssume(vAnd(validity >= 1, validity <= 315360000))
	agent := &m03Agent{failAt: -1}
	h := rgNewHandler(validity, agent, nil, "")
	k, err := h.generateAgentKey()
	vAssert(err == nil && k != nil, "C03.agent-key-created")
	vAssert(len(agent.adds) == 1, "C03.private-key-added")
	for _, a := range agent.adds {
		vAssert(a.LifetimeSecs != 0, "C03.lifetime-finite")
		vAssert(uint64(a.LifetimeSecs) >= validity, "C03.lifetime-not-shorter-than-validity")
	}
}
