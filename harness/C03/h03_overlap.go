package regular

//vsym:pkg github.com/theparanoids/ysshra/gensign/regular
//vsym:include regular/ctor.go || regular/ctor_bb.go
//vsym:include C03/h03.go
//vsym:entry H03_overlapping_requests
//vsym:model github.com/theparanoids/ysshra/sshutils/key.GenerateKeyPair m03GenerateKeyPair
//vsym:model golang.org/x/crypto/ssh.MarshalAuthorizedKey m03MarshalAuthorizedKey
//vsym:model encoding/json.Marshal m03JSONMarshal
//vsym:model (*golang.org/x/crypto/ssh.Certificate).Type m03CertType
//vsym:replay same-harness
//vsym:expect-cover C03.overlap.both-succeeded
//vsym:bound H03_overlapping_requests: two requests of the same user against one agent, each served by its own handler instance with the same configuration; the second runs from start to finish while the first waits for the CA (1..2 certificates each, symbolic validity, 0..1 labelled certificate left by an earlier run): when the first has finished, the certificates of at most one run are in the agent
//vsym:assume as C03 (stateful agent model, key generation and JSON models)

import (
	"context"
	"crypto/x509"

	"github.com/theparanoids/ysshra/csr"
	"github.com/theparanoids/ysshra/gensign"
	"github.com/theparanoids/ysshra/message"
)

// What is replaced is what the agent holds when the new certificates are
// installed, not what it held when the request began: a run that completed in
// between is an earlier run too.
func H03_overlapping_requests() {
	validity := vNondetU64("validity")
	vAssume(vAnd(validity >= 1, validity <= 315360000))
	agent := &m03Agent{failAt: -1}
	if vChoose(2, "earlier-certificate") == 1 {
		agent.nextBlob++
		agent.ids = append(agent.ids, &m03Ident{blob: []byte{'B', agent.nextBlob}, comment: "paranoids.regular-cert", origin: "cert", cert: h03Cert(), run: -1})
	}
	slots := map[x509.PublicKeyAlgorithm]string{0: "slot"}
	first := h03Real{rgNewHandler(validity, agent, slots, "")}
	second := h03Real{rgNewHandler(validity, agent, slots, "")}
	param := func(id string) *csr.ReqParam {
		return &csr.ReqParam{LogName: "user", TransID: id, ClientIP: "1.2.3.4", ReqUser: "u", ReqHost: "h", Attrs: &message.Attributes{}}
	}
	shape := func(name string) []bool {
		var out []bool
		for i := 0; i < 1+vChoose(2, name); i++ {
			out = append(out, true)
		}
		return out
	}
	var innerErr error
	inner := &m03Signer{shape: shape("second-certificates")}
	outer := &m03Signer{shape: shape("first-certificates")}
	outer.during = func() {
		agent.run = 1
		innerErr = gensign.Run(context.Background(), param("t2"), []gensign.Handler{second}, inner)
		agent.run = 0
	}
	agent.run = 0
	err := gensign.Run(context.Background(), param("t1"), []gensign.Handler{first}, outer)
	vRunGoroutines()
	vAssert(err == nil && innerErr == nil, "C03.fault-free-runs-succeed")
	if err != nil || innerErr != nil {
		return
	}
	// the certificates in the agent belong to one run
	seen := map[int]bool{}
	for _, id := range agent.ids {
		if id.cert != nil {
			seen[id.run] = true
		}
	}
	vAssert(len(seen) <= 1, "C03.at-most-one-generation")
	vAssert(seen[0], "C03.certificates-of-the-finished-run-are-there")
	vReach("C03.overlap.both-succeeded")
}
