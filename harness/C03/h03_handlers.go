package regular

//vsym:pkg github.com/theparanoids/ysshra/gensign/regular
//vsym:include regular/ctor.go || regular/ctor_bb.go
//vsym:include C02/h02.go
//vsym:entry H03_handlers_are_independent
//vsym:replay none
//vsym:expect-cover C02.two-handlers
//vsym:bound H03_handlers_are_independent: the agent lifetime of what a handler provisions follows that handler's own configured validity also when another handler with another configuration was built in the same process - bounds of C02's H02_newhandler
//vsym:assume as C02's h02.go

// shared with C02 (NewHandler and Generate are the regular handler's)
func H03_handlers_are_independent() { H02_newhandler() }
