package crypki

// Black-box twin of ctor.go: the signer is built by NewSigner; validation,
// TLS material and the grpc option constructors are models.  Only under vsym.

//vsym:model (*github.com/go-playground/validator/v10.Validate).Struct sgValidate
//vsym:model github.com/theparanoids/ysshra/tlsutils.TLSClientConfiguration sgTLSConf
//vsym:model google.golang.org/grpc/credentials.NewTLS sgNewTLS
//vsym:model google.golang.org/grpc.WithTransportCredentials sgWithTC
//vsym:model google.golang.org/grpc.WithUnaryInterceptor sgWithUI
//vsym:model google.golang.org/grpc.WithStatsHandler sgWithSH

import (
	"crypto/tls"

	"google.golang.org/grpc"
	"google.golang.org/grpc/credentials"
	"google.golang.org/grpc/stats"
)

const sgPeek = false

func sgValidate(_ *int, s interface{}) error { return nil }
func sgTLSConf(certPath, keyPath string, caPaths []string) (*tls.Config, error) {
	return &tls.Config{MinVersion: tls.VersionTLS12}, nil
}
func sgNewTLS(c *tls.Config) credentials.TransportCredentials             { return nil }
func sgWithTC(c credentials.TransportCredentials) grpc.DialOption        { return nil }
func sgWithUI(f grpc.UnaryClientInterceptor) grpc.DialOption             { return nil }
func sgWithSH(h stats.Handler) grpc.DialOption                           { return nil }

func sgNewSigner(targets []string, opts []grpc.DialOption) *Signer {
	if vIsNative() {
		panic("sgNewSigner: no native construction in black-box mode")
	}
	s, err := NewSigner(SignerConfig{TLSClientKeyFile: "k", TLSClientCertFile: "c", TLSCACertFiles: []string{"ca"}, CrypkiEndpoints: targets, CrypkiPort: 1})
	if err != nil || s == nil {
		panic("sgNewSigner: NewSigner failed")
	}
	return s
}

// NewSigner appends the port
func sgTarget(h string) string { return h + ":1" }
