package crypki

// White-box construction of the signer (struct literal).  Fallback: ctor_bb.go.

import "google.golang.org/grpc"

const sgPeek = true

// sgNewSigner: a signer over exactly these dial targets, with these dial options
func sgNewSigner(targets []string, opts []grpc.DialOption) *Signer {
	return &Signer{endpoints: targets, dialOptions: opts}
}

// sgTarget: the dial target the signer uses for host name h
func sgTarget(h string) string { return h }
