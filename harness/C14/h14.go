package csr

//vsym:pkg github.com/theparanoids/ysshra/csr
//vsym:entry H14_forcecommand
//vsym:entry H14_newreqparam
//vsym:entry H14_transid_sequence
//vsym:entry H14_two_requests
//vsym:model encoding/json.Unmarshal m14JSONUnmarshal
//vsym:model net.ParseIP m14ParseIP
//vsym:model (net.IP).String m14IPString
//vsym:model crypto/rand.Read m14RandRead
//vsym:replay same-harness
//vsym:expect-cover C14.fc.ok C14.fc.too-few C14.fc.too-many C14.fc.bad-policy C14.ok-json C14.ok-legacy C14.err-message C14.err-logname C14.err-ip C14.err-version C14.default-version C14.json-null C14.wrong-type-falls-back C14.sequence C14.two-requests
//vsym:bound H14_forcecommand: 0..8 tokens spread over the argument vector in three ways (one per argument, all in one argument, first two joined); the second-to-last token 4 symbolic non-space bytes (NONS, NSOK or anything else), the others 1 symbolic non-space byte
//vsym:bound H14_newreqparam: SSH_ORIGINAL_COMMAND either JSON (decoder outcome: arbitrary attributes with 0..3- or 7-byte symbolic version, 0..1-byte user/host; or null) or legacy text built from 0..2 tokens (req, SSHClientVersion, HardKey, a 1-byte symbolic key) with 0- or 3-byte symbolic values; LOGNAME 0..2 symbolic bytes; SSH_CONNECTION 0..2 fields of 1 symbolic byte; argv from {3 valid tokens, split tokens, too few, bad policy}; the message shapes and the environment shapes are swept one factor at a time (NewReqParam reads them independently)
//vsym:bound H14_two_requests: two JSON requests in one process, each stating or omitting the client version, user (1 symbolic byte) and host (1 symbolic byte): 64 combinations; the second is judged as in a fresh process
//vsym:bound H14_transid_sequence: 14 (thorough 40) accepted requests in one process; every id must be the hex of 5 consecutive crypto/rand bytes no earlier id consumed (randomness may be drawn in larger portions)
//vsym:assume encoding/json is modelled by its contract (see C15); net.ParseIP is an uninterpreted predicate of its argument, (net.IP).String yields the parsed text when that was canonical (a symbolic flag) and another text otherwise; crypto/rand.Read yields arbitrary bytes; the regexp ^\d+\.\d+$ is decided by a byte-class encoding

import (
	crand "crypto/rand"
	"encoding/json"
	"errors"
	"net"
	"strings"

	"github.com/theparanoids/ysshra/common"
	"github.com/theparanoids/ysshra/message"
	"github.com/theparanoids/ysshra/sshutils/version"
)

var m14JSONOutcome int // 0 invalid, 1 null, 2 object
var m14Obj *message.Attributes
var m14IPValid bool
var m14IPArg string
var m14Stream []byte // every byte crypto/rand delivered so far, in order
var m14Used []bool   // ... and whether a transaction id already consumed it

type h14Reader struct{}

// natively crypto/rand.Reader is replaced by this reader, which delivers the
// counterexample's bytes exactly as the model's crypto/rand.Read does
func (h14Reader) Read(b []byte) (int, error) { return m14RandRead(b) }

func m14JSONUnmarshal(data []byte, v any) error {
	// a decoding hook on the destination type is honoured as encoding/json does
	if u, ok := v.(json.Unmarshaler); ok {
		return u.UnmarshalJSON(data)
	}
	// inside such a hook the destination is usually a method-less twin type
	if w := vRetype(v, (*message.Attributes)(nil)); w != nil {
		v = w
	}
	var p *message.Attributes
	pp, isPP := v.(**message.Attributes)
	if isPP {
		p = *pp
	} else if q, ok := v.(*message.Attributes); ok {
		p = q
	} else {
		panic("m14JSONUnmarshal: unexpected destination type")
	}
	switch m14JSONOutcome {
	case 1:
		if isPP {
			*pp = nil
		}
		return nil
	case 3:
		// a wrongly typed value: the other fields are stored, then the error is reported
		o := m14Obj
		p.SSHClientVersion, p.Username, p.Hostname, p.HardKey = o.SSHClientVersion, o.Username, o.Hostname, o.HardKey
		return errors.New("model: json: cannot unmarshal string into Go struct field Attributes.ifVer of type int")
	case 2:
		// a key that occurs sets its field, a key that does not occur leaves
		// the field as it was (an empty / zero value in m14Obj stands for
		// "this key does not occur in the text")
		o := m14Obj
		if o.IfVer != 0 {
			p.IfVer = o.IfVer
		}
		if o.SSHClientVersion != "" {
			p.SSHClientVersion = o.SSHClientVersion
		}
		if o.Username != "" {
			p.Username = o.Username
		}
		if o.Hostname != "" {
			p.Hostname = o.Hostname
		}
		if o.HardKey {
			p.HardKey = true
		}
		return nil
	}
	return errors.New("model: invalid JSON")
}

func m14ParseIP(s string) net.IP {
	m14IPArg = s
	if m14IPValid {
		return net.IP{1, 2, 3, 4}
	}
	return nil
}

// the canonical text of a parsed address: the text that was parsed when that was canonical,
// another text otherwise (IPv4-mapped, upper-case or uncompressed spellings are valid and not canonical)
var m14IPCanonical bool

func m14IPString(ip net.IP) string {
	if m14IPCanonical {
		return m14IPArg
	}
	return "canonical:" + m14IPArg
}

func m14RandRead(b []byte) (int, error) {
	fresh := vNondetBytes("rand", len(b))
	copy(b, fresh)
	m14Stream = append(m14Stream, fresh...)
	m14Used = append(m14Used, make([]bool, len(fresh))...)
	return len(b), nil
}

func h14NoSpace(s string) string {
	for i := 0; i < len(s); i++ {
		vAssume(s[i] != ' ')
	}
	return s
}

func H14_forcecommand() {
	l := vChoose(9, "tokens") // 0..8 tokens in total
	var tokens []string
	for i := 0; i < l; i++ {
		if i == l-2 {
			tokens = append(tokens, h14NoSpace(vNondetString("policy-token", 4))) // may be NONS, NSOK or anything else
		} else {
			tokens = append(tokens, h14NoSpace(vNondetString("tok", 1)))
		}
	}
	// how the tokens are spread over the argument vector
	var argv []string
	switch vChoose(3, "grouping") {
	case 0:
		argv = append(argv, tokens...)
	case 1:
		if l > 0 {
			argv = []string{strings.Join(tokens, " ")}
		}
	case 2:
		if l >= 2 {
			argv = append([]string{tokens[0] + " " + tokens[1]}, tokens[2:]...)
		} else {
			argv = append(argv, tokens...)
		}
	}
	var pol common.NamespacePolicy
	var handler string
	var err error
	crashed := vCatch(func() { pol, handler, err = parseForceCommand(argv) })
	vAssert(!crashed, "C14.forcecommand-never-crashes")
	if crashed {
		return
	}
	if l < 3 || l > 6 {
		vAssert(err != nil, "C14.forcecommand-needs-3-to-6-tokens")
		if l < 3 {
			vReach("C14.fc.too-few")
		} else {
			vReach("C14.fc.too-many")
		}
		return
	}
	p := tokens[l-2]
	valid := vOr(vEqString(p, "NONS"), vEqString(p, "NSOK"))
	vAssert(vIff(err == nil, valid), "C14.policy-must-be-one-of-the-two-defined-values")
	vCover(!valid, "C14.fc.bad-policy")
	if err == nil {
		vAssert(vEqString(string(pol), p), "C14.policy-is-the-second-to-last-token")
		vAssert(vEqString(handler, tokens[l-1]), "C14.handler-is-the-last-token")
		vReach("C14.fc.ok")
	}
}

func h14Digits(s string) bool {
	ok := true
	for i := 0; i < len(s); i++ {
		ok = vAnd(ok, vAnd(s[i] >= '0', s[i] <= '9'))
	}
	return vAnd(ok, len(s) > 0)
}

func H14_newreqparam() {
	// SSH_ORIGINAL_COMMAND
	// two sweeps: (0) every message shape with a well-formed environment,
	// (1) a well-formed JSON message with every LOGNAME / SSH_CONNECTION / argv shape
	focus := vChoose(2, "focus")
	var cmd string
	kind := 0
	if focus == 0 {
		kind = vChoose(4, "command-kind") // 0 JSON object, 1 JSON null, 2 legacy / other text, 3 a JSON object with a wrongly typed field (decoding fails after other fields were stored) whose text carries legacy tokens
	}
	var declaredVersion, declaredUser, declaredHost string
	wrongType := false
	legacyHasVersion := false
	switch kind {
	case 0:
		m14JSONOutcome = 2
		vlens := []int{0, 1, 2, 3, 7} // 7: room for a five-digit component (65536 and above must be refused)
		m14Obj = &message.Attributes{IfVer: 7, SSHClientVersion: vNondetString("version", vlens[vChoose(len(vlens), "version-len")]),
			Username: vNondetString("user", vChoose(2, "user-len")), Hostname: vNondetString("host", vChoose(2, "host-len")), HardKey: vNondetBool("hardkey")}
		declaredVersion, declaredUser, declaredHost = m14Obj.SSHClientVersion, m14Obj.Username, m14Obj.Hostname
		cmd = "{\"model\":1}"
		if vIsNative() {
			b, _ := json.Marshal(m14Obj)
			cmd = string(b)
		}
	case 1:
		m14JSONOutcome = 1
		cmd = "null"
		vReach("C14.json-null")
	case 3:
		// encoding/json reports the type error only after decoding the rest
		m14JSONOutcome = 3
		m14Obj = &message.Attributes{SSHClientVersion: "9.9", HardKey: true, Username: "eve", Hostname: "evil"}
		u, h := vNondetString("luser", 1), vNondetString("lhost", 1)
		vAssume(vAnd(vAnd(u[0] > 0x20, u[0] < 0x7f), vAnd(u[0] != '@', u[0] != '"')))
		vAssume(vAnd(vAnd(h[0] > 0x20, h[0] < 0x7f), vAnd(h[0] != '@', h[0] != '"')))
		vAssume(vAnd(u[0] != '\\', h[0] != '\\'))
		cmd = "{\"sshClientVersion\":\"9.9\",\"hardKey\":true,\"username\":\"eve\",\"hostname\":\"evil\",\"ifVer\":\"6\",\"note\":\" req=" + u + "@" + h + " \"}"
		declaredUser, declaredHost = u, h
		kind = 2 // judged as the legacy text it falls back to
		wrongType = true
	case 2:
		m14JSONOutcome = 0
		var toks []string
		nt := vChoose(3, "legacy-tokens")
		for i := 0; i < nt; i++ {
			val := vNondetString("value", 3*vChoose(2, "value-len"))
			for j := 0; j < len(val); j++ {
				vAssume(vAnd(val[j] > 0x20, val[j] < 0x7f))
			}
			switch vChoose(4, "legacy-key") {
			case 0:
				u, h := vNondetString("luser", 1), vNondetString("lhost", 1)
				vAssume(vAnd(vAnd(u[0] > 0x20, u[0] < 0x7f), u[0] != '@'))
				vAssume(vAnd(vAnd(h[0] > 0x20, h[0] < 0x7f), h[0] != '@'))
				toks = append(toks, "req="+u+"@"+h)
				declaredUser, declaredHost = u, h
			case 1:
				toks = append(toks, "SSHClientVersion="+val)
				declaredVersion = val
				legacyHasVersion = true
			case 2:
				toks = append(toks, "HardKey="+val)
			case 3:
				k := vNondetString("key", 1)
				vAssume(vAnd(vAnd(k[0] > 0x20, k[0] < 0x7f), k[0] != '='))
				toks = append(toks, k+"="+val)
			}
		}
		cmd = strings.Join(toks, " ")
		if vIsNative() && (len(cmd) == 0 || cmd[0] == '{' || cmd[0] == 'n' || cmd[0] == '"' || cmd[0] == '[' || (cmd[0] >= '0' && cmd[0] <= '9') || cmd[0] == '-' || cmd[0] == 't' || cmd[0] == 'f') {
			vAssume(false) // natively such text might be JSON; the model said it is not
		}
	}
	lnLen, nf, argKind := 1, 2, 0
	if focus == 1 {
		lnLen, nf, argKind = vChoose(3, "logname-len"), vChoose(3, "connection-fields"), vChoose(4, "argv")
	}
	logName := vNondetString("logname", lnLen)
	var conn string
	var firstField string
	for i := 0; i < nf; i++ {
		f := vNondetString("field", 1)
		vAssume(f[0] != ' ')
		if i == 0 {
			firstField = f
		} else {
			conn += " "
		}
		conn += f
	}
	m14IPValid = vNondetBool("ip-valid")
	m14IPCanonical = vNondetBool("ip-text-canonical")
	if nf == 0 {
		vAssume(!m14IPValid) // the empty string is not an IP address
	}
	if vIsNative() {
		// natively the predicate is the real parser: pick a text with the same verdict
		if m14IPValid && !m14IPCanonical {
			firstField = "0:0:0:0:0:0:0:1"
		} else if m14IPValid {
			firstField = "1.2.3.4"
		} else {
			firstField = "x"
		}
		conn = firstField + " 22"
		if nf == 0 {
			conn, firstField = "", ""
		}
	}
	var argv []string
	wantPolicy := "NONS"
	switch argKind {
	case 0:
		argv = []string{"/usr/bin/gensign", "NONS", "regular"}
	case 1:
		argv = []string{"/usr/bin/gensign -x", "NSOK regular"}
		wantPolicy = "NSOK"
	case 2:
		argv = []string{"/usr/bin/gensign", "regular"}
	case 3:
		argv = []string{"/usr/bin/gensign", "nons", "regular"}
	}
	env := func(k string) string {
		switch k {
		case "SSH_ORIGINAL_COMMAND":
			return cmd
		case "LOGNAME":
			return logName
		case "SSH_CONNECTION":
			return conn
		}
		return ""
	}
	if vIsNative() {
		saved := crand.Reader
		crand.Reader = h14Reader{}
		defer func() { crand.Reader = saved }()
	}
	var p *ReqParam
	var err error
	crashed := vCatch(func() { p, err = NewReqParam(env, func() []string { return argv }) })
	vFact("command-kind", kind)
	vAssert(!crashed, "C14.newreqparam-never-crashes")
	if crashed {
		return
	}
	if err != nil {
		vAssert(p == nil, "C14.error-returns-no-parameters")
		switch {
		case kind == 1 || (kind == 0 && (declaredVersion == "" || declaredUser == "" || declaredHost == "")) || (kind == 2 && declaredUser == ""):
			vReach("C14.err-message")
		case len(logName) == 0:
			vReach("C14.err-logname")
		case !m14IPValid:
			vReach("C14.err-ip")
		case argKind < 2:
			vReach("C14.err-version")
		}
		return
	}
	vAssert(p != nil, "C14.success-returns-parameters")
	if p == nil {
		return
	}
	vAssert(kind != 1, "C14.json-null-is-refused")
	vAssert(len(logName) > 0 && vEqString(p.LogName, logName), "C14.login-name-is-the-non-empty-server-side-one")
	vAssert(m14IPValid || vIsNative(), "C14.client-ip-syntactically-valid")
	vAssert(vEqString(p.ClientIP, firstField), "C14.client-ip-is-the-first-field-of-the-connection-string")
	if !vIsNative() {
		vAssert(vEqString(m14IPArg, firstField), "C14.the-first-field-is-what-was-validated")
	}
	vAssert(argKind < 2, "C14.forced-command-must-carry-a-valid-policy")
	vAssert(string(p.NamespacePolicy) == wantPolicy && p.HandlerName == "regular", "C14.policy-and-handler-from-the-forced-command")
	vAssert(vEqString(p.ReqUser, declaredUser) && vEqString(p.ReqHost, declaredHost), "C14.client-user-and-host-copied-verbatim")
	if wrongType {
		// nothing of the failed JSON attempt shows in the legacy result
		vAssert(p.Attrs != nil && !p.Attrs.HardKey, "C14.failed-json-attempt-leaves-no-trace")
		vReach("C14.wrong-type-falls-back")
	}
	// version: declared major.minor, or 0.0 when a legacy message omits it
	_ = legacyHasVersion
	if kind == 2 && declaredVersion == "" {
		vAssert(p.SSHClientVersion.Marshal() == "0.0", "C14.default-version-when-legacy-omits-it")
		vReach("C14.default-version")
	} else {
		v := declaredVersion
		dot := -1
		for i := 0; i < len(v); i++ {
			if dot < 0 && v[i] == '.' {
				dot = i
			}
		}
		vAssert(dot > 0 && dot < len(v)-1, "C14.version-has-major-dot-minor-form")
		if dot > 0 && dot < len(v)-1 {
			vAssert(vAnd(h14Digits(v[:dot]), h14Digits(v[dot+1:])), "C14.version-has-major-dot-minor-form")
			maj, min := h14Decimal(v[:dot]), h14Decimal(v[dot+1:])
			vAssert(vAnd(maj <= 65535, min <= 65535), "C14.version-components-fit-16-bits")
			vAssert(p.SSHClientVersion == version.New(uint16(maj), uint16(min)), "C14.version-equals-the-declared-one")
		}
	}
	// transaction id: 10 hex digits of 5 random bytes no earlier id used
	h14FreshTransID(p.TransID)
	if kind == 0 {
		vReach("C14.ok-json")
	} else {
		vReach("C14.ok-legacy")
	}
}

// h14Decimal: the value of a decimal digit string (at most 6 digits)
func h14Decimal(s string) uint32 {
	var v uint32
	for i := 0; i < len(s); i++ {
		v = v*10 + uint32(s[i]-'0')
	}
	return v
}

// h14FreshTransID: the id is the lower-case hex of 5 consecutive bytes that
// crypto/rand delivered and that no earlier id consumed (an implementation
// may draw its randomness in larger portions).
func h14FreshTransID(id string) {
	vAssert(len(id) == 10, "C14.transaction-id-has-10-characters")
	if len(id) != 10 {
		return
	}
	window := func(a int) bool {
		ok := true
		for i := 0; i < 5; i++ {
			r := m14Stream[a+i]
			ok = vAnd(ok, vAnd(id[2*i] == h14Hex(r>>4), id[2*i+1] == h14Hex(r&15)))
		}
		return ok
	}
	unused := func(a int) bool {
		for i := 0; i < 5; i++ {
			if m14Used[a+i] {
				return false
			}
		}
		return true
	}
	some := false
	for a := 0; a+5 <= len(m14Stream); a++ {
		if unused(a) {
			some = vOr(some, window(a))
		}
	}
	vAssert(some, "C14.transaction-id-is-the-hex-of-5-unused-random-bytes")
	for a := 0; a+5 <= len(m14Stream); a++ {
		if unused(a) && vProvable(window(a)) {
			for i := 0; i < 5; i++ {
				m14Used[a+i] = true
			}
			return
		}
	}
}

// H14_two_requests: two requests served by one process: what the second one
// is answered depends on the second one alone.
func H14_two_requests() {
	m14IPValid = true
	var p *ReqParam
	var err error
	for round := 0; round < 2; round++ {
		tag := []string{"first-", ""}[round]
		m14JSONOutcome = 2
		has := func(name string) string {
			if vChoose(2, tag+name+"-present") == 1 {
				s := vNondetString(tag+name, 1)
				vAssume(vAnd(s[0] > 0x20, s[0] < 0x7f))
				return s
			}
			return ""
		}
		ver := ""
		if vChoose(2, tag+"version-present") == 1 {
			ver = "8.1"
		}
		m14Obj = &message.Attributes{IfVer: 7, SSHClientVersion: ver, Username: has("user"), Hostname: has("host")}
		cmd := "{\"model\":1}"
		if vIsNative() {
			b, _ := json.Marshal(map[string]any{"ifVer": 7})
			if m14Obj.SSHClientVersion != "" || m14Obj.Username != "" || m14Obj.Hostname != "" {
				mm := map[string]any{"ifVer": 7}
				if m14Obj.SSHClientVersion != "" {
					mm["sshClientVersion"] = m14Obj.SSHClientVersion
				}
				if m14Obj.Username != "" {
					mm["username"] = m14Obj.Username
				}
				if m14Obj.Hostname != "" {
					mm["hostname"] = m14Obj.Hostname
				}
				b, _ = json.Marshal(mm)
			}
			cmd = string(b)
		}
		env := func(k string) string {
			switch k {
			case "SSH_ORIGINAL_COMMAND":
				return cmd
			case "LOGNAME":
				return "u"
			case "SSH_CONNECTION":
				return "1.2.3.4 22"
			}
			return ""
		}
		obj := m14Obj
		if vIsNative() {
			saved := crand.Reader
			crand.Reader = h14Reader{}
			defer func() { crand.Reader = saved }()
		}
		crashed := vCatch(func() {
			p, err = NewReqParam(env, func() []string { return []string{"/usr/bin/gensign", "NONS", "regular"} })
		})
		vAssert(!crashed, "C14.newreqparam-never-crashes")
		if crashed {
			return
		}
		complete := obj.SSHClientVersion != "" && obj.Username != "" && obj.Hostname != ""
		vAssert((err == nil) == complete, "C14.request-judged-on-its-own-text")
		if err == nil && p != nil {
			vAssert(vEqString(p.ReqUser, obj.Username) && vEqString(p.ReqHost, obj.Hostname), "C14.client-user-and-host-copied-verbatim")
			vAssert(p.Attrs != nil && !p.Attrs.HardKey, "C14.request-judged-on-its-own-text")
		}
	}
	vReach("C14.two-requests")
}

// H14_transid_sequence: many requests in one process, every id fresh.
func H14_transid_sequence() {
	n := 14
	if vThorough() {
		n = 40
	}
	m14JSONOutcome = 0 // legacy text
	m14IPValid = true
	env := func(k string) string {
		switch k {
		case "SSH_ORIGINAL_COMMAND":
			return "req=u@h SSHClientVersion=8.1"
		case "LOGNAME":
			return "u"
		case "SSH_CONNECTION":
			return "1.2.3.4 22"
		}
		return ""
	}
	if vIsNative() {
		saved := crand.Reader
		crand.Reader = h14Reader{}
		defer func() { crand.Reader = saved }()
	}
	for i := 0; i < n; i++ {
		var p *ReqParam
		var err error
		crashed := vCatch(func() {
			p, err = NewReqParam(env, func() []string { return []string{"/usr/bin/gensign", "NONS", "regular"} })
		})
		vAssert(!crashed, "C14.newreqparam-never-crashes")
		vAssert(!crashed && err == nil && p != nil, "C14.sequence-every-request-accepted")
		if crashed || err != nil || p == nil {
			return
		}
		h14FreshTransID(p.TransID)
	}
	vReach("C14.sequence")
}

func h14Hex(n byte) byte {
	return vIteU8(n < 10, '0'+n, 'a'+n-10)
}
