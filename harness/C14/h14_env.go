package csr

//vsym:pkg github.com/theparanoids/ysshra/csr
//vsym:entry H14_changing_environment
//vsym:include C14/h14.go
//vsym:model encoding/json.Unmarshal m14JSONUnmarshal
//vsym:model net.ParseIP e14ParseIP
//vsym:model crypto/rand.Read m14RandRead
//vsym:replay same-harness
//vsym:expect-cover C14.env.accepted
//vsym:bound H14_changing_environment: a well-formed JSON request; the environment getter answers the first k reads (k = 1..3) of LOGNAME with a login name and of SSH_CONNECTION with a valid address, and every later read with the empty string / a string that is no address: parameters that are returned carry a checked login name and a checked address
//vsym:assume encoding/json is modelled by its contract (see C15); net.ParseIP accepts exactly the address used here

import (
	crand "crypto/rand"
	"encoding/json"
	"net"

	"github.com/theparanoids/ysshra/message"
)

// The values that are checked are the values that are returned: the
// environment getter is the caller's function and need not answer the same
// thing twice.

func e14ParseIP(s string) net.IP {
	if s == "1.2.3.4" {
		return net.IP{1, 2, 3, 4}
	}
	return nil
}

func H14_changing_environment() {
	m14JSONOutcome = 2
	m14Obj = &message.Attributes{IfVer: 7, SSHClientVersion: "8.1", Username: "u", Hostname: "h"}
	cmd := "{\"model\":1}"
	if vIsNative() {
		b, _ := json.Marshal(m14Obj)
		cmd = string(b)
		saved := crand.Reader
		crand.Reader = h14Reader{}
		defer func() { crand.Reader = saved }()
	}
	stable := 1 + vChoose(3, "stable-reads")
	reads := map[string]int{}
	env := func(k string) string {
		reads[k]++
		late := reads[k] > stable
		switch k {
		case "SSH_ORIGINAL_COMMAND":
			return cmd
		case "LOGNAME":
			if late {
				return ""
			}
			return "alice"
		case "SSH_CONNECTION":
			if late {
				return "x;rm 22"
			}
			return "1.2.3.4 22"
		}
		return ""
	}
	var p *ReqParam
	var err error
	crashed := vCatch(func() {
		p, err = NewReqParam(env, func() []string { return []string{"/usr/bin/gensign", "NONS", "regular"} })
	})
	vAssert(!crashed, "C14.newreqparam-never-crashes")
	if crashed || err != nil || p == nil {
		return
	}
	vAssert(p.ClientIP == "1.2.3.4", "C14.client-ip-syntactically-valid")
	vAssert(p.LogName == "alice", "C14.login-name-is-the-non-empty-server-side-one")
	vReach("C14.env.accepted")
}
