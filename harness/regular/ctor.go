package regular

// White-box construction of the regular handler (struct literal over its
// unexported fields).  When it does not compile against the current tree the
// driver falls back to ctor_bb.go, which goes through NewHandler.

import (
	"crypto/x509"
	"errors"

	"github.com/theparanoids/ysshra/config"
	ag "golang.org/x/crypto/ssh/agent"
)

const rgPeek = true

// counterparts of the black-box file's models (a harness with its own models
// of these functions delegates to them outside its own scenario)
func rgExtractHandlerConf(g *config.GensignConfig, name string, target interface{}) error {
	return errors.New("model: not used in white-box mode")
}
func rgNewClient(rw interface {
	Read([]byte) (int, error)
	Write([]byte) (int, error)
}) ag.ExtendedAgent {
	return nil
}

func rgNewHandler(validity uint64, agent ag.Agent, ids map[x509.PublicKeyAlgorithm]string, pubKeyDir string) *Handler {
	return &Handler{certValiditySec: validity, agent: agent, conf: &conf{CertValiditySec: validity, KeyIdentifiers: ids, PubKeyDir: pubKeyDir}}
}
