package regular

// Black-box twin of ctor.go: the handler is built by NewHandler; the
// configuration decoder (mapstructure) and the agent client are models.
// Only under vsym: a counterexample found in this mode has no native replay.

//vsym:model (*github.com/theparanoids/ysshra/config.GensignConfig).ExtractHandlerConf rgExtractHandlerConf
//vsym:model golang.org/x/crypto/ssh/agent.NewClient rgNewClient

import (
	"crypto/x509"
	"errors"

	"github.com/theparanoids/ysshra/config"
	"golang.org/x/crypto/ssh"
	ag "golang.org/x/crypto/ssh/agent"
)

const rgPeek = false

var rgCfg struct {
	validity uint64
	ids      map[x509.PublicKeyAlgorithm]string
	dir      string
}
var rgAgent ag.Agent

func rgExtractHandlerConf(g *config.GensignConfig, name string, target interface{}) error {
	c, ok := target.(*conf)
	if !ok || name != HandlerName {
		return errors.New("model: unexpected handler configuration target")
	}
	// as a weakly typed configuration decoder does: numbers are converted to
	// the field's type, a map is filled in place when the target has one
	if !vSetField(c, "CertValiditySec", rgCfg.validity) {
		return errors.New("model: no CertValiditySec field")
	}
	if c.KeyIdentifiers == nil && rgCfg.ids != nil {
		c.KeyIdentifiers = map[x509.PublicKeyAlgorithm]string{}
	}
	for k, v := range rgCfg.ids {
		c.KeyIdentifiers[k] = v
	}
	c.PubKeyDir = rgCfg.dir
	return nil
}

type rgExtAgent struct{ ag.Agent }

func (rgExtAgent) SignWithFlags(ssh.PublicKey, []byte, ag.SignatureFlags) (*ssh.Signature, error) {
	return nil, errors.New("model: not an extended agent")
}
func (rgExtAgent) Extension(string, []byte) ([]byte, error) {
	return nil, errors.New("model: not an extended agent")
}

func rgNewClient(rw interface {
	Read([]byte) (int, error)
	Write([]byte) (int, error)
}) ag.ExtendedAgent {
	return rgExtAgent{rgAgent}
}

func rgNewHandler(validity uint64, agent ag.Agent, ids map[x509.PublicKeyAlgorithm]string, pubKeyDir string) *Handler {
	if vIsNative() {
		panic("rgNewHandler: no native construction in black-box mode")
	}
	rgCfg.validity, rgCfg.ids, rgCfg.dir = validity, ids, pubKeyDir
	rgAgent = agent
	gh, err := NewHandler(&config.GensignConfig{}, nil)
	if err != nil {
		panic("rgNewHandler: NewHandler failed: " + err.Error())
	}
	h, ok := gh.(*Handler)
	if !ok {
		panic("rgNewHandler: NewHandler did not return a *Handler")
	}
	return h
}
