package regular

//vsym:pkg github.com/theparanoids/ysshra/gensign/regular
//vsym:include regular/ctor.go || regular/ctor_bb.go
//vsym:entry H02_generate
//vsym:entry H02_newhandler
//vsym:model (*github.com/theparanoids/ysshra/config.GensignConfig).ExtractHandlerConf m02ExtractHandlerConf
//vsym:model golang.org/x/crypto/ssh/agent.NewClient m02NewClient
//vsym:model github.com/theparanoids/ysshra/sshutils/key.GenerateKeyPair m02GenerateKeyPair
//vsym:model golang.org/x/crypto/ssh.MarshalAuthorizedKey m02MarshalAuthorizedKey
//vsym:model encoding/json.Marshal m02JSONMarshal
//vsym:replay same-harness
//vsym:expect-cover C02.newhandler-wired C02.request-built C02.no-identifier C02.keygen-failed C02.two-handlers
//vsym:bound H02_generate: every ReqParam string (log name, transaction id, client IP, client-declared user and host) symbolic with one common length 0..2 bytes (any byte value); requested CA key algorithm any int; configured validity any 64-bit value; key-identifier map of 0..2 entries with symbolic algorithm keys; Generate called twice
//vsym:bound H02_newhandler: NewHandler with the configuration decoder modelled as filling the handler configuration with an arbitrary validity and one key identifier, then one Generate; then a second NewHandler with another validity and another key-slot table, and the first handler used again
//vsym:assume key generation yields a fresh key pair object per call (model of key.GenerateKeyPair); encoding/json.Marshal records the value it is given (JSON escaping is the standard library's); the agent is a model behind the agent interface; mapstructure's traversal is modelled (ExtractHandlerConf fills the target with arbitrary values); NewHandler's own wiring is executed

import (
	"crypto"
	"crypto/ecdsa"
	"crypto/ed25519"
	"crypto/rsa"
	"crypto/x509"
	"encoding/json"
	"errors"

	"github.com/theparanoids/ysshra/config"
	"github.com/theparanoids/ysshra/csr"
	"github.com/theparanoids/ysshra/gensign"
	"github.com/theparanoids/ysshra/keyid"
	"github.com/theparanoids/ysshra/message"
	keyutil "github.com/theparanoids/ysshra/sshutils/key"
	"golang.org/x/crypto/ssh"
	ag "golang.org/x/crypto/ssh/agent"
)

type m02Priv struct{ id int }
type m02Pub struct{ id int }

func (k *m02Pub) Type() string                            { return "ssh-model" }
func (k *m02Pub) Marshal() []byte                         { return []byte{'P', byte(k.id)} }
func (k *m02Pub) Verify(d []byte, s *ssh.Signature) error { return nil }

var m02NextKey int
var m02KeygenFails bool
var m02JSONSeen []*keyid.KeyID
var m02JSONOut []string

func m02GenerateKeyPair(pka keyutil.PublicKeyAlgo) (crypto.PrivateKey, ssh.PublicKey, error) {
	if m02KeygenFails {
		return nil, nil, errors.New("model: key generation failed")
	}
	m02NextKey++
	return &m02Priv{id: m02NextKey}, &m02Pub{id: m02NextKey}, nil
}

func m02MarshalAuthorizedKey(key ssh.PublicKey) []byte {
	p, ok := key.(*m02Pub)
	if !ok {
		return []byte("AK?\n")
	}
	return []byte{'A', 'K', byte(p.id), '\n'}
}

func m02JSONMarshal(v any) ([]byte, error) {
	// encoding hooks of the value's type are honoured as encoding/json does
	if m, ok := v.(json.Marshaler); ok {
		return m.MarshalJSON()
	}
	if w := vRetype(v, (*keyid.KeyID)(nil)); w != nil {
		v = w
	}
	k, ok := v.(*keyid.KeyID)
	if !ok {
		panic("m02JSONMarshal: unexpected type")
	}
	snap := *k
	snap.Principals = append([]string(nil), k.Principals...)
	m02JSONSeen = append(m02JSONSeen, &snap)
	out := string([]byte{'J', 'S', 'O', 'N', byte(len(m02JSONSeen))})
	m02JSONOut = append(m02JSONOut, out)
	return []byte(out), nil
}

// the forwarded agent: records what it is given
type m02Agent struct{ added []ag.AddedKey }

func (a *m02Agent) List() ([]*ag.Key, error)                           { return nil, nil }
func (a *m02Agent) Sign(ssh.PublicKey, []byte) (*ssh.Signature, error) { return nil, errors.New("no") }
func (a *m02Agent) Add(k ag.AddedKey) error                            { a.added = append(a.added, k); return nil }
func (a *m02Agent) Remove(ssh.PublicKey) error                         { return nil }
func (a *m02Agent) RemoveAll() error                                   { return nil }
func (a *m02Agent) Lock([]byte) error                                  { return nil }
func (a *m02Agent) Unlock([]byte) error                                { return nil }
func (a *m02Agent) Signers() ([]ssh.Signer, error)                     { return nil, nil }

// the fixed default extension set (PROTOCOL.certkeys / README), written independently
var s02Extensions = []string{"permit-pty", "permit-X11-forwarding", "permit-agent-forwarding", "permit-port-forwarding", "permit-user-rc"}

func h02PublicOf(priv interface{}) ssh.PublicKey {
	var pub crypto.PublicKey
	switch k := priv.(type) {
	case *rsa.PrivateKey:
		pub = k.Public()
	case *ecdsa.PrivateKey:
		pub = k.Public()
	case *ed25519.PrivateKey:
		pub = k.Public()
	default:
		return nil
	}
	p, _ := ssh.NewPublicKey(pub)
	return p
}

func H02_generate() {
	l := vChoose(3, "string-len")
	param := &csr.ReqParam{
		LogName:  vNondetString("logname", l),
		TransID:  vNondetString("transid", l),
		ClientIP: vNondetString("ip", l),
		ReqUser:  vNondetString("requser", l),
		ReqHost:  vNondetString("reqhost", l),
		// everything the client can claim about itself is arbitrary; none of it may reach the KeyID
		Attrs: &message.Attributes{CAPubKeyAlgo: x509.PublicKeyAlgorithm(vNondetInt("ca-algo")),
			IfVer: vNondetInt("ifver"), Username: vNondetString("attr-user", 1), Hostname: vNondetString("attr-host", 1),
			HardKey: vNondetBool("claim-hardkey"), Touch2SSH: vNondetBool("claim-touch2ssh"),
			TouchlessSudo: &message.TouchlessSudo{IsFirefighter: vNondetBool("claim-firefighter"), Hosts: vNondetString("claim-hosts", 1), Time: vNondetI64("claim-time")}},
	}
	// what the server side established, before any handler code saw it
	orig := *param
	validity := vNondetU64("validity")
	ids := map[x509.PublicKeyAlgorithm]string{}
	nIDs := vChoose(3, "identifiers")
	var idKeys []x509.PublicKeyAlgorithm
	for i := 0; i < nIDs; i++ {
		k := x509.PublicKeyAlgorithm(vNondetInt("id-algo"))
		for _, prev := range idKeys {
			vAssume(prev != k)
		}
		idKeys = append(idKeys, k)
		ids[k] = string([]byte{'s', 'l', 'o', 't', byte('0' + i)})
	}
	m02KeygenFails = vChoose(2, "keygen-fails") == 1
	agent := &m02Agent{}
	h := rgNewHandler(validity, agent, ids, "")

	wantSlot, haveSlot := "", false
	for i, k := range idKeys {
		if k == param.Attrs.CAPubKeyAlgo {
			wantSlot, haveSlot = string([]byte{'s', 'l', 'o', 't', byte('0' + i)}), true
		}
	}

	var pubs []string
	for round := 0; round < 2; round++ {
		added0 := len(agent.added)
		keys, err := h.Generate(param)
		if m02KeygenFails {
			vAssert(err != nil && len(keys) == 0, "C02.keygen-failure-yields-no-request")
			vAssert(gensign.IsErrorOfType(err, gensign.HandlerGenCSRErr), "C02.keygen-failure-is-HandlerGenCSRErr")
			vReach("C02.keygen-failed")
			return
		}
		if !haveSlot {
			vAssert(err != nil && len(keys) == 0, "C02.no-identifier-configured-is-refused")
			vAssert(gensign.IsErrorOfType(err, gensign.HandlerConfErr), "C02.no-identifier-is-HandlerConfErr")
			vReach("C02.no-identifier")
			return
		}
		vAssert(err == nil, "C02.generate-succeeds")
		vAssert(len(keys) == 1, "C02.one-agent-key")
		if err != nil || len(keys) != 1 {
			return
		}
		csrs := keys[0].CSRs()
		vAssert(len(csrs) == 1, "C02.one-signing-request")
		if len(csrs) != 1 {
			return
		}
		r := csrs[0]
		vAssert(len(r.Principals) == 1, "C02.exactly-one-principal")
		if len(r.Principals) == 1 {
			vAssert(vEqString(r.Principals[0], orig.LogName), "C02.principal-is-server-side-login-name")
		}
		vAssert(r.Validity == validity, "C02.configured-validity")
		vAssert(len(r.Extensions) == len(s02Extensions), "C02.default-extension-set")
		for _, e := range s02Extensions {
			v, ok := r.Extensions[e]
			vAssert(ok && v == "", "C02.default-extension-set")
		}
		vAssert(len(r.CriticalOptions) == 0, "C02.no-critical-options")
		vAssert(r.KeyMeta != nil && r.KeyMeta.Identifier == wantSlot, "C02.key-slot-of-requested-algorithm")

		// the certified key is the public half of the private key added to the agent in this call
		vAssert(len(agent.added) == added0+1, "C02.one-private-key-added")
		if len(agent.added) != added0+1 {
			return
		}
		ak := agent.added[added0]
		var kid *keyid.KeyID
		if vIsNative() {
			pub := h02PublicOf(ak.PrivateKey)
			vAssert(pub != nil && r.PublicKey == string(ssh.MarshalAuthorizedKey(pub)), "C02.certifies-the-fresh-key-pair")
			var derr error
			kid, derr = keyid.Unmarshal(r.KeyId)
			vAssert(derr == nil, "C02.keyid-well-formed")
			if derr != nil {
				return
			}
		} else {
			p, ok := ak.PrivateKey.(*m02Priv)
			vAssert(ok && p.id == m02NextKey, "C02.fresh-private-key-in-agent")
			vAssert(ok && r.PublicKey == string([]byte{'A', 'K', byte(p.id), '\n'}), "C02.certifies-the-fresh-key-pair")
			vAssert(len(m02JSONSeen) == round+1, "C02.keyid-encoded-once")
			if len(m02JSONSeen) != round+1 {
				return
			}
			kid = m02JSONSeen[round]
			vAssert(r.KeyId == m02JSONOut[round], "C02.keyid-is-the-encoder-output")
		}
		pubs = append(pubs, r.PublicKey)
		vAssert(len(kid.Principals) == 1 && vEqString(kid.Principals[0], orig.LogName), "C02.keyid-principal")
		vAssert(vEqString(kid.TransID, orig.TransID), "C02.keyid-transaction-id")
		vAssert(vEqString(kid.ReqIP, orig.ClientIP), "C02.keyid-source-ip")
		vAssert(vEqString(kid.ReqUser, orig.ReqUser), "C02.keyid-client-user-verbatim")
		vAssert(vEqString(kid.ReqHost, orig.ReqHost), "C02.keyid-client-host-verbatim")
		vAssert(kid.Version == 1, "C02.keyid-version-1")
		vAssert(!kid.IsFirefighter && !kid.IsHWKey && !kid.IsHeadless && !kid.IsNonce, "C02.keyid-regular-attributes")
		vAssert(kid.Usage == 0 && kid.TouchPolicy == 1, "C02.keyid-all-usage-never-touch")
		vReach("C02.request-built")
	}
	if len(pubs) == 2 {
		vAssert(pubs[0] != pubs[1], "C02.key-pair-not-reused-across-requests")
	}
}

// ---- NewHandler wiring ---------------------------------------------------------

var m02CfgValidity uint64
var m02CfgAgent *m02Agent
var m02ExtractCalls int
var m02CfgAlgo = x509.RSA
var m02CfgSlot = "slot-rsa"

var m02NewHandlerScenario bool

func m02ExtractHandlerConf(g *config.GensignConfig, name string, target interface{}) error {
	if !m02NewHandlerScenario {
		return rgExtractHandlerConf(g, name, target)
	}
	m02ExtractCalls++
	c, ok := target.(*conf)
	if !ok || name != HandlerName {
		return errors.New("model: unexpected handler configuration target")
	}
	// as a weakly typed configuration decoder does: numbers are converted to
	// the field's type, a map is filled in place when the target has one
	if !vSetField(c, "CertValiditySec", m02CfgValidity) {
		return errors.New("model: no CertValiditySec field")
	}
	if c.KeyIdentifiers == nil {
		c.KeyIdentifiers = map[x509.PublicKeyAlgorithm]string{}
	}
	c.KeyIdentifiers[m02CfgAlgo] = m02CfgSlot
	c.PubKeyDir = "/keys"
	return nil
}

func m02NewClient(rw interface{ Read([]byte) (int, error); Write([]byte) (int, error) }) ag.ExtendedAgent {
	if !m02NewHandlerScenario {
		return rgNewClient(rw)
	}
	return m02ExtAgent{m02CfgAgent}
}

type m02ExtAgent struct{ *m02Agent }

func (m02ExtAgent) SignWithFlags(ssh.PublicKey, []byte, ag.SignatureFlags) (*ssh.Signature, error) {
	return nil, errors.New("no")
}
func (m02ExtAgent) Extension(string, []byte) ([]byte, error) { return nil, errors.New("no") }

func H02_newhandler() {
	m02NewHandlerScenario = true
	m02CfgValidity = vNondetU64("configured-validity")
	vAssume(vAnd(m02CfgValidity >= 1, m02CfgValidity <= 315360000))
	m02CfgAgent = &m02Agent{}
	gh, err := NewHandler(&config.GensignConfig{}, nil)
	vAssert(err == nil && gh != nil, "C02.handler-constructed")
	if err != nil || gh == nil {
		return
	}
	h, ok := gh.(*Handler)
	vAssert(ok && m02ExtractCalls == 1, "C02.handler-configuration-decoded")
	if !ok {
		return
	}
	// (that the configured validity is used is observed below, on the request and the agent lifetime)
	param := &csr.ReqParam{LogName: "user", TransID: "t", ClientIP: "1.2.3.4", ReqUser: "u", ReqHost: "h", Attrs: &message.Attributes{CAPubKeyAlgo: x509.RSA}}
	keys, gerr := h.Generate(param)
	vAssert(gerr == nil && len(keys) == 1, "C02.generate-succeeds")
	if gerr != nil || len(keys) != 1 {
		return
	}
	r := keys[0].CSRs()[0]
	vAssert(r.Validity == m02CfgValidity, "C02.configured-validity")
	vAssert(r.KeyMeta != nil && r.KeyMeta.Identifier == "slot-rsa", "C02.key-slot-of-requested-algorithm")
	vAssert(len(m02CfgAgent.added) == 1 && uint64(m02CfgAgent.added[0].LifetimeSecs) >= m02CfgValidity, "C02.agent-lifetime-follows-the-configuration")
	vReach("C02.newhandler-wired")

	// a second handler with another configuration in the same process (e.g.
	// another connection served with a reloaded configuration): the first
	// handler keeps its own validity and its own key slots
	v1 := m02CfgValidity
	m02CfgValidity = vNondetU64("second-configured-validity")
	vAssume(vAnd(m02CfgValidity >= 1, m02CfgValidity <= 315360000))
	m02CfgAlgo, m02CfgSlot = x509.ECDSA, "slot-ec"
	gh2, err2 := NewHandler(&config.GensignConfig{}, nil)
	vAssert(err2 == nil && gh2 != nil, "C02.handler-constructed")
	added0 := len(m02CfgAgent.added)
	keys, gerr = h.Generate(param)
	vAssert(gerr == nil && len(keys) == 1, "C02.generate-succeeds")
	if gerr == nil && len(keys) == 1 {
		r := keys[0].CSRs()[0]
		vAssert(r.Validity == v1, "C02.first-handler-keeps-its-configured-validity")
		vAssert(r.KeyMeta != nil && r.KeyMeta.Identifier == "slot-rsa", "C02.first-handler-keeps-its-key-slots")
		vAssert(len(m02CfgAgent.added) == added0+1 && uint64(m02CfgAgent.added[added0].LifetimeSecs) >= v1, "C02.first-handler-keeps-its-agent-lifetime")
	}
	ecParam := &csr.ReqParam{LogName: "user", TransID: "t", ClientIP: "1.2.3.4", ReqUser: "u", ReqHost: "h", Attrs: &message.Attributes{CAPubKeyAlgo: x509.ECDSA}}
	_, eerr := h.Generate(ecParam)
	vAssert(eerr != nil, "C02.first-handler-refuses-an-algorithm-only-the-second-configured")
	vReach("C02.two-handlers")
}
