package keyid

//vsym:pkg github.com/theparanoids/ysshra/keyid
//vsym:entry H02_keyid_is_this_requests_own_under_concurrent_requests
//vsym:model encoding/json.Marshal t05Marshal
//vsym:model encoding/json.Unmarshal t05Unmarshal
//vsym:include C05/s05.go
//vsym:include C05/h05_text.go
//vsym:include C05/h05_reentrant.go
//vsym:replay adapter ../C05/h05_race_replay_test.go race
//vsym:expect-cover C05.concurrent.marshal C05.concurrent.unmarshal
//vsym:bound H02_keyid_is_this_requests_own_under_concurrent_requests: the KeyID of a signing request is encoded from this request's values only: encoding and decoding KeyIDs for concurrent requests of one server process share no unsynchronised state (bounds of C05's H05_concurrent_callers)
//vsym:assume two callers suffice (a data race is a pairwise notion); see C05

// Shared with C05.
func H02_keyid_is_this_requests_own_under_concurrent_requests() {
	H05_concurrent_callers()
}
