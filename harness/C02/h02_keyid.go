package keyid

//vsym:pkg github.com/theparanoids/ysshra/keyid
//vsym:entry H02_keyid_records_values_with_metacharacters_verbatim
//vsym:include C05/s05.go
//vsym:include C05/h05_text.go
//vsym:include C05/h05_escapes.go
//vsym:model encoding/json.Marshal t05Marshal
//vsym:model encoding/json.Unmarshal t05Unmarshal
//vsym:replay same-harness
//vsym:expect-cover C05.text.roundtrip C05.text.escaped-quote C05.text.escaped-html
//vsym:bound H02_keyid_records_values_with_metacharacters_verbatim: the KeyID of the signing request records the client-declared user and host, the address, the transaction id and the principal verbatim also when they contain JSON metacharacters (quote, backslash, < > &): the text Marshal produces decodes to the same values (bounds of C05's H05_text_escapes)
//vsym:assume encoding/json is modelled by its contract on genuine JSON text; a text the code under test rewrote is read by the reference parser of C05's H05_text_escapes

// The KeyID in the request is produced by keyid.Marshal; shared with C05.
func H02_keyid_records_values_with_metacharacters_verbatim() {
	H05_text_escapes()
}
