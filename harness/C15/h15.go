package message

//vsym:pkg github.com/theparanoids/ysshra/message
//vsym:entry H15_legacy_roundtrip
//vsym:entry H15_legacy_total
//vsym:entry H15_legacy_booleans
//vsym:entry H15_wrong_type_falls_back
//vsym:entry H15_json
//vsym:model encoding/json.Marshal m15Marshal
//vsym:model encoding/json.Unmarshal m15Unmarshal
//vsym:replay same-harness
//vsym:expect-cover C15.legacy.roundtrip C15.wrong-type C15.legacy.boolean-true C15.legacy.boolean-false C15.legacy.with-touchless-sudo C15.legacy.total-ok C15.legacy.total-error C15.json.roundtrip C15.json.missing-field C15.json.null C15.marshal.refused
//vsym:bound H15_legacy_roundtrip: interface version any int below 7; client version, user, host of 1..2 symbolic printable ASCII bytes (0x21-0x7e) without '@'; three symbolic booleans; touchless-sudo absent or present with hosts of 0..2 such bytes and time in {-99,-1,0,1,999,2^31,-2^31-1,2^40}
//vsym:bound H15_legacy_total: arbitrary text of 0..5 (thorough 0..7) symbolic bytes, and structured texts with duplicate keys, empty values, '=' in values and stray spaces
//vsym:bound H15_wrong_type_falls_back: a JSON object whose signatureAlgo is a string (decoding fails after the other fields were stored) and whose note value carries legacy tokens with a symbolic 1-byte user and host
//vsym:bound H15_legacy_booleans: HardKey / Touch2SSH / IsFirefighter tokens with every Go boolean literal, ten other spellings, every 1-byte and every 4-byte printable value, before or after the req token
//vsym:bound H15_json: interface version any int >= 7; every string field 0..1 symbolic bytes; extension map of 0..1 entries; decoder result for other input: error, null, or an arbitrary object (with or without surrounding white space)
//vsym:assume encoding/json is modelled by its contract (Marshal records the value, Unmarshal of that text restores it; other input: error when the first byte cannot start a JSON value, else error / null / arbitrary object); strings.TrimSpace over symbolic bytes is executed from source under the stated ASCII bound

import (
	"encoding/json"
	"errors"
	"strings"
)

const m15Marker = "{\x00json-model-text}"

var m15Snap *Attributes
var m15Other int // outcome for text that is not the model text: 0 error, 1 null, 2 object
var m15Obj *Attributes

func m15Copy(a *Attributes) *Attributes {
	c := *a
	if a.TouchlessSudo != nil {
		t := *a.TouchlessSudo
		c.TouchlessSudo = &t
	}
	if a.Exts != nil {
		c.Exts = map[string]interface{}{}
		for k, v := range a.Exts {
			c.Exts[k] = v
		}
	}
	return &c
}

// m15Merge: what encoding/json does with an object text and a destination
// struct: a key that occurs sets its field, a key that does not occur leaves
// the field as it was; a pointer field is allocated only when nil, a map field
// only when nil.  omit: the text was produced by the encoder (omitempty keys
// do not occur when zero); otherwise a zero string / zero number / false /
// nil in src stands for "this key does not occur".
func m15Merge(dst, src *Attributes, fromEncoder bool) {
	if fromEncoder || src.IfVer != 0 {
		dst.IfVer = src.IfVer
	}
	if fromEncoder || src.Username != "" {
		dst.Username = src.Username
	}
	if fromEncoder || src.Hostname != "" {
		dst.Hostname = src.Hostname
	}
	if fromEncoder || src.SSHClientVersion != "" {
		dst.SSHClientVersion = src.SSHClientVersion
	}
	if src.CAPubKeyAlgo != 0 {
		dst.CAPubKeyAlgo = src.CAPubKeyAlgo
	}
	if src.SignatureAlgo != 0 {
		dst.SignatureAlgo = src.SignatureAlgo
	}
	if fromEncoder || src.HardKey {
		dst.HardKey = src.HardKey
	}
	if src.Touch2SSH {
		dst.Touch2SSH = true
	}
	if src.TouchlessSudo != nil {
		if dst.TouchlessSudo == nil {
			dst.TouchlessSudo = &TouchlessSudo{}
		}
		t := src.TouchlessSudo
		if t.IsFirefighter {
			dst.TouchlessSudo.IsFirefighter = true
		}
		if t.Hosts != "" {
			dst.TouchlessSudo.Hosts = t.Hosts
		}
		if t.Time != 0 {
			dst.TouchlessSudo.Time = t.Time
		}
	}
	if src.Exts != nil {
		if dst.Exts == nil {
			dst.Exts = map[string]interface{}{}
		}
		for k, v := range src.Exts {
			dst.Exts[k] = v
		}
	}
}

func m15Marshal(v any) ([]byte, error) {
	// encoding hooks of the value's type are honoured as encoding/json does
	if m, ok := v.(json.Marshaler); ok {
		return m.MarshalJSON()
	}
	if w := vRetype(v, (*Attributes)(nil)); w != nil {
		v = w
	}
	a, ok := v.(*Attributes)
	if !ok {
		panic("m15Marshal: unexpected type")
	}
	m15Snap = m15Copy(a)
	return []byte(m15Marker), nil
}

func m15StartsJSON(b byte) bool {
	r := vOr(b == '{', vOr(b == '[', vOr(b == '"', vOr(b == '-', vOr(b == 'n', vOr(b == 't', b == 'f'))))))
	r = vOr(r, vAnd(b >= '0', b <= '9'))
	return vOr(r, vOr(b == ' ', vOr(b == '\t', vOr(b == '\n', b == '\r'))))
}

func m15Unmarshal(data []byte, v any) error {
	// decoding hooks of the destination type are honoured as encoding/json does;
	// inside such a hook the destination is usually a method-less twin type
	if u, ok := v.(json.Unmarshaler); ok {
		return u.UnmarshalJSON(data)
	}
	if w := vRetype(v, (*Attributes)(nil)); w != nil {
		v = w
	}
	// the destination is either a *Attributes or (as the code once did) a **Attributes
	var p *Attributes
	pp, isPP := v.(**Attributes)
	if isPP {
		p = *pp
	} else if q, ok := v.(*Attributes); ok {
		p = q
	} else {
		panic("m15Unmarshal: unexpected destination type")
	}
	if string(data) == m15Marker && m15Snap != nil {
		m15Merge(p, m15Copy(m15Snap), true)
		return nil
	}
	if len(data) == 0 || !m15StartsJSON(data[0]) {
		return errors.New("model: invalid character")
	}
	switch m15Other {
	case 1:
		if isPP {
			*pp = nil // JSON null decoded into a pointer sets it to nil
		}
		return nil // decoded into a struct, null is a no-op
	case 2:
		m15Merge(p, m15Copy(m15Obj), false)
		return nil
	case 3:
		// a wrongly typed value: encoding/json stores the other fields and then reports the error
		m15Merge(p, m15Copy(m15Obj), false)
		return errors.New("model: json: cannot unmarshal string into Go struct field Attributes.ifVer of type int")
	}
	return errors.New("model: invalid JSON")
}

func h15Printable(s string, allowAt bool) {
	for i := 0; i < len(s); i++ {
		vAssume(vAnd(s[i] >= 0x21, s[i] <= 0x7e))
		if !allowAt {
			vAssume(s[i] != '@')
		}
	}
}

func H15_legacy_roundtrip() {
	a := &Attributes{
		IfVer:            vNondetInt("ifver"),
		SSHClientVersion: vNondetString("version", 1+vChoose(2, "version-len")),
		Username:         vNondetString("user", 1+vChoose(2, "user-len")),
		Hostname:         vNondetString("host", 1+vChoose(2, "host-len")),
		HardKey:          vNondetBool("hardkey"),
		Touch2SSH:        vNondetBool("touch2ssh"),
	}
	vAssume(a.IfVer < 7)
	h15Printable(a.SSHClientVersion, false)
	h15Printable(a.Username, false)
	h15Printable(a.Hostname, false)
	if vChoose(2, "touchless-sudo") == 1 {
		times := []int64{-99, -1, 0, 1, 999, 2147483648, -2147483649, 1 << 40}
		a.TouchlessSudo = &TouchlessSudo{
			IsFirefighter: vNondetBool("firefighter"),
			Hosts:         vNondetString("hosts", vChoose(3, "hosts-len")),
			Time:          times[vChoose(len(times), "time")],
		}
		h15Printable(a.TouchlessSudo.Hosts, false)
		vReach("C15.legacy.with-touchless-sudo")
	}
	s, err := a.Marshal()
	vAssert(err == nil, "C15.encoder-accepts-complete-attributes")
	if err != nil {
		return
	}
	b, err := Unmarshal(s)
	vAssert(err == nil && b != nil, "C15.legacy-text-decodes")
	if err != nil || b == nil {
		return
	}
	vAssert(b.IfVer == 6, "C15.legacy-interface-version-is-6")
	vAssert(vEqString(b.SSHClientVersion, a.SSHClientVersion), "C15.legacy-roundtrip-client-version")
	vAssert(vEqString(b.Username, a.Username), "C15.legacy-roundtrip-user")
	vAssert(vEqString(b.Hostname, a.Hostname), "C15.legacy-roundtrip-host")
	vAssert(b.HardKey == a.HardKey, "C15.legacy-roundtrip-hardkey")
	vAssert(b.Touch2SSH == a.Touch2SSH, "C15.legacy-roundtrip-touch2ssh")
	want := TouchlessSudo{}
	if a.TouchlessSudo != nil {
		want = *a.TouchlessSudo
	}
	vAssert(b.TouchlessSudo != nil, "C15.legacy-touchless-sudo-populated")
	if b.TouchlessSudo != nil {
		vAssert(b.TouchlessSudo.IsFirefighter == want.IsFirefighter && vEqString(b.TouchlessSudo.Hosts, want.Hosts) && b.TouchlessSudo.Time == want.Time,
			"C15.legacy-roundtrip-touchless-sudo")
	}
	// raw tokens are mirrored into the extension map
	for _, tok := range strings.Split(s, " ") {
		i := strings.Index(tok, "=")
		if i < 0 {
			continue
		}
		v, ok := b.Exts[tok[:i]]
		sv, isStr := v.(string)
		vAssert(ok && isStr && vEqString(sv, tok[i+1:]), "C15.legacy-tokens-mirrored-in-extensions")
	}
	vReach("C15.legacy.roundtrip")
}

// H15_legacy_booleans: a legacy request asks for a hardware key (touch to
// SSH, firefighter) exactly when the token's value is a true boolean literal
// in Go's spelling (1, t, T, TRUE, true, True) - the spelling the decoder of
// the extension map (ExtendedAttrBool) accepts for the same mirrored token.
func H15_legacy_booleans() {
	keys := []string{"HardKey", "Touch2SSH", "IsFirefighter"}
	key := keys[vChoose(len(keys), "key")]
	trues := []string{"1", "t", "T", "TRUE", "true", "True"}
	falses := []string{"0", "f", "F", "FALSE", "false", "False", "", "yes", "tRUE", "01"}
	var val string
	var want bool
	switch vChoose(4, "value-kind") {
	case 0:
		val, want = trues[vChoose(len(trues), "true-spelling")], true
	case 1:
		val, want = falses[vChoose(len(falses), "false-spelling")], false
	case 2:
		val = vNondetString("value", 1)
		h15Printable(val, true)
		want = vOr(val[0] == '1', vOr(val[0] == 't', val[0] == 'T'))
	case 3:
		val = vNondetString("value", 4)
		h15Printable(val, true)
		want = vOr(vEqString(val, "TRUE"), vOr(vEqString(val, "true"), vEqString(val, "True")))
	}
	text := "req=u@h " + key + "=" + val
	if vChoose(2, "token-first") == 1 {
		text = key + "=" + val + " req=u@h"
	}
	var a *Attributes
	var err error
	crashed := vCatch(func() { a, err = Unmarshal(text) })
	vAssert(!crashed, "C15.legacy-parser-never-crashes")
	vAssert(!crashed && err == nil && a != nil && a.TouchlessSudo != nil, "C15.legacy-boolean-text-decodes")
	if crashed || err != nil || a == nil || a.TouchlessSudo != nil == false {
		return
	}
	got := a.HardKey
	switch key {
	case "Touch2SSH":
		got = a.Touch2SSH
	case "IsFirefighter":
		got = a.TouchlessSudo.IsFirefighter
	}
	vAssert(vIff(got, want), "C15.legacy-boolean-follows-the-boolean-literal:"+key)
	// the other two stay false
	n := 0
	if a.HardKey {
		n++
	}
	if a.Touch2SSH {
		n++
	}
	if a.TouchlessSudo.IsFirefighter {
		n++
	}
	vAssert(n <= 1, "C15.legacy-boolean-sets-only-its-own-field")
	vCover(got, "C15.legacy.boolean-true")
	vCover(!got, "C15.legacy.boolean-false")
}

// H15_wrong_type_falls_back: text that is a JSON object with a wrongly typed
// field does not decode as a JSON attribute object; what the legacy fallback
// returns for it is what UnmarshalLegacy returns for the same text.
func H15_wrong_type_falls_back() {
	m15Snap = nil
	m15Other = 3
	m15Obj = &Attributes{IfVer: 9, SSHClientVersion: "9.9", Username: "eve", Hostname: "evil", HardKey: true, Touch2SSH: true, CAPubKeyAlgo: 3}
	u, h := vNondetString("user", 1), vNondetString("host", 1)
	h15Printable(u, false)
	h15Printable(h, false)
	vAssume(vAnd(u[0] != '"', vAnd(u[0] != '\\', vAnd(h[0] != '"', h[0] != '\\'))))
	text := "{\"ifVer\":9,\"sshClientVersion\":\"9.9\",\"username\":\"eve\",\"hostname\":\"evil\",\"hardKey\":true,\"touch2SSH\":true,\"caPubKeyAlgo\":3,\"signatureAlgo\":\"x\",\"note\":\" req=" + u + "@" + h + " SSHClientVersion=8.1 \"}"
	want, werr := UnmarshalLegacy(text)
	got, gerr := Unmarshal(text)
	vAssert((werr == nil) == (gerr == nil), "C15.fallback-is-the-legacy-decoding-of-the-same-text")
	if werr != nil || gerr != nil || want == nil || got == nil {
		return
	}
	eq := got.IfVer == want.IfVer && vEqString(got.Username, want.Username) && vEqString(got.Hostname, want.Hostname) &&
		vEqString(got.SSHClientVersion, want.SSHClientVersion) && got.HardKey == want.HardKey && got.Touch2SSH == want.Touch2SSH &&
		got.CAPubKeyAlgo == want.CAPubKeyAlgo && got.SignatureAlgo == want.SignatureAlgo
	vAssert(eq, "C15.fallback-is-the-legacy-decoding-of-the-same-text")
	vAssert(got.IfVer != 9 && vEqString(got.Username, u) && vEqString(got.Hostname, h) && !got.HardKey && !got.Touch2SSH && got.CAPubKeyAlgo == 0, "C15.failed-json-attempt-leaves-no-trace")
	vReach("C15.wrong-type")
}

func H15_legacy_total() {
	var text string
	shape := vChoose(5, "text-shape")
	switch shape {
	case 0:
		maxLen := 5
		if vThorough() {
			maxLen = 7
		}
		text = vNondetString("text", vChoose(maxLen+1, "text-len"))
	case 1:
		text = "req=" + vNondetString("a", 1) + "@" + vNondetString("b", 1) + " req=x@y"
	case 2:
		text = "IFVer= req=u@h  HardKey= " + vNondetString("tail", 2)
	case 3:
		text = "req=u@h TouchlessSudoHosts=a=b " + vNondetString("k", 1) + "=" + vNondetString("v", 1)
	case 4:
		text = "req=" + vNondetString("r", 3)
	}
	for i := 0; i < len(text); i++ {
		vAssume(text[i] < 0x80) // ASCII bound for the legacy wire format
	}
	var a *Attributes
	var err error
	crashed := vCatch(func() { a, err = UnmarshalLegacy(text) })
	vAssert(!crashed, "C15.legacy-parser-never-crashes")
	if crashed {
		return
	}
	vCover(err == nil, "C15.legacy.total-ok")
	vCover(err != nil, "C15.legacy.total-error")
	if err != nil {
		vAssert(a == nil, "C15.legacy-error-returns-nil")
		return
	}
	vAssert(a != nil && a.TouchlessSudo != nil && a.Exts != nil, "C15.legacy-result-populated")
	if a == nil {
		return
	}
	// user and host are the two '@'-separated parts of a req token of the text
	r, ok := a.Exts["req"]
	rs, isStr := r.(string)
	vAssert(ok && isStr, "C15.legacy-success-needs-a-req-token")
	if ok && isStr {
		vAssert(vEqString(rs, a.Username+"@"+a.Hostname), "C15.legacy-user-and-host-from-the-req-token")
		vAssert(strings.Contains(text, "req="+rs), "C15.legacy-req-token-present-in-the-text")
	}
}

func h15Str(name string) string { return vNondetString(name, vChoose(2, name+"-len")) }

func H15_json() {
	a := &Attributes{
		IfVer:            vNondetInt("ifver"),
		SSHClientVersion: h15Str("version"),
		Username:         h15Str("user"),
		Hostname:         h15Str("host"),
		HardKey:          vNondetBool("hardkey"),
		Touch2SSH:        vNondetBool("touch2ssh"),
	}
	vAssume(a.IfVer >= 7)
	if vChoose(2, "exts") == 1 {
		a.Exts = map[string]interface{}{"k": vNondetString("ext", 1)}
	}
	if vChoose(2, "touchless-sudo") == 1 {
		a.TouchlessSudo = &TouchlessSudo{IsFirefighter: vNondetBool("ff"), Hosts: h15Str("hosts"), Time: vNondetI64("time")}
	}
	complete := a.SSHClientVersion != "" && a.Username != "" && a.Hostname != ""
	s, err := a.Marshal()
	vAssert((err == nil) == complete, "C15.encoder-refuses-exactly-incomplete-attributes")
	if !complete {
		vReach("C15.marshal.refused")
	} else if err == nil {
		if vIsNative() {
			var probe map[string]any
			vAssert(json.Unmarshal([]byte(s), &probe) == nil, "C15.json-format-for-interface-version-7-and-above")
		} else {
			vAssert(s == m15Marker && m15Snap != nil, "C15.json-format-for-interface-version-7-and-above")
		}
		b, derr := Unmarshal(s)
		vAssert(derr == nil && b != nil, "C15.json-text-decodes")
		if derr == nil && b != nil {
			eq := b.IfVer == a.IfVer && vEqString(b.SSHClientVersion, a.SSHClientVersion) && vEqString(b.Username, a.Username) &&
				vEqString(b.Hostname, a.Hostname) && b.HardKey == a.HardKey && b.Touch2SSH == a.Touch2SSH
			vAssert(eq, "C15.json-roundtrip-fields")
			vAssert(len(b.Exts) == len(a.Exts), "C15.json-roundtrip-extensions")
			if len(a.Exts) == 1 && len(b.Exts) == 1 {
				x, _ := b.Exts["k"].(string)
				vAssert(vEqString(x, a.Exts["k"].(string)), "C15.json-roundtrip-extensions")
			}
			vAssert(b.TouchlessSudo != nil, "C15.json-touchless-sudo-populated")
			if a.TouchlessSudo != nil && b.TouchlessSudo != nil {
				vAssert(*b.TouchlessSudo == *a.TouchlessSudo, "C15.json-roundtrip-touchless-sudo")
			}
			vReach("C15.json.roundtrip")
			// the decoded message is the caller's own: a handler that fills in
			// its touchless-sudo section changes no other message
			if b.TouchlessSudo != nil {
				b.TouchlessSudo.IsFirefighter, b.TouchlessSudo.Hosts, b.TouchlessSudo.Time = true, "scribbled", 7
			}
		}
	}

	// other input that decodes as JSON: null, or an object with arbitrary fields
	m15Snap = nil
	m15Other = 1 + vChoose(2, "decoder-outcome")
	obj := &Attributes{IfVer: vNondetInt("o-ifver"), SSHClientVersion: h15Str("o-version"), Username: h15Str("o-user"), Hostname: h15Str("o-host")}
	m15Obj = obj
	text := "null"
	if m15Other == 2 {
		// a JSON object whose string content happens to look like legacy tokens
		text = "{\"model\":\" req=u@h SSHClientVersion=9.9 \"}"
		if vIsNative() {
			obj.Exts = map[string]interface{}{"k": " req=u@h SSHClientVersion=9.9 "}
			bs, _ := json.Marshal(obj)
			text = string(bs)
		}
		// JSON text may be surrounded by white space (RFC 8259 section 2)
		text = []string{"", " ", "\n", "\t\r\n"}[vChoose(4, "leading-space")] + text + []string{"", " \n"}[vChoose(2, "trailing-space")]
	}
	vFact("decoder-outcome", m15Other)
	var c *Attributes
	var cerr error
	crashed := vCatch(func() { c, cerr = Unmarshal(text) })
	vAssert(!crashed, "C15.decoder-never-crashes")
	if crashed {
		return
	}
	if m15Other == 1 {
		vAssert(cerr != nil, "C15.json-null-is-an-error")
		vReach("C15.json.null")
		return
	}
	objComplete := obj.SSHClientVersion != "" && obj.Username != "" && obj.Hostname != ""
	vAssert((cerr == nil) == objComplete, "C15.json-object-subject-to-required-field-checks")
	if !objComplete {
		vReach("C15.json.missing-field")
	}
	if cerr == nil && c != nil {
		// the object was not reinterpreted as legacy text
		vAssert(c.IfVer == obj.IfVer && vEqString(c.Username, obj.Username) && vEqString(c.Hostname, obj.Hostname), "C15.json-object-never-reinterpreted-as-legacy")
		// this text states nothing else: nothing of an earlier message of
		// this process (the one decoded above) may show in the result
		vAssert(!c.HardKey && !c.Touch2SSH && c.CAPubKeyAlgo == 0 && c.SignatureAlgo == 0, "C15.decoded-message-states-only-its-own-text")
		if c.TouchlessSudo != nil {
			vAssert(!c.TouchlessSudo.IsFirefighter && c.TouchlessSudo.Hosts == "" && c.TouchlessSudo.Time == 0, "C15.decoded-message-states-only-its-own-text")
		}
		if !vIsNative() {
			vAssert(len(c.Exts) == 0, "C15.decoded-message-states-only-its-own-text")
		}
	}
}
