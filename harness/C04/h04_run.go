package gensign

//vsym:pkg github.com/theparanoids/ysshra/gensign
//vsym:include C03/h03_run.go
//vsym:entry H04_run_faults_are_typed
//vsym:replay same-harness
//vsym:expect-cover C03.run.success C03.run.failed-during-signing
//vsym:bound H04_run_faults_are_typed: a CA failure at any request of any key, also one that coincides with the end of the request context, and an agent refusal end gensign.Run with an error of the signer resp. agent kind, never with success or an untyped error - bounds of C03's H03_run_delivery
//vsym:assume as C03's h03_run.go

func H04_run_faults_are_typed() { H03_run_delivery() }
