package regular

//vsym:pkg github.com/theparanoids/ysshra/gensign/regular
//vsym:include regular/ctor.go || regular/ctor_bb.go
//vsym:include C03/h03.go
//vsym:entry H04_real_faults
//vsym:replay same-harness
//vsym:expect-cover C04.real.success C04.real.agent-fault C04.real.ca-fault C04.real.keygen-agent-fault
//vsym:bound H04_real_faults: one gensign.Run with the real regular handler (Generate, NewSSHAgentKeyWithOpt, AddCertsToAgent, refreshKeys) against the stateful agent model holding 0..1 labelled certificate from an earlier run; the CA returns 1..3 certificates or fails; the k-th agent operation fails, k in 0..6, or none
//vsym:assume as C03 (stateful agent model, key generation and JSON models)

import (
	"context"
	"crypto/x509"

	"github.com/theparanoids/ysshra/csr"
	"github.com/theparanoids/ysshra/gensign"
	"github.com/theparanoids/ysshra/message"
)

func H04_real_faults() {
	agent := &m03Agent{failAt: -1}
	if vChoose(2, "earlier-certificate") == 1 {
		agent.nextBlob++
		agent.ids = append(agent.ids, &m03Ident{blob: []byte{'B', agent.nextBlob}, comment: "paranoids.regular-cert", origin: "cert", cert: h03Cert(), run: -1})
	}
	validity := vNondetU64("validity")
	vAssume(vAnd(validity >= 1, validity <= 315360000))
	h := h03Real{rgNewHandler(validity, agent, map[x509.PublicKeyAlgorithm]string{0: "slot"}, "")}
	param := &csr.ReqParam{LogName: "user", TransID: "t", ClientIP: "1.2.3.4", ReqUser: "u", ReqHost: "h", Attrs: &message.Attributes{}}
	signer := &m03Signer{fail: vChoose(2, "ca-fails") == 1}
	nk := 1 + vChoose(3, "certificates-returned")
	for i := 0; i < nk; i++ {
		signer.shape = append(signer.shape, true)
	}
	agent.failAt = vChoose(8, "agent-fault-at") - 1

	err := gensign.Run(context.Background(), param, []gensign.Handler{h}, signer)
	vRunGoroutines() // whatever the run left behind in the background has happened by now

	faultHit := agent.failAt >= 0 && agent.ops > agent.failAt
	certAdds := 0
	for _, a := range agent.adds {
		if a.Certificate != nil {
			certAdds++
		}
	}
	switch {
	case faultHit && agent.failAt == 0:
		// the very first agent operation is the insertion of the new private key
		vAssert(gensign.IsErrorOfType(err, gensign.HandlerGenCSRErr), "C04.agent-refusal-during-generation-is-HandlerGenCSRErr")
		vAssert(certAdds == 0, "C04.no-certificate-reaches-the-agent-for-an-unsigned-request")
		vReach("C04.real.keygen-agent-fault")
	case signer.fail:
		vAssert(gensign.IsErrorOfType(err, gensign.SignerSignErr), "C04.ca-failure-is-SignerSignErr")
		vAssert(certAdds == 0, "C04.no-certificate-reaches-the-agent-for-an-unsigned-request")
		vReach("C04.real.ca-fault")
	case faultHit:
		// any refused list / remove / add while delivering is an agent error, never a silent success
		vAssert(err != nil, "C04.agent-refusal-is-never-a-silent-success")
		vAssert(gensign.IsErrorOfType(err, gensign.AgentOpCertErr), "C04.agent-refusal-is-AgentOpCertErr")
		vReach("C04.real.agent-fault")
	default:
		vAssert(err == nil, "C04.no-fault-is-success")
		vAssert(certAdds == nk, "C04.success-means-every-returned-certificate-was-handed-to-the-agent")
		vReach("C04.real.success")
	}
	if err == nil {
		vAssert(!faultHit && !signer.fail, "C04.success-only-without-faults")
		vAssert(certAdds == nk, "C04.success-means-every-returned-certificate-was-handed-to-the-agent")
	}
}
