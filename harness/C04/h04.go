package gensign

//vsym:pkg github.com/theparanoids/ysshra/gensign
//vsym:entry H04_run
//vsym:replay same-harness
//vsym:expect-cover C04.allauthfailed C04.generr C04.gen-empty C04.signerr C04.agenterr C04.panic C04.success C04.second-run
//vsym:bound H04_run: 0..2 handlers, 0..2 agent keys per Generate, 0..2 CSRs per key, 0..2 certificates per CSR; every Authenticate / Generate / CSRs / Sign / AddCertsToAgent call returns ok, returns an error, or panics
//vsym:assume the OpenTelemetry calls made from the recover closure are no-ops (go.opentelemetry.io is not interpreted)

import (
	"context"
	"errors"

	"github.com/theparanoids/crypki/proto"
	"github.com/theparanoids/ysshra/csr"
	"golang.org/x/crypto/ssh"
)

const (
	o04OK = iota
	o04Err
	o04Panic
)

var g04Panicked bool     // some model method panicked
var g04FirstFail string  // kind of the first failure seen: "", "generr", "gen-empty", "signerr", "agenterr", "panic"
var g04GenErr error
var g04AuthCalls []int   // handler indices whose Authenticate was called
var g04AuthOK = -1       // index of the handler that accepted
var g04GenCalls []int
var g04SignCalls []int   // global CSR ids in signing order
var g04Keys []*m04AgentKey
var g04AddCalls []int    // key ids in AddCertsToAgent order
var g04AddOK []int
var g04BadAdd bool       // an AddCertsToAgent call saw something it should not
var g04NextCSR int

func g04Fail(kind string) {
	if g04FirstFail == "" {
		g04FirstFail = kind
	}
}

func g04Outcome(what string) int {
	o := h04Sym(3, what)
	if o == o04Panic {
		g04Panicked = true
		g04Fail("panic")
		// the value a handler, agent key or signer panics with is arbitrary: a
		// short text, an error, a long text in a multi-byte script
		switch h04Sym(3, "panic-value") {
		case 1:
			panic(errors.New("model panic (an error value) in " + what))
		case 2:
			panic("模擬的恐慌：處理程序在執行期間發生了無法恢復的內部錯誤，請聯絡系統管理員")
		}
		panic("model panic in " + what)
	}
	return o
}

// g04Calm: an earlier, fault-free run of the same process is being executed
// (every outcome is "ok", one key, one request, one certificate)
var g04Calm bool

// h04Sym: a fault / shape choice as a solver variable in [0,n)
func h04Sym(n int, name string) int {
	if g04Calm {
		if name == "agent-keys" || name == "csrs-per-key" || name == "certs-per-csr" {
			return 1
		}
		return o04OK
	}
	x := vNondetU8(name)
	vAssume(int(x) < n)
	return vPick(int(x), 0, n-1)
}

type m04Cert struct{ csr, idx int }

func (c *m04Cert) Type() string                            { return "model-cert" }
func (c *m04Cert) Marshal() []byte                         { return []byte{byte(c.csr), byte(c.idx)} }
func (c *m04Cert) Verify(d []byte, s *ssh.Signature) error { return nil }

type m04AgentKey struct {
	id     int
	csrs   []*proto.SSHCertificateSigningRequest
	ids    []int            // global CSR ids
	issued []*m04Cert       // certificates the signer returned for this key's CSRs, in order
	signed int
}

func (k *m04AgentKey) CSRs() []*proto.SSHCertificateSigningRequest {
	g04Outcome("csrs")
	return k.csrs
}

func (k *m04AgentKey) AddCertsToAgent(certs []ssh.PublicKey, comments []string) error {
	g04AddCalls = append(g04AddCalls, k.id)
	// every CSR of this key was signed before, and exactly the issued certificates arrive, in order
	if k.signed != len(k.csrs) || len(certs) != len(k.issued) || len(comments) != len(certs) {
		g04BadAdd = true
	} else {
		for i, c := range certs {
			mc, ok := c.(*m04Cert)
			if !ok || mc != k.issued[i] {
				g04BadAdd = true
			}
		}
	}
	if g04Outcome("add") == o04Err {
		g04Fail("agenterr")
		return errors.New("model: agent refused")
	}
	g04AddOK = append(g04AddOK, k.id)
	return nil
}

type m04Handler struct{ id int }

func (h *m04Handler) Name() string { return "model-handler" }
func (h *m04Handler) Authenticate(p *csr.ReqParam) error {
	g04AuthCalls = append(g04AuthCalls, h.id)
	if g04Outcome("authenticate") == o04Err {
		return errors.New("model: authentication failed")
	}
	if g04AuthOK < 0 {
		g04AuthOK = h.id
	}
	return nil
}
func (h *m04Handler) Generate(p *csr.ReqParam) ([]csr.AgentKey, error) {
	g04GenCalls = append(g04GenCalls, h.id)
	if g04Outcome("generate") == o04Err {
		g04GenErr = NewError(HandlerGenCSRErr, "model", errors.New("model: generate failed"))
		g04Fail("generr")
		return nil, g04GenErr
	}
	nk := h04Sym(3, "agent-keys")
	var out []csr.AgentKey
	for i := 0; i < nk; i++ {
		k := &m04AgentKey{id: i}
		nc := h04Sym(3, "csrs-per-key")
		for j := 0; j < nc; j++ {
			k.csrs = append(k.csrs, &proto.SSHCertificateSigningRequest{KeyId: "csr"})
			k.ids = append(k.ids, g04NextCSR)
			g04NextCSR++
		}
		g04Keys = append(g04Keys, k)
		out = append(out, k)
	}
	if nk == 0 {
		g04Fail("gen-empty")
	}
	return out, nil
}

type m04Signer struct{}

func (m04Signer) Sign(ctx context.Context, req *proto.SSHCertificateSigningRequest) ([]ssh.PublicKey, []string, error) {
	// which CSR is this?
	var key *m04AgentKey
	id := -1
	for _, k := range g04Keys {
		for j, c := range k.csrs {
			if c == req {
				key, id = k, k.ids[j]
			}
		}
	}
	g04SignCalls = append(g04SignCalls, id)
	if g04Outcome("sign") == o04Err {
		g04Fail("signerr")
		return nil, nil, errors.New("model: CA failed")
	}
	n := h04Sym(3, "certs-per-csr")
	var certs []ssh.PublicKey
	var comments []string
	for i := 0; i < n; i++ {
		c := &m04Cert{csr: id, idx: i}
		certs = append(certs, c)
		comments = append(comments, "c")
		if key != nil {
			key.issued = append(key.issued, c)
		}
	}
	if key != nil {
		key.signed++
	}
	return certs, comments, nil
}

func H04_run() {
	nh := vChoose(3, "handlers")
	var hs []Handler
	for i := 0; i < nh; i++ {
		hs = append(hs, &m04Handler{id: i})
	}
	params := &csr.ReqParam{TransID: "t"}
	var err error
	// the process may have served a successful run before (nothing of it may
	// carry over into this one)
	if vChoose(2, "a-successful-run-came-first") == 1 {
		g04Calm = true
		e0 := Run(context.Background(), &csr.ReqParam{TransID: "t0"}, []Handler{&m04Handler{id: 0}}, m04Signer{})
		g04Calm = false
		vAssert(e0 == nil, "C04.no-fault-is-success")
		g04Panicked, g04FirstFail, g04GenErr, g04AuthCalls, g04AuthOK = false, "", nil, nil, -1
		g04GenCalls, g04SignCalls, g04Keys, g04AddCalls, g04AddOK, g04BadAdd, g04NextCSR = nil, nil, nil, nil, nil, false, 0
		vReach("C04.second-run")
	}
	crashed := vCatch(func() { err = Run(context.Background(), params, hs, m04Signer{}) })
	vAssert(!crashed, "C04.run-never-crashes")
	if crashed {
		return
	}

	// handlers are tried in order and none after the first that accepted
	for i, h := range g04AuthCalls {
		vAssert(h == i, "C04.handlers-tried-in-order")
	}
	if g04AuthOK >= 0 {
		vAssert(len(g04AuthCalls) == g04AuthOK+1, "C04.no-handler-after-the-accepting-one")
		vAssert(len(g04GenCalls) <= 1 && (len(g04GenCalls) == 0 || g04GenCalls[0] == g04AuthOK), "C04.generating-handler-is-the-first-accepting")
	} else {
		vAssert(len(g04GenCalls) == 0 && len(g04SignCalls) == 0 && len(g04AddCalls) == 0, "C04.nothing-after-all-auth-failed")
	}
	vAssert(!g04BadAdd, "C04.agent-receives-exactly-the-issued-certificates-after-all-csrs-signed")
	// signing order: every CSR at most once, in generation order
	for i, id := range g04SignCalls {
		vAssert(id == i, "C04.csrs-signed-in-order")
	}

	kind := g04FirstFail
	if kind == "" && g04AuthOK < 0 {
		kind = "allauthfailed"
	}
	switch kind {
	case "panic":
		vAssert(IsErrorOfType(err, Panic), "C04.panic-becomes-Panic-error")
		vReach("C04.panic")
	case "allauthfailed":
		vAssert(IsErrorOfType(err, AllAuthFailed), "C04.no-handler-is-AllAuthFailed")
		vReach("C04.allauthfailed")
	case "generr":
		vAssert(err == error(g04GenErr.(*Error)), "C04.generate-error-returned-unchanged")
		vReach("C04.generr")
	case "gen-empty":
		vAssert(IsErrorOfType(err, HandlerGenCSRErr), "C04.no-csr-is-HandlerGenCSRErr")
		vReach("C04.gen-empty")
	case "signerr":
		vAssert(IsErrorOfType(err, SignerSignErr), "C04.ca-failure-is-SignerSignErr")
		vReach("C04.signerr")
	case "agenterr":
		vAssert(IsErrorOfType(err, AgentOpCertErr), "C04.agent-failure-is-AgentOpCertErr")
		vReach("C04.agenterr")
	default:
		vAssert(err == nil, "C04.no-fault-is-success")
		vReach("C04.success")
	}
	if err == nil {
		// success only when everything was signed and handed over
		vAssert(kind == "", "C04.success-only-without-faults")
		vAssert(len(g04SignCalls) == g04NextCSR, "C04.success-means-every-csr-signed")
		vAssert(len(g04AddOK) == len(g04Keys), "C04.success-means-every-key-delivered")
	}
}
