package yubiattest

//vsym:pkg github.com/theparanoids/ysshra/attestation/yubiattest
//vsym:entry H06_parsed_inputs
//vsym:include C16/h16_parse.go
//vsym:model encoding/asn1.Unmarshal m16pUnmarshal
//vsym:model (*math/big.Int).Sign m16pSign
//vsym:model math/big.NewInt m16pNewInt
//vsym:replay none
//vsym:expect-cover C16.f.ok C16.f.padded-signature
//vsym:bound H06_parsed_inputs: what Attest checks is what the lenient parser hands it: the signature integer is the value of the certificate's signature bit string (0..7 padding bits), the hashed body is the raw to-be-signed bytes, the algorithm label follows the identifier (bounds of C16's H16_fields)
//vsym:assume encoding/asn1 is modelled by its contract (see C16)

// H06_parsed_inputs: the certificate fields the signature check consumes
// (Signature, RawTBSCertificate, SignatureAlgorithm, PublicKey) are exactly
// those of the parsed certificate; shared with C16.
func H06_parsed_inputs() { H16_fields() }
