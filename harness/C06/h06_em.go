package yubiattest

//vsym:pkg github.com/theparanoids/ysshra/attestation/yubiattest
//vsym:entry H06_em
//vsym:model (*math/big.Int).SetBytes m06SetBytes
//vsym:model (*math/big.Int).Exp m06Exp
//vsym:model (*math/big.Int).Bytes m06Bytes
//vsym:model (*math/big.Int).FillBytes m06FillBytes
//vsym:model (*math/big.Int).BitLen m06BitLen
//vsym:model math/big.NewInt m06NewInt
//vsym:expect-cover C06.em.accept C06.em.reject C06.em.accept-with-null C06.em.accept-without-null
//vsym:bound H06_em: modulus size k in {128} (quick) / {128,256,384,512} (thorough) plus the sizes tLen+9..tLen+13 of each hash; hash in {SHA1,SHA256,SHA384,SHA512}; every byte of the encoded message EM and of the digest symbolic; number of leading zero bytes of EM split 0..k; modulus of 8k or 8k-4 bits; optionally a genuine verification (same key size and hash) earlier in the same process
//vsym:assume math/big is modelled: Exp yields an arbitrary k-byte EM (the adversary controls sig, hence EM is arbitrary below N), Bytes() is the minimal big-endian form, BitLen() = 8k

//vsym:replay same-harness

import (
	"crypto"
	"crypto/rand"
	"crypto/rsa"
	"math/big"
)

var m06EM []byte      // minimal big-endian form of sig^e mod N
var m06K int          // modulus size in bytes
var m06Sig = []byte{1} // the signature bytes are irrelevant under the Exp model
var nativePriv *rsa.PrivateKey

func m06SetBytes(z *big.Int, buf []byte) *big.Int { return z }
func m06NewInt(x int64) *big.Int                   { return new(big.Int) }
func m06Exp(z, x, y, m *big.Int) *big.Int          { return z }
func m06Bytes(x *big.Int) []byte {
	out := make([]byte, len(m06EM))
	copy(out, m06EM)
	return out
}
// FillBytes: the same value written big-endian into the caller's buffer, zero-extended
func m06FillBytes(x *big.Int, buf []byte) []byte {
	for i := range buf {
		buf[i] = 0
	}
	if len(buf) < len(m06EM) {
		panic("math/big: buffer too small to fit value")
	}
	copy(buf[len(buf)-len(m06EM):], m06EM)
	return buf
}

var m06Slack int // the modulus has 8k - slack bits

func m06BitLen(x *big.Int) int { return m06K*8 - m06Slack }

// OIDs of the digest algorithms (RFC 8017 appendix B.1), written here
// independently of the tables in signature.go.
var s06OID = map[crypto.Hash][]byte{
	crypto.SHA1:   {0x2b, 0x0e, 0x03, 0x02, 0x1a},
	crypto.SHA256: {0x60, 0x86, 0x48, 0x01, 0x65, 0x03, 0x04, 0x02, 0x01},
	crypto.SHA384: {0x60, 0x86, 0x48, 0x01, 0x65, 0x03, 0x04, 0x02, 0x02},
	crypto.SHA512: {0x60, 0x86, 0x48, 0x01, 0x65, 0x03, 0x04, 0x02, 0x03},
}
var s06Len = map[crypto.Hash]int{crypto.SHA1: 20, crypto.SHA256: 32, crypto.SHA384: 48, crypto.SHA512: 64}

// s06DigestInfoPrefix builds the DER prefix of DigestInfo up to (not
// including) the digest bytes: SEQUENCE { SEQUENCE { OID [, NULL] }, OCTET STRING hLen }.
func s06DigestInfoPrefix(h crypto.Hash, withNull bool) []byte {
	oid := s06OID[h]
	alg := []byte{0x06, byte(len(oid))}
	alg = append(alg, oid...)
	if withNull {
		alg = append(alg, 0x05, 0x00)
	}
	inner := []byte{0x30, byte(len(alg))}
	inner = append(inner, alg...)
	inner = append(inner, 0x04, byte(s06Len[h]))
	out := []byte{0x30, byte(len(inner) - 2 + 2 + s06Len[h])}
	return append(out, inner...)
}

// s06Spec is EMSA-PKCS1-v1_5 (RFC 8017 9.2) for one DigestInfo form, as a
// non-forking predicate over the full-length EM.
func s06Spec(em []byte, k int, prefix, digest []byte) bool {
	tLen := len(prefix) + len(digest)
	if k < tLen+11 {
		return false
	}
	ok := vAnd(em[0] == 0, em[1] == 1)
	for i := 2; i < k-tLen-1; i++ {
		ok = vAnd(ok, em[i] == 0xff)
	}
	ok = vAnd(ok, em[k-tLen-1] == 0)
	ok = vAnd(ok, vEqBytes(em[k-tLen:k-len(digest)], prefix))
	ok = vAnd(ok, vEqBytes(em[k-len(digest):], digest))
	return ok
}

func h06Hashes() []crypto.Hash {
	return []crypto.Hash{crypto.SHA1, crypto.SHA256, crypto.SHA384, crypto.SHA512}
}

func H06_em() {
	hs := h06Hashes()
	h := hs[vChoose(len(hs), "hash")]
	hLen := s06Len[h]
	p1 := s06DigestInfoPrefix(h, true)
	p2 := s06DigestInfoPrefix(h, false)
	tLen1 := len(p1) + hLen

	// modulus sizes: the statement's sizes plus the neighbourhood of the
	// minimum size for this hash
	sizes := []int{128}
	if vThorough() {
		sizes = append(sizes, 256, 384, 512)
	}
	for d := 9; d <= 13; d++ {
		sizes = append(sizes, tLen1+d)
	}
	k := sizes[vChoose(len(sizes), "k")]
	m06K = k
	// a modulus of k bytes need not have 8k bits (e.g. a 1028-bit key: k = 129)
	m06Slack = 4 * vChoose(2, "modulus-bits-short-of-8k")

	// EM: lz leading zero bytes (Bytes() strips them), then symbolic bytes
	lz := vChoose(3, "leading-zeros") // 0, 1, or 2-and-more
	em := make([]byte, k)
	rest := vNondetBytes("em", k)
	switch lz {
	case 0:
		copy(em, rest)
		vAssume(em[0] != 0)
	case 1:
		copy(em[1:], rest[1:])
		vAssume(em[1] != 0)
	case 2:
		copy(em[2:], rest[2:])
	}
	vAssume(em[0] < byte(0x80>>uint(m06Slack))) // EM = sig^e mod N < N; stated bound em < 2^(bits-1)
	switch lz {
	case 0:
		m06EM = em
	case 1:
		m06EM = em[1:]
	case 2:
		// at least two leading zeros; how many more does not matter to the
		// minimal form's *content* after left-padding, but it matters to its
		// length, so split once more: exactly 2, or all the rest arbitrary
		// with em[2] non-zero / em[2] zero and the tail kept (leftPad must
		// restore the zeros either way)
		if vChoose(2, "lz2-exact") == 0 {
			vAssume(em[2] != 0)
			m06EM = em[2:]
		} else {
			em[2] = 0
			m06EM = em[3:] // Bytes() of a value with >= 3 leading zeros, tail possibly zero too: a non-minimal form is a superset of behaviours
		}
	}
	digest := vNondetBytes("digest", hLen)
	pub := &rsa.PublicKey{N: new(big.Int), E: 65537}
	sig := m06Sig
	if vIsNative() {
		// replay against the real math/big: a real key of k bytes and the
		// signature em^d mod N
		priv, gerr := rsa.GenerateKey(rand.Reader, k*8-m06Slack)
		if gerr != nil {
			panic(gerr)
		}
		pub = &priv.PublicKey
		sig = new(big.Int).Exp(new(big.Int).SetBytes(em), priv.D, priv.N).Bytes()
		nativePriv = priv
	}

	// a genuine attestation verified earlier in the same process must not
	// change the verdict on this one
	if k >= tLen1+11 && vChoose(2, "genuine-verification-first") == 1 {
		good := make([]byte, k)
		good[1] = 1
		for i := 2; i < k-tLen1-1; i++ {
			good[i] = 0xff
		}
		copy(good[k-tLen1:], p1)
		zero := make([]byte, hLen)
		saved := m06EM
		m06EM = good[1:]
		gsig := m06Sig
		if vIsNative() {
			gsig = new(big.Int).Exp(new(big.Int).SetBytes(good), nativePriv.D, nativePriv.N).Bytes()
		}
		gerr := verifyPKCS1v15(pub, h, zero, gsig)
		vAssert(gerr == nil, "C06.genuine-signature-accepted")
		m06EM = saved
	}

	err := verifyPKCS1v15(pub, h, digest, sig)

	spec := vOr(s06Spec(em, k, p1, digest), s06Spec(em, k, p2, digest))
	vCover(err == nil, "C06.em.accept")
	vCover(err != nil, "C06.em.reject")
	if k >= tLen1+11 {
		vCover(vAnd(err == nil, s06Spec(em, k, p1, digest)), "C06.em.accept-with-null")
		vCover(vAnd(err == nil, s06Spec(em, k, p2, digest)), "C06.em.accept-without-null")
		vAssert(vIff(err == nil, spec), "C06.em-iff-spec")
	} else {
		// below the code's minimum size: only soundness is claimed
		vAssert(vImplies(err == nil, spec), "C06.em-sound-small-k")
		vAssert(err != nil, "C06.em-small-k-rejected")
	}
}
