package yubiattest

//vsym:pkg github.com/theparanoids/ysshra/attestation/yubiattest
//vsym:entry H06_checksignature
//vsym:entry H06_attest
//vsym:entry H06_attest_twice
//vsym:model github.com/theparanoids/ysshra/attestation/yubiattest.verifyPKCS1v15 m06aVerify
//vsym:model (crypto.Hash).Available m06aAvailable
//vsym:model (crypto.Hash).New m06aNew
//vsym:model (*crypto/x509.Certificate).Verify m06aCertVerify
//vsym:model time.Now m06aNow
//vsym:model (*math/big.Int).String m06aBigString
//vsym:model (crypto/x509/pkix.Name).String m06aNameString
//vsym:replay none
//vsym:expect-cover C06.cs.rsa-sha1 C06.cs.rsa-sha256 C06.cs.rsa-sha384 C06.cs.rsa-sha512 C06.cs.insecure C06.cs.unsupported-algorithm C06.cs.non-rsa-key C06.attest.ok C06.attest.chain-fails C06.attest.signature-fails
//vsym:bound H06_checksignature: the signature-algorithm label any int; public key *rsa.PublicKey, *ecdsa.PublicKey, ed25519.PublicKey or nil; to-be-signed bytes and signature 2 symbolic bytes each
//vsym:bound H06_attest_twice: a genuine attestation followed, on the same Attestor, by a device certificate with the same issuer and serial number that does not chain to the roots
//vsym:bound H06_attest: chain verification of the device certificate succeeds or fails (arbitrary); the signature check succeeds or fails
//vsym:assume verifyPKCS1v15 is summarised (decided by H06_em); crypto hashes are logging models (the digest is an uninterpreted function of the written bytes); x509 chain building / validity inside (*Certificate).Verify is the standard library's: decided here is which certificate is verified, against which pool, at which time

import (
	"crypto"
	"crypto/ecdsa"
	"crypto/ed25519"
	"crypto/rsa"
	"crypto/x509"
	"crypto/x509/pkix"
	"errors"
	"hash"
	"math/big"
	"time"
)

type m06aCall struct {
	pub    *rsa.PublicKey
	h      crypto.Hash
	hashed []byte
	sig    []byte
}

var m06aCalls []m06aCall
var m06aVerdict bool

func m06aVerify(pub *rsa.PublicKey, h crypto.Hash, hashed []byte, sig []byte) error {
	m06aCalls = append(m06aCalls, m06aCall{pub, h, hashed, sig})
	if m06aVerdict {
		return nil
	}
	return rsa.ErrVerification
}

type m06aHash struct {
	h       crypto.Hash
	written []byte
	sums    int
}

var m06aHashes []*m06aHash

func (m *m06aHash) Write(p []byte) (int, error) { m.written = append(m.written, p...); return len(p), nil }
func (m *m06aHash) Sum(b []byte) []byte {
	m.sums++
	// the digest: an injective tag of (hash, everything written)
	return append(b, append([]byte{'D', byte(m.h)}, m.written...)...)
}
func (m *m06aHash) Reset()         { m.written = nil }
func (m *m06aHash) Size() int      { return m.h.Size() }
func (m *m06aHash) BlockSize() int { return 64 }

func m06aAvailable(h crypto.Hash) bool {
	return h == crypto.SHA1 || h == crypto.SHA256 || h == crypto.SHA384 || h == crypto.SHA512
}
func m06aNew(h crypto.Hash) hash.Hash {
	x := &m06aHash{h: h}
	m06aHashes = append(m06aHashes, x)
	return x
}

func m06aBigString(x *big.Int) string    { return "serial-7" }
func m06aNameString(n pkix.Name) string { return "CN=device issuer" }

type m06aVerifyCall struct {
	cert *x509.Certificate
	opts x509.VerifyOptions
}

var m06aVerifyCalls []m06aVerifyCall
var m06aChainOK bool

// the clock: some instant inside the device certificate's window (a stored
// instant is visible as a non-zero CurrentTime in the options)
// every reading is later than the one before
var m06aTicks int64

func m06aNow() time.Time {
	m06aTicks++
	return time.Unix(1500+m06aTicks, 0)
}

func m06aCertVerify(c *x509.Certificate, opts x509.VerifyOptions) ([][]*x509.Certificate, error) {
	m06aVerifyCalls = append(m06aVerifyCalls, m06aVerifyCall{c, opts})
	if m06aChainOK {
		return [][]*x509.Certificate{{c}}, nil
	}
	return nil, errors.New("model: chain does not verify")
}

// s06aHash: the digest algorithm of each signature-algorithm label (RFC 5280 / x509 package documentation)
func s06aHash(a x509.SignatureAlgorithm) (crypto.Hash, string) {
	switch a {
	case x509.SHA1WithRSA, x509.DSAWithSHA1, x509.ECDSAWithSHA1:
		return crypto.SHA1, "sha1"
	case x509.SHA256WithRSA, x509.DSAWithSHA256, x509.ECDSAWithSHA256:
		return crypto.SHA256, "sha256"
	case x509.SHA384WithRSA, x509.ECDSAWithSHA384:
		return crypto.SHA384, "sha384"
	case x509.SHA512WithRSA, x509.ECDSAWithSHA512:
		return crypto.SHA512, "sha512"
	case x509.MD2WithRSA, x509.MD5WithRSA:
		return 0, "insecure"
	}
	return 0, "unsupported"
}

func H06_checksignature() {
	algo := x509.SignatureAlgorithm(vNondetInt("algorithm"))
	signed := vNondetBytes("tbs", 2)
	sig := vNondetBytes("sig", 2)
	var pub crypto.PublicKey
	rsaKey := &rsa.PublicKey{N: new(big.Int), E: 65537}
	kind := vChoose(4, "key-type")
	switch kind {
	case 0:
		pub = rsaKey
	case 1:
		pub = &ecdsa.PublicKey{}
	case 2:
		pub = ed25519.PublicKey(make([]byte, 32))
	case 3:
		pub = nil
	}
	m06aVerdict = vChoose(2, "pkcs1-verdict") == 1
	err := checkSignature(algo, signed, sig, pub)
	h, class := s06aHash(algo)
	switch class {
	case "insecure":
		_, isInsecure := err.(x509.InsecureAlgorithmError)
		vAssert(isInsecure, "C06.md2-md5-rejected-as-insecure")
		vAssert(len(m06aCalls) == 0, "C06.no-verification-for-rejected-algorithms")
		vReach("C06.cs.insecure")
		return
	case "unsupported":
		vAssert(err == x509.ErrUnsupportedAlgorithm, "C06.unknown-algorithms-rejected")
		vAssert(len(m06aCalls) == 0, "C06.no-verification-for-rejected-algorithms")
		vReach("C06.cs.unsupported-algorithm")
		return
	}
	if kind != 0 {
		vAssert(err == x509.ErrUnsupportedAlgorithm, "C06.non-rsa-device-keys-rejected")
		vAssert(len(m06aCalls) == 0, "C06.no-verification-for-rejected-algorithms")
		vReach("C06.cs.non-rsa-key")
		return
	}
	// RSA key, supported algorithm: exactly one PKCS#1 verification, with the
	// device key, the right hash, the digest of exactly the signed bytes, and the signature
	vAssert(len(m06aCalls) == 1, "C06.one-pkcs1-verification")
	if len(m06aCalls) == 1 {
		c := m06aCalls[0]
		vAssert(c.pub == rsaKey, "C06.verified-under-the-given-key")
		vAssert(c.h == h, "C06.algorithm-to-hash-mapping")
		want := append([]byte{'D', byte(h)}, signed...)
		vAssert(len(c.hashed) == len(want) && vEqBytes(c.hashed, want), "C06.digest-of-exactly-the-signed-bytes")
		vAssert(len(c.sig) == len(sig) && vEqBytes(c.sig, sig), "C06.signature-passed-unchanged")
	}
	vAssert((err == nil) == m06aVerdict, "C06.result-is-the-pkcs1-verdict")
	vReach("C06.cs.rsa-" + class)
}

func H06_attest() {
	m06aChainOK = vChoose(2, "chain-verifies") == 1
	m06aVerdict = vChoose(2, "pkcs1-verdict") == 1
	pool := x509.NewCertPool()
	a := NewAttestorWithCAPool(pool)
	devKey := &rsa.PublicKey{N: new(big.Int), E: 65537}
	// the device certificate itself is signed with another algorithm than the slot certificate
	f9 := &x509.Certificate{PublicKey: devKey, RawTBSCertificate: []byte("f9-tbs"), Signature: []byte("f9-sig"), SignatureAlgorithm: x509.SHA512WithRSA}
	tbs := vNondetBytes("slot-tbs", 2)
	sig := vNondetBytes("slot-sig", 2)
	slot := &x509.Certificate{PublicKey: &rsa.PublicKey{N: new(big.Int), E: 3}, RawTBSCertificate: tbs, Signature: sig, SignatureAlgorithm: x509.SHA256WithRSA,
		NotBefore: time.Unix(1000, 0), NotAfter: time.Unix(2000, 0)}
	m06aNow() // time passes between construction and use
	called := m06aNow().Unix()
	err := a.Attest(f9, slot)
	vAssert((err == nil) == (m06aChainOK && m06aVerdict), "C06.attest-needs-chain-and-signature")
	// the device certificate was verified against the attestor's pool, at the current time
	vAssert(len(m06aVerifyCalls) >= 1 && m06aVerifyCalls[0].cert == f9, "C06.device-certificate-chain-verified")
	if len(m06aVerifyCalls) >= 1 {
		o := m06aVerifyCalls[0].opts
		vAssert(o.Roots == pool, "C06.chain-verified-against-the-configured-roots")
		// the zero value means "now" to crypto/x509; an explicit instant must have been read during this call
		vAssert(o.CurrentTime.IsZero() || o.CurrentTime.Unix() > called, "C06.chain-verified-at-the-current-time")
		vAssert(o.Intermediates == nil && o.DNSName == "", "C06.no-foreign-intermediates")
	}
	if !m06aChainOK {
		vAssert(err != nil, "C06.unverifiable-device-certificate-rejected")
		vReach("C06.attest.chain-fails")
		return
	}
	// the signature check ran with the device key over the slot certificate's TBS bytes and signature
	vAssert(len(m06aCalls) == 1, "C06.one-pkcs1-verification")
	if len(m06aCalls) == 1 {
		c := m06aCalls[0]
		vAssert(c.pub == devKey, "C06.slot-signature-checked-under-the-device-key")
		want := append([]byte{'D', byte(crypto.SHA256)}, tbs...)
		vAssert(len(c.hashed) == len(want) && vEqBytes(c.hashed, want), "C06.digest-of-the-slot-certificate-body")
		vAssert(len(c.sig) == 2 && vEqBytes(c.sig, sig), "C06.slot-signature-value-checked")
	}
	if err == nil {
		vReach("C06.attest.ok")
	} else {
		vReach("C06.attest.signature-fails")
	}
}

// H06_attest_twice: what an Attestor accepted before must not vouch for a
// different device certificate later.
func H06_attest_twice() {
	pool := x509.NewCertPool()
	a := NewAttestorWithCAPool(pool)
	mk := func(tag string) (*x509.Certificate, *x509.Certificate) {
		dev := &x509.Certificate{PublicKey: &rsa.PublicKey{N: new(big.Int), E: 65537}, RawTBSCertificate: []byte(tag + "-f9"), Signature: []byte(tag),
			SignatureAlgorithm: x509.SHA256WithRSA, SerialNumber: big.NewInt(7), RawIssuer: []byte("same-issuer"), RawSubject: []byte("same-subject"), Raw: []byte(tag)}
		slot := &x509.Certificate{RawTBSCertificate: vNondetBytes(tag+"-tbs", 2), Signature: vNondetBytes(tag+"-sig", 2), SignatureAlgorithm: x509.SHA256WithRSA}
		return dev, slot
	}
	genuine, slot1 := mk("genuine")
	m06aChainOK, m06aVerdict = true, true
	vAssert(a.Attest(genuine, slot1) == nil, "C06.genuine-attestation-accepted")
	forged, slot2 := mk("forged")
	m06aChainOK = false // the forged device certificate does not chain to the roots
	calls := len(m06aVerifyCalls)
	err := a.Attest(forged, slot2)
	vAssert(err != nil, "C06.unverifiable-device-certificate-rejected")
	vAssert(len(m06aVerifyCalls) == calls+1 && m06aVerifyCalls[calls].cert == forged, "C06.device-certificate-chain-verified")
}
