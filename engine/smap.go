package main

// Ordered map with symbolic-key awareness: lookups against keys whose
// equality is not decided concretely fork on "matches entry i".

import (
	"go/types"
)

type mentry struct {
	key, val value
	deleted  bool
	present  *Term // non-nil: the entry exists only under this condition
}

type smap struct {
	kt      types.Type
	entries []*mentry
	n       int
}

func newSmap(t *types.Map) *smap { return &smap{kt: t.Key()} }

func (m *smap) len() int { return m.n }

func (m *smap) access(r *run, write bool) {
	if m != nil && len(r.pooledMap) > 0 && r.pooledMap[m] {
		r.pooledHit()
	}
	if write && m != nil {
		if label, ok := r.frozenMap[m]; ok {
			r.frozenHit(label)
		}
	}
	if r.tracing && m != nil {
		if loc, ok := r.watchMap[m]; ok {
			if write {
				r.traceEvent("wr:" + loc)
			} else {
				r.traceEvent("rd:" + loc)
			}
		}
	}
}

func (m *smap) find(r *run, key value) *mentry {
	for _, e := range m.entries {
		if e.deleted {
			continue
		}
		eq := equalsT(m.kt, e.key, key)
		if eq.IsConst() {
			if eq.Val == 1 {
				return e
			}
			continue
		}
		if r.branch(eq) {
			return e
		}
	}
	return nil
}

// resolve decides a conditional entry (forking) and reports whether it exists.
func (e *mentry) resolve(r *run, m *smap) bool {
	if e.present == nil {
		return true
	}
	p := e.present
	e.present = nil
	if r.branch(p) {
		return true
	}
	e.deleted = true
	m.n--
	return false
}

func (m *smap) lookup(r *run, key value) (value, bool) {
	m.access(r, false)
	if e := m.find(r, key); e != nil {
		if !e.resolve(r, m) {
			return nil, false
		}
		return e.val, true
	}
	return nil, false
}

func (m *smap) insert(r *run, key, val value) {
	m.access(r, true)
	if e := m.find(r, key); e != nil {
		e.present = nil
		e.val = copyVal(val)
		return
	}
	m.entries = append(m.entries, &mentry{key: copyVal(key), val: copyVal(val)})
	m.n++
}

func (m *smap) delete(r *run, key value) {
	m.access(r, true)
	if e := m.find(r, key); e != nil {
		if e.resolve(r, m) {
			e.deleted = true
			m.n--
		}
	}
}

func (m *smap) resolveAll(r *run) {
	for _, e := range m.entries {
		if !e.deleted {
			e.resolve(r, m)
		}
	}
}

func (m *smap) clear() {
	for _, e := range m.entries {
		e.deleted = true
	}
	m.entries = nil
	m.n = 0
}

type mapIter struct {
	snap []*mentry
	i    int
}

func newMapIter(r *run, m *smap) *mapIter {
	it := &mapIter{}
	if m == nil {
		return it
	}
	m.access(r, false)
	m.resolveAll(r)
	for _, e := range m.entries {
		if !e.deleted {
			it.snap = append(it.snap, e)
		}
	}
	// every iteration order for small maps when the harness asks for it
	if r.mapOrderAll && len(it.snap) >= 2 && len(it.snap) <= 3 {
		perms := permutations(len(it.snap))
		k := r.chooseFree(len(perms), "maporder")
		p := perms[k]
		ns := make([]*mentry, len(it.snap))
		for i, j := range p {
			ns[i] = it.snap[j]
		}
		it.snap = ns
	}
	return it
}

func permutations(n int) [][]int {
	if n == 2 {
		return [][]int{{0, 1}, {1, 0}}
	}
	return [][]int{{0, 1, 2}, {0, 2, 1}, {1, 0, 2}, {1, 2, 0}, {2, 0, 1}, {2, 1, 0}}
}

func (it *mapIter) next(r *run) tuple {
	for it.i < len(it.snap) {
		e := it.snap[it.i]
		it.i++
		if e.deleted {
			continue // deleted during iteration: not produced (Go semantics)
		}
		return tuple{tTrue, copyVal(e.key), copyVal(e.val)}
	}
	return tuple{tFalse, nil, nil}
}
