package main

// Path exploration by re-execution: a path is the list of choices taken at
// fork points.  Each run replays a prefix without consulting the solver and
// extends it at the frontier, queueing the feasible alternatives.

import (
	"bufio"
	"encoding/json"
	"fmt"
	"go/token"
	"go/types"
	"io"
	"math/rand"
	"os"
	"regexp"
	"sort"
	"strings"
	"sync"
	"time"

	"golang.org/x/tools/go/ssa"
)

type choice struct {
	K int    `json:"k"`
	V uint64 `json:"v,omitempty"`
}

type nondetRec struct {
	Name  string `json:"name"`
	Kind  string `json:"kind"` // bool,u8,u16,u32,u64,i64,choose
	Var   string `json:"var,omitempty"`
	Value string `json:"value,omitempty"` // filled from the model
	term  *Term
}

type obligRec struct {
	Kind    string            `json:"kind"` // assert | crash | alloc | cover
	Label   string            `json:"label"`
	Status  string            `json:"status"` // proved | violated | unknown | reached
	Detail  string            `json:"detail,omitempty"`
	Entry   string            `json:"entry"`
	Path    []choice          `json:"path,omitempty"`
	Nondets []nondetRec       `json:"nondets,omitempty"`
	Facts   map[string]string `json:"facts,omitempty"`
	PC      []string          `json:"pc,omitempty"`
}

type run struct {
	eng   *engine
	sol   *Solver
	entry string

	prefix []choice
	pos    int
	alts   [][]choice

	globals    map[*ssa.Global]*value
	initState  map[*ssa.Package]int
	forceInit  map[*ssa.Package]bool
	initFailed map[*ssa.Package]string
	lazyInits  []string
	inModel    map[string]bool

	nvars   int
	nondets []nondetRec
	pc      []*Term
	facts   map[string]string

	steps  int
	depth  int
	merges int

	obligs       []obligRec
	covers       map[string]bool
	notes        map[string]bool
	funcs        map[*ssa.Function]bool
	unknownSeen  bool
	mapOrderAll  bool
	allocWatch   bool
	maxLen       int
	symbolicPath bool
	events       []string

	emits     []string
	pendingGo []pendingGo
	curG, nextG int // goroutine executing now (0: the entry's), last id handed out
	twins     map[*Term]*Term
	stack     []*ssa.Function
	names     map[*value]string
	watch     map[*value]string
	watchMap  map[*smap]string
	trace     []string
	tracing   bool
	traces    []traceRec
	syncMaps  map[*value]map[string]value
	jsonEncW  map[*value]value // json.Encoder -> the writer it was made for
	symCopies map[*value]bool  // read-only materialisations of table[symbolic index]
	curves    map[string]value // opaque named curves handed out so far
	onceDone  map[*value]bool
	pools     map[*value][]value  // sync.Pool contents (worst case: last put is next got)
	frozen    map[*value]string   // cells no operation may write to -> obligation label
	frozenMap map[*smap]string
	frozenSeen map[string]bool
	poolStrict bool             // vPoolStrict: an object is not the putter's any more after sync.Pool.Put
	pooled     map[*value]bool  // cells of objects currently inside a pool
	pooledMap  map[*smap]bool
	raceLabel  string           // obligation label of the pairwise schedule composition (default: C11's)
	waitFrom  *frame // caller of the sync primitive being recorded
	syncIDs   map[*value]int
	syncLog   []syncEv
	held      map[*value]int
}

// ---------------------------------------------------------------- choices

// choose picks one of n options.  feasible is only consulted at the frontier.
func (r *run) choose(n int, feasible func(k int) bool) int {
	if r.pos < len(r.prefix) {
		c := r.prefix[r.pos]
		r.pos++
		return c.K
	}
	if len(r.prefix) >= r.eng.maxChoices {
		panic(engineError{"choice budget exceeded (unwinding bound)"})
	}
	first := -1
	for k := 0; k < n; k++ {
		if feasible == nil || feasible(k) {
			if first < 0 {
				first = k
			} else {
				alt := make([]choice, r.pos+1)
				copy(alt, r.prefix[:r.pos])
				alt[r.pos] = choice{K: k}
				r.alts = append(r.alts, alt)
			}
		}
	}
	if first < 0 {
		panic(pathEnd{"no feasible option"})
	}
	r.prefix = append(r.prefix[:r.pos], choice{K: first})
	r.pos++
	return first
}

// chooseFree: every option is feasible (harness-level nondeterminism).
func (r *run) chooseFree(n int, name string) int {
	return r.choose(n, nil)
}

var qprof = map[string]int{}
var qprofMu sync.Mutex
var qprofOn = os.Getenv("VSYM_QPROF") != ""

func (r *run) feasible(c *Term) bool {
	if c.IsConst() {
		return c.Val == 1
	}
	if qprofOn && len(r.stack) > 0 {
		qprofMu.Lock()
		qprof[r.stack[len(r.stack)-1].String()]++
		qprofMu.Unlock()
	}
	res, _ := r.sol.Check(c, false)
	if res == "unknown" {
		r.unknownSeen = true
		return true
	}
	return res == "sat"
}

func (r *run) assume(c *Term) {
	if c.isTrue() {
		return
	}
	if c.isFalse() {
		panic(pathEnd{"assume false"})
	}
	r.pc = append(r.pc, c)
	r.sol.Assert(c)
}

// branch decides a (possibly symbolic) condition, forking when both sides
// are feasible under the path condition.
func (r *run) branch(c *Term) bool {
	if c.IsConst() {
		return c.Val == 1
	}
	r.symbolicPath = true
	var k int
	if r.pos < len(r.prefix) {
		k = r.prefix[r.pos].K
		r.pos++
	} else {
		tOK := r.feasible(c)
		fOK := true
		if tOK {
			fOK = r.feasible(mkNot(c))
		}
		k = r.choose(2, func(k int) bool {
			if k == 0 {
				return tOK
			}
			return fOK
		})
	}
	if k == 0 {
		r.assume(c)
		return true
	}
	r.assume(mkNot(c))
	return false
}

// concretize forks over the feasible values of t in [lo,hi).
func (r *run) concretize(t *Term, lo, hi int) int {
	if t.IsConst() {
		return int(int64(t.Val))
	}
	r.symbolicPath = true
	k := r.choose(hi-lo, func(k int) bool {
		return r.feasible(mkEq(t, mkBV(t.S.W, uint64(lo+k))))
	})
	r.assume(mkEq(t, mkBV(t.S.W, uint64(lo+k))))
	return lo + k
}

// ---------------------------------------------------------------- nondet

func (r *run) fresh(name, kind string, s Sort) *Term {
	r.nvars++
	vn := fmt.Sprintf("n%d_%s", r.nvars, sanitize(name))
	v := mkVar(vn, s)
	r.sol.Declare(v)
	r.nondets = append(r.nondets, nondetRec{Name: name, Kind: kind, Var: vn, term: v})
	return v
}

func sanitize(s string) string {
	var sb strings.Builder
	for _, c := range s {
		if (c >= 'a' && c <= 'z') || (c >= 'A' && c <= 'Z') || (c >= '0' && c <= '9') || c == '_' {
			sb.WriteRune(c)
		} else {
			sb.WriteRune('_')
		}
	}
	return sb.String()
}

// ---------------------------------------------------------------- obligations

func (r *run) note(format string, args ...interface{}) {
	r.notes[fmt.Sprintf(format, args...)] = true
}

func (r *run) noteFunc(fn *ssa.Function) {
	r.funcs[fn] = true
}

func (r *run) snapshot(o *obligRec, model map[string]string) {
	o.Entry = r.entry
	o.Path = append([]choice{}, r.prefix[:r.pos]...)
	for _, nd := range r.nondets {
		c := nd
		if model != nil && nd.Var != "" {
			c.Value = model[nd.Var]
		}
		c.term = nil
		o.Nondets = append(o.Nondets, c)
	}
	if len(r.facts) > 0 {
		o.Facts = map[string]string{}
		for k, v := range r.facts {
			o.Facts[k] = v
		}
	}
	for i, c := range r.pc {
		if i >= 12 {
			o.PC = append(o.PC, fmt.Sprintf("… %d more", len(r.pc)-i))
			break
		}
		s := c.String()
		if len(s) > 300 {
			s = s[:300] + "…"
		}
		o.PC = append(o.PC, s)
	}
}

// obligation: pc ⇒ c must hold.
func (r *run) obligation(kind, label string, c *Term) {
	o := obligRec{Kind: kind, Label: label}
	if c.isTrue() {
		o.Status = "proved"
		o.Detail = "concrete"
		o.Entry = r.entry
		r.obligs = append(r.obligs, o)
		return
	}
	res, model := r.sol.Check(mkNot(c), true)
	switch res {
	case "unsat":
		o.Status = "proved"
		o.Entry = r.entry
		r.obligs = append(r.obligs, o)
		return
	case "sat":
		o.Status = "violated"
		r.snapshot(&o, model)
	default:
		o.Status = "unknown"
		o.Detail = strings.Join(r.sol.errs, "; ")
		r.snapshot(&o, nil)
	}
	r.obligs = append(r.obligs, o)
	// continue on the side where the obligation holds
	r.assume(c)
}

// violation records an unconditional failure on this path (model from pc).
func (r *run) violation(kind, label, detail string) {
	o := obligRec{Kind: kind, Label: label, Detail: detail}
	res, model := r.sol.Check(nil, true)
	if res == "sat" {
		o.Status = "violated"
	} else if res == "unsat" {
		return // path infeasible after all
	} else {
		o.Status = "unknown"
	}
	r.snapshot(&o, model)
	r.obligs = append(r.obligs, o)
}

// frozenHit: a write reached memory the harness declared read-only
func (r *run) frozenHit(label string) {
	if r.frozenSeen == nil {
		r.frozenSeen = map[string]bool{}
	}
	if r.frozenSeen[label] {
		return
	}
	r.frozenSeen[label] = true
	r.violation("frozen", label, "a write reached memory that must not change (argument, kept result or another instance's state)")
}

func (r *run) cover(label string, c *Term) {
	if r.covers[label] {
		return
	}
	if r.eng.coveredGlobal(label) {
		return
	}
	if c.isFalse() {
		return
	}
	if c.isTrue() || r.feasible(c) {
		r.covers[label] = true
	}
}

// ---------------------------------------------------------------- engine

type engine struct {
	prog               *ssa.Program
	hpkg               *ssa.Package
	repoPrefix         string
	models             map[string]*ssa.Function
	modelRes           []modelRe
	modelReCache       sync.Map
	noInit             map[string]string
	runtimeErrorString types.Type
	errorStringPtr     types.Type
	thorough           bool
	maxSteps           int
	maxChoices         int
	maxAlloc           int
	maxLen             int
	maxPaths           int
	maxSeconds         int
	qlogDir            string
	seed               int64
	workers            int
	solverBin          string
	solverTimeout      int
	fset               *token.FileSet

	mu        sync.Mutex
	covered   map[string]bool
	allFuncs  map[*ssa.Function]bool
	allNotes  map[string]bool
	lazyInits map[string]bool
}

type modelRe struct {
	re *regexp.Regexp
	fn *ssa.Function
}

// modelFor resolves the harness model of a callee (exact name, then patterns).
func (e *engine) modelFor(name string) *ssa.Function {
	if m := e.models[name]; m != nil {
		return m
	}
	if len(e.modelRes) == 0 {
		return nil
	}
	if v, ok := e.modelReCache.Load(name); ok {
		f, _ := v.(*ssa.Function)
		return f
	}
	var found *ssa.Function
	for _, m := range e.modelRes {
		if m.re.MatchString(name) {
			found = m.fn
			break
		}
	}
	e.modelReCache.Store(name, found)
	return found
}

func (e *engine) isRepoPkg(p *ssa.Package) bool {
	return p != nil && p.Pkg != nil && strings.HasPrefix(p.Pkg.Path(), e.repoPrefix)
}

func (e *engine) pos(p token.Pos) string {
	if p == token.NoPos {
		return "?"
	}
	pp := e.fset.Position(p)
	return fmt.Sprintf("%s:%d", strings.TrimPrefix(pp.Filename, "/repo/"), pp.Line)
}

func (e *engine) coveredGlobal(label string) bool {
	e.mu.Lock()
	defer e.mu.Unlock()
	return e.covered[label]
}

type entryResult struct {
	Entry        string         `json:"entry"`
	Paths        int            `json:"paths"`
	SymPaths     int            `json:"symbolic_paths"`
	Obligations  int            `json:"obligations"`
	Proved       int            `json:"proved"`
	Violated     []obligRec     `json:"violated"`
	Unknown      []obligRec     `json:"unknown"`
	Inconclusive []string       `json:"inconclusive"`
	Covers       []string       `json:"covers"`
	Sat          int            `json:"sat"`
	Unsat        int            `json:"unsat"`
	UnknownQ     int            `json:"unknown_queries"`
	SolverS      float64        `json:"solver_s"`
	WallS        float64        `json:"wall_s"`
	Samples      []obligRec     `json:"samples"`
	ProvedLabels map[string]int `json:"proved_labels"`
	Truncated    bool           `json:"truncated"`
	Traces       []traceRec     `json:"traces,omitempty"`
	Emits        []string       `json:"emits,omitempty"`
	RaceQueries  int            `json:"race_queries,omitempty"`
}

// explore runs all paths of one entry function.
func (e *engine) explore(entry *ssa.Function, args []value, qlog func(int) *strings.Builder) *entryResult {
	res := &entryResult{Entry: entry.Name(), ProvedLabels: map[string]int{}}
	t0 := time.Now()
	var mu sync.Mutex
	work := [][]choice{nil}
	pending := 1
	cond := sync.NewCond(&mu)
	inconcl := map[string]int{}
	violKey := map[string]bool{}
	violSeen := map[string]int{}
	altViol := map[string][]obligRec{}
	rng := rand.New(rand.NewSource(e.seed + 1))
	traceSeen := map[string]bool{}

	worker := func(id int) {
		var qlog io.Writer
		if e.qlogDir != "" {
			if f, ferr := os.Create(fmt.Sprintf("%s/%s-w%d.smt2", e.qlogDir, entry.Name(), id)); ferr == nil {
				defer f.Close()
				bw := bufio.NewWriterSize(f, 1<<20)
				defer bw.Flush()
				qlog = bw
			}
		}
		sol, err := NewSolver(e.solverBin, e.solverTimeout, qlog)
		if err != nil {
			mu.Lock()
			inconcl["solver start: "+err.Error()]++
			pending = 0
			cond.Broadcast()
			mu.Unlock()
			return
		}
		defer sol.Close()
		for {
			mu.Lock()
			for len(work) == 0 && pending > 0 {
				cond.Wait()
			}
			if pending == 0 || len(work) == 0 {
				mu.Unlock()
				break
			}
			prefix := work[len(work)-1]
			work = work[:len(work)-1]
			mu.Unlock()

			r := e.runPath(sol, entry, args, prefix)

			mu.Lock()
			res.Paths++
			if r.symbolicPath {
				res.SymPaths++
			}
			if (e.maxPaths > 0 && res.Paths+len(work) > e.maxPaths) || (e.maxSeconds > 0 && time.Since(t0).Seconds() > float64(e.maxSeconds)) {
				res.Truncated = true
				// the budget is spent: what is still queued is dropped too
				// (reported as truncated), not drained at seconds per path
				pending -= len(work)
				work = nil
			} else {
				for _, a := range r.alts {
					work = append(work, a)
					pending++
				}
			}
			for _, o := range r.obligs {
				res.Obligations++
				switch o.Status {
				case "proved":
					res.Proved++
					res.ProvedLabels[o.Label]++
					if o.Detail != "concrete" && len(res.Samples) < 3 {
						res.Samples = append(res.Samples, o)
					}
				case "violated":
					fk, _ := json.Marshal(o.Facts)
					k := o.Kind + "|" + o.Label + "|" + o.Detail + "|" + string(fk)
					if !violKey[k] {
						violKey[k] = true
						res.Violated = append(res.Violated, o)
					} else {
						// further counterexamples of the same obligation: a
						// reservoir sample, so that the replay has alternatives
						violSeen[o.Label]++
						n := violSeen[o.Label]
						if len(altViol[o.Label]) < 12 {
							altViol[o.Label] = append(altViol[o.Label], o)
						} else if j := int(rng.Int63n(int64(n))); j < 12 {
							altViol[o.Label][j] = o
						}
					}
				default:
					if len(res.Unknown) < 20 {
						res.Unknown = append(res.Unknown, o)
					}
					inconcl["unknown obligation "+o.Label]++
				}
			}
			for l := range r.covers {
				e.mu.Lock()
				e.covered[l] = true
				e.mu.Unlock()
			}
			e.mu.Lock()
			for f := range r.funcs {
				e.allFuncs[f] = true
			}
			for n := range r.notes {
				e.allNotes[n] = true
			}
			for _, p := range r.lazyInits {
				e.lazyInits[p] = true
			}
			e.mu.Unlock()
			if len(r.emits) > 0 && len(res.Emits) == 0 {
				res.Emits = r.emits
			}
			for _, t := range r.traces {
				k := t.Op + "|" + strings.Join(t.Events, ";")
				if !traceSeen[k] {
					traceSeen[k] = true
					res.Traces = append(res.Traces, t)
				}
			}
			if r.unknownSeen {
				// sound: the branch was kept, and a violation needs a model of
				// the whole path condition; recorded, not a reason to distrust the run
				e.mu.Lock()
				e.allNotes["solver answered unknown on a feasibility query: the branch was kept (obligations on it are still decided with the full path condition)"] = true
				e.mu.Unlock()
			}
			for _, ev := range r.events {
				inconcl[ev]++
			}
			pending--
			cond.Broadcast()
			mu.Unlock()
		}
		mu.Lock()
		res.Sat += sol.nSat
		res.Unsat += sol.nUnsat
		res.UnknownQ += sol.nUnknown
		res.SolverS += sol.solveTime.Seconds()
		mu.Unlock()
	}
	var wg sync.WaitGroup
	for i := 0; i < e.workers; i++ {
		wg.Add(1)
		go func(id int) { defer wg.Done(); worker(id) }(i)
	}
	wg.Wait()
	if res.Truncated {
		inconcl[fmt.Sprintf("path budget %d / time budget %ds exceeded: exploration truncated", e.maxPaths, e.maxSeconds)]++
	}
	for k, n := range inconcl {
		res.Inconclusive = append(res.Inconclusive, fmt.Sprintf("%s (x%d)", k, n))
	}
	sort.Strings(res.Inconclusive)
	e.mu.Lock()
	for l := range e.covered {
		res.Covers = append(res.Covers, l)
	}
	e.mu.Unlock()
	sort.Strings(res.Covers)
	for _, l := range altViol {
		res.Violated = append(res.Violated, l...)
	}
	if len(res.Traces) > 0 {
		e.composeRaces(res)
	}
	res.WallS = time.Since(t0).Seconds()
	return res
}

func (r *run) stackString() string {
	var sb strings.Builder
	sb.WriteString(" [stack:")
	n := 0
	for i := len(r.stack) - 1; i >= 0 && n < 8; i-- {
		sb.WriteString(" " + r.stack[i].String())
		n++
	}
	sb.WriteString("]")
	return sb.String()
}

// runPath executes one path.
func (e *engine) runPath(sol *Solver, entry *ssa.Function, args []value, prefix []choice) (r *run) {
	r = &run{
		eng: e, sol: sol, entry: entry.Name(),
		prefix:     append([]choice{}, prefix...),
		globals:    map[*ssa.Global]*value{},
		initState:  map[*ssa.Package]int{},
		forceInit:  map[*ssa.Package]bool{},
		initFailed: map[*ssa.Package]string{},
		inModel:    map[string]bool{},
		covers:     map[string]bool{},
		notes:      map[string]bool{},
		funcs:      map[*ssa.Function]bool{},
		facts:      map[string]string{},
		maxLen:     e.maxLen,
		syncMaps:   map[*value]map[string]value{},
		jsonEncW:   map[*value]value{},
		symCopies:  map[*value]bool{},
		curves:     map[string]value{},
		onceDone:   map[*value]bool{},
		pools:      map[*value][]value{},
		frozen:     map[*value]string{},
		frozenMap:  map[*smap]string{},
		pooled:     map[*value]bool{},
		pooledMap:  map[*smap]bool{},
		names:      map[*value]string{},
		twins:      map[*Term]*Term{},
		watch:      map[*value]string{},
		watchMap:   map[*smap]string{},
		syncIDs:    map[*value]int{},
		held:       map[*value]int{},
	}
	sol.BeginRun()
	defer sol.EndRun()
	defer func() {
		if p := recover(); p != nil {
			switch p := p.(type) {
			case pathEnd:
			case engineError:
				r.events = append(r.events, "INCONCLUSIVE path: "+p.msg+r.stackString())
			case targetPanic:
				r.violation("crash", "no-crash", "uncaught panic: "+p.String())
			default:
				r.events = append(r.events, fmt.Sprintf("INCONCLUSIVE path: internal engine panic: %v", p))
			}
		}
	}()
	// initialise the harness package (and, transitively, the repo packages)
	if init := e.hpkg.Func("init"); init != nil {
		r.callSSA(nil, token.NoPos, init, nil, nil)
	}
	r.callSSA(nil, token.NoPos, entry, args, nil)
	r.flushGoroutines()
	return r
}
