package main

import (
	"fmt"
	"go/constant"
	"go/token"
	"go/types"
	"math"
	"unicode/utf8"

	"golang.org/x/tools/go/ssa"
)

func constValue(c *ssa.Const) value {
	if c.Value == nil {
		return zero(c.Type())
	}
	if t, ok := c.Type().Underlying().(*types.Basic); ok {
		switch {
		case t.Info()&types.IsBoolean != 0:
			return mkBool(constant.BoolVal(c.Value))
		case t.Info()&types.IsInteger != 0:
			w, signed, _ := intInfo(t)
			if signed {
				return mkBV(w, uint64(c.Int64()))
			}
			return mkBV(w, c.Uint64())
		case t.Info()&types.IsFloat != 0:
			return fval(c.Float64())
		case t.Info()&types.IsString != 0:
			if c.Value.Kind() == constant.String {
				return mkStr(constant.StringVal(c.Value))
			}
			return mkStr(string(rune(c.Int64())))
		}
	}
	panic(engineError{fmt.Sprintf("constValue: %s", c)})
}

// symptr is the address of x[idx] for a symbolic idx over scalar elements.
type symptr struct {
	base []value
	idx  *Term // 64-bit
}

func (r *run) loadFrom(addr value) value {
	switch p := addr.(type) {
	case *value:
		if p == nil {
			panic(runtimePanic("invalid memory address or nil pointer dereference"))
		}
		if r.tracing {
			if loc, ok := r.watch[p]; ok {
				r.traceEvent("rd:" + loc)
			}
		}
		if len(r.pooled) > 0 && r.pooled[p] {
			r.pooledHit()
		}
		return copyVal(*p)
	case *symptr:
		var res *Term
		for i := len(p.base) - 1; i >= 0; i-- {
			e := p.base[i].(*Term)
			if res == nil {
				res = e
			} else {
				res = mkIte(mkEq(p.idx, mkBV(64, uint64(i))), e, res)
			}
		}
		return res
	}
	panic(engineError{fmt.Sprintf("load from %T", addr)})
}

func (r *run) storeTo(addr value, v value) {
	switch p := addr.(type) {
	case *value:
		if p == nil {
			panic(runtimePanic("invalid memory address or nil pointer dereference"))
		}
		if r.tracing {
			if loc, ok := r.watch[p]; ok {
				r.traceEvent("wr:" + loc)
			}
		}
		if label, ok := r.frozen[p]; ok {
			r.frozenHit(label)
		}
		if len(r.symCopies) > 0 && r.symCopies[p] {
			panic(engineError{"store through the address of a composite element selected by a symbolic index"})
		}
		if len(r.pooled) > 0 && r.pooled[p] {
			r.pooledHit()
		}
		if loc, ok := r.watch[p]; ok {
			// a map stored into a watched location is watched under its name
			if m, isMap := v.(*smap); isMap && m != nil {
				if _, named := r.watchMap[m]; !named {
					r.watchMap[m] = loc
				}
			}
		}
		store(p, v)
		return
	case *symptr:
		nv := v.(*Term)
		for i := range p.base {
			e := p.base[i].(*Term)
			p.base[i] = mkIte(mkEq(p.idx, mkBV(64, uint64(i))), nv, e)
		}
		return
	}
	panic(engineError{fmt.Sprintf("store to %T", addr)})
}

func (r *run) unop(instr *ssa.UnOp, x value) value {
	switch instr.Op {
	case token.MUL:
		return r.loadFrom(x)
	case token.SUB:
		switch x := x.(type) {
		case *Term:
			return bvNeg(x)
		case fval:
			return -x
		case *fsym:
			return fNeg(x)
		}
	case token.NOT:
		return mkNot(x.(*Term))
	case token.XOR:
		return bvNot(x.(*Term))
	case token.ARROW:
		ch, ok := x.(*schan)
		if !ok || ch == nil {
			panic(engineError{"channel receive on a channel the engine does not model"})
		}
		v, got := r.chanRecv(ch, instr.X.Type().Underlying().(*types.Chan).Elem())
		if instr.CommaOk {
			return tuple{v, mkBool(got)}
		}
		return v
	}
	panic(engineError{fmt.Sprintf("invalid unary op %s %T", instr.Op, x)})
}

// idx64 widens an index/length term to 64 bits by its static signedness.
func idx64(t *Term, typ types.Type) (*Term, bool) {
	_, signed, ok := intInfo(typ)
	if !ok {
		signed = true
	}
	return bvResize(t, 64, signed), signed
}

// inRange: lo <= i < hi (signed 64-bit, or unsigned when the index type is an
// unsigned 64-bit type, where values >= 2^63 are out of range anyway).
func inRange(i *Term, signed bool, lo, hi int) *Term {
	if signed {
		return mkAnd(bvCmp("bvsge", i, mkBV(64, uint64(lo))), bvCmp("bvslt", i, mkBV(64, uint64(hi))))
	}
	return mkAnd(bvCmp("bvuge", i, mkBV(64, uint64(lo))), bvCmp("bvult", i, mkBV(64, uint64(hi))))
}

func allScalar(xs []value) bool {
	for _, x := range xs {
		if _, ok := x.(*Term); !ok {
			return false
		}
	}
	return true
}

// checkIndex makes the bounds check an explicit branch and returns the
// (possibly still symbolic) 64-bit index.
func (r *run) checkIndex(idx *Term, typ types.Type, n int) *Term {
	i, signed := idx64(idx, typ)
	if !r.branch(inRange(i, signed, 0, n)) {
		panic(runtimePanic(fmt.Sprintf("index out of range [%s] with length %d", toString(i), n)))
	}
	return i
}

func (r *run) indexAddr(x value, idx *Term, typ types.Type) value {
	var base []value
	switch x := x.(type) {
	case []value:
		base = x
	case *value:
		if x == nil {
			panic(runtimePanic("invalid memory address or nil pointer dereference"))
		}
		base = (*x).(array)
	default:
		panic(engineError{fmt.Sprintf("unexpected x type in IndexAddr: %T", x)})
	}
	i := r.checkIndex(idx, typ, len(base))
	if i.IsConst() {
		return &base[i.Val]
	}
	if allScalar(base) {
		return &symptr{base: base, idx: i}
	}
	if v, ok := symSelect(base, i); ok {
		// a table of small composites read at a symbolic index: the element is
		// materialised as a read-only copy whose components are selections
		// over the whole table (a store through this address is not modelled)
		cell := v
		p := &cell
		r.symCopies[p] = true
		switch c := cell.(type) {
		case array:
			for j := range c {
				r.symCopies[&c[j]] = true
			}
		case structure:
			for j := range c {
				r.symCopies[&c[j]] = true
			}
		}
		return p
	}
	k := r.concretize(i, 0, len(base))
	return &base[k]
}

// symSelect: base[i] for a symbolic i when every element is an array (or a
// struct) of scalars of one shape: component-wise if-then-else chains.
func symSelect(base []value, i *Term) (value, bool) {
	if len(base) == 0 || len(base) > 1024 {
		return nil, false
	}
	comps := func(v value) ([]value, int) {
		switch c := v.(type) {
		case array:
			return c, 1
		case structure:
			return c, 2
		}
		return nil, 0
	}
	first, kind := comps(base[0])
	if kind == 0 || len(first) == 0 || len(first) > 16 {
		return nil, false
	}
	for _, e := range base {
		c, k := comps(e)
		if k != kind || len(c) != len(first) || !allScalar(c) {
			return nil, false
		}
	}
	out := make([]value, len(first))
	for j := range first {
		// a balanced decision tree over the index (depth log n) rather than a
		// chain of n equalities: the index is known to be in range here
		var sel func(lo, hi int) *Term
		sel = func(lo, hi int) *Term {
			if hi-lo == 1 {
				c, _ := comps(base[lo])
				return c[j].(*Term)
			}
			mid := (lo + hi) / 2
			return mkIte(bvCmp("bvult", i, mkBV(64, uint64(mid))), sel(lo, mid), sel(mid, hi))
		}
		out[j] = sel(0, len(base))
	}
	if kind == 1 {
		return array(out), true
	}
	return structure(out), true
}

func (r *run) index(x value, idx *Term, typ types.Type) value {
	switch x := x.(type) {
	case array:
		i := r.checkIndex(idx, typ, len(x))
		if i.IsConst() {
			return copyVal(x[i.Val])
		}
		if allScalar(x) {
			return r.loadFrom(&symptr{base: x, idx: i})
		}
		if v, ok := symSelect(x, i); ok {
			return v
		}
		return copyVal(x[r.concretize(i, 0, len(x))])
	case sval:
		i := r.checkIndex(idx, typ, x.Len())
		if i.IsConst() {
			return x.at(int(i.Val))
		}
		var res *Term
		for k := x.Len() - 1; k >= 0; k-- {
			if res == nil {
				res = x.at(k)
			} else {
				res = mkIte(mkEq(i, mkBV(64, uint64(k))), x.at(k), res)
			}
		}
		return res
	}
	panic(engineError{fmt.Sprintf("unexpected x type in Index: %T", x)})
}

func (r *run) lookup(instr *ssa.Lookup, x, idx value) value {
	switch x := x.(type) {
	case *smap:
		var v value
		ok := false
		if x != nil {
			v, ok = x.lookup(r, idx)
		}
		if !ok {
			v = zero(instr.X.Type().Underlying().(*types.Map).Elem())
		}
		if instr.CommaOk {
			return tuple{copyVal(v), mkBool(ok)}
		}
		return copyVal(v)
	case sval:
		return r.index(x, idx.(*Term), instr.Index.Type())
	}
	panic(engineError{fmt.Sprintf("unexpected %T in Lookup", x)})
}

// sliceBound turns an optional bound into a concrete int, forking on values.
func (r *run) sliceBound(v value, def int, max int) int {
	if v == nil {
		return def
	}
	t := v.(*Term)
	i := bvResize(t, 64, true)
	if i.IsConst() {
		return int(int64(i.Val))
	}
	// explicit range branch, then concretise
	if !r.branch(inRange(i, true, 0, max+1)) {
		panic(runtimePanic("slice bounds out of range [symbolic]"))
	}
	return r.concretize(i, 0, max+1)
}

func (r *run) slice(instr *ssa.Slice, x, lo, hi, max value) value {
	var n, c int
	switch x := x.(type) {
	case sval:
		n = x.Len()
		c = n
	case []value:
		n = len(x)
		c = cap(x)
	case *value:
		if x == nil {
			panic(runtimePanic("invalid memory address or nil pointer dereference"))
		}
		n = len((*x).(array))
		c = n
	default:
		panic(engineError{fmt.Sprintf("slice: unexpected X type: %T", x)})
	}
	l := r.sliceBound(lo, 0, c)
	h := r.sliceBound(hi, n, c)
	m := r.sliceBound(max, c, c)
	if _, isStr := x.(sval); isStr {
		if l < 0 || h < l || h > n {
			panic(runtimePanic(fmt.Sprintf("slice bounds out of range [%d:%d] with length %d", l, h, n)))
		}
		return x.(sval).sub(l, h)
	}
	if l < 0 || h < l || m < h || m > c {
		panic(runtimePanic(fmt.Sprintf("slice bounds out of range [%d:%d:%d] with capacity %d", l, h, m, c)))
	}
	switch x := x.(type) {
	case []value:
		if x == nil && l == 0 && h == 0 {
			return []value(nil)
		}
		return x[l:h:m]
	case *value:
		return []value((*x).(array))[l:h:m]
	}
	panic("unreachable")
}

// allocLen resolves a make() length: obligation "not above the allocation
// limit", then restriction to the harness bound, then concretisation.
func (r *run) allocLen(t *Term, typ types.Type, at ssa.Instruction) int {
	i, signed := idx64(t, typ)
	if i.IsConst() {
		n := int64(i.Val)
		if n < 0 || (!signed && i.Val > math.MaxInt64) {
			panic(runtimePanic("makeslice: len out of range"))
		}
		if r.eng.maxAlloc > 0 && n > int64(r.eng.maxAlloc) && r.allocWatch {
			r.violation("alloc", "alloc-limit", fmt.Sprintf("allocation of %d elements at %s", n, r.eng.pos(at.Pos())))
		}
		if n > 1<<25 {
			panic(engineError{fmt.Sprintf("concrete allocation of %d elements", n)})
		}
		return int(n)
	}
	if signed && !r.branch(bvCmp("bvsge", i, mkBV(64, 0))) {
		panic(runtimePanic("makeslice: len out of range"))
	}
	if r.allocWatch {
		lim := mkBV(64, uint64(r.eng.maxAlloc))
		r.obligation("alloc", "alloc-limit@"+r.eng.pos(at.Pos()), bvCmp("bvule", i, lim))
	}
	// restrict to the harness bound (stated in the evidence)
	bound := r.maxLen
	r.assume(bvCmp("bvule", i, mkBV(64, uint64(bound))))
	r.note("symbolic allocation length restricted to <= %d", bound)
	return r.concretize(i, 0, bound+1)
}

func sliceToArrayPointer(tDst types.Type, x value) value {
	n := deref(tDst).Underlying().(*types.Array).Len()
	v := x.([]value)
	if int64(len(v)) < n {
		panic(runtimePanic(fmt.Sprintf("cannot convert slice with length %d to array or pointer to array with length %d", len(v), n)))
	}
	if v == nil {
		return (*value)(nil)
	}
	// NB: the array aliases the slice's backing store only for reads through
	// copy; a full alias would need a shared cell vector.
	var a value = array(v[:n:n])
	return &a
}

// ---------------------------------------------------------------- binop

func (r *run) binop(op token.Token, t types.Type, x, y value) value {
	switch xx := x.(type) {
	case *Term:
		if xx.S.K == sBool {
			yy := y.(*Term)
			switch op {
			case token.EQL:
				return mkEq(xx, yy)
			case token.NEQ:
				return mkNot(mkEq(xx, yy))
			case token.AND, token.LAND:
				return mkAnd(xx, yy)
			case token.OR, token.LOR:
				return mkOr(xx, yy)
			}
			panic(engineError{"bool binop " + op.String()})
		}
		return r.intBinop(op, t, xx, y.(*Term))
	case fval, *fsym:
		return fBinop(r, op, x, y)
	case sval:
		yy := y.(sval)
		switch op {
		case token.ADD:
			return strConcat(xx, yy)
		case token.EQL:
			return strEq(xx, yy)
		case token.NEQ:
			return mkNot(strEq(xx, yy))
		case token.LSS:
			return strLess(xx, yy)
		case token.GTR:
			return strLess(yy, xx)
		case token.LEQ:
			return mkNot(strLess(yy, xx))
		case token.GEQ:
			return mkNot(strLess(xx, yy))
		}
		panic(engineError{"string binop " + op.String()})
	}
	switch op {
	case token.EQL:
		return r.eqGeneral(t, x, y)
	case token.NEQ:
		return mkNot(r.eqGeneral(t, x, y))
	}
	panic(engineError{fmt.Sprintf("invalid binary op: %T %s %T", x, op, y)})
}

func (r *run) eqGeneral(t types.Type, x, y value) *Term {
	switch t.Underlying().(type) {
	case *types.Slice, *types.Map, *types.Signature:
		// only comparison with nil is legal
		return mkBool(isNilValue(x) && isNilValue(y))
	}
	if _, ok := x.(*symptr); ok {
		panic(engineError{"comparison of symbolic element address"})
	}
	return equalsT(t, x, y)
}

func (r *run) intBinop(op token.Token, t types.Type, x, y *Term) value {
	_, signed, _ := intInfo(t)
	switch op {
	case token.ADD:
		return bvBin("bvadd", x, y)
	case token.SUB:
		return bvBin("bvsub", x, y)
	case token.MUL:
		return bvBin("bvmul", x, y)
	case token.QUO, token.REM:
		if !r.branch(mkNot(mkEq(y, mkBV(y.S.W, 0)))) {
			panic(runtimePanic("integer divide by zero"))
		}
		if op == token.QUO {
			if signed {
				return bvBin("bvsdiv", x, y)
			}
			return bvBin("bvudiv", x, y)
		}
		if signed {
			return bvBin("bvsrem", x, y)
		}
		return bvBin("bvurem", x, y)
	case token.AND:
		return bvBin("bvand", x, y)
	case token.OR:
		return bvBin("bvor", x, y)
	case token.XOR:
		return bvBin("bvxor", x, y)
	case token.AND_NOT:
		return bvBin("bvand", x, bvNot(y))
	case token.SHL, token.SHR:
		// y has its own (possibly different, possibly signed) type; the SSA
		// builder guarantees a non-negative check for signed counts via a
		// preceding panic branch in newer versions; we check here too.
		w := x.S.W
		cnt := y
		if cnt.S.W != w {
			// saturate: counts >= w give 0 / sign fill — compare in the wider domain
			if cnt.S.W > w {
				big := bvCmp("bvuge", cnt, mkBV(cnt.S.W, uint64(w)))
				cntN := bvResize(cnt, w, false)
				res := r.shift(op, signed, x, cntN)
				over := r.shiftOver(op, signed, x)
				return mkIte(big, over, res)
			}
			cnt = bvResize(cnt, w, false)
		}
		return r.shift(op, signed, x, cnt)
	case token.EQL:
		return mkEq(x, y)
	case token.NEQ:
		return mkNot(mkEq(x, y))
	case token.LSS:
		if signed {
			return bvCmp("bvslt", x, y)
		}
		return bvCmp("bvult", x, y)
	case token.LEQ:
		if signed {
			return bvCmp("bvsle", x, y)
		}
		return bvCmp("bvule", x, y)
	case token.GTR:
		if signed {
			return bvCmp("bvsgt", x, y)
		}
		return bvCmp("bvugt", x, y)
	case token.GEQ:
		if signed {
			return bvCmp("bvsge", x, y)
		}
		return bvCmp("bvuge", x, y)
	}
	panic(engineError{"int binop " + op.String()})
}

func (r *run) shift(op token.Token, signed bool, x, cnt *Term) *Term {
	// SMT-LIB shifts already give 0 / sign fill for counts >= width
	switch {
	case op == token.SHL:
		return bvBin("bvshl", x, cnt)
	case signed:
		return bvBin("bvashr", x, cnt)
	}
	return bvBin("bvlshr", x, cnt)
}

func (r *run) shiftOver(op token.Token, signed bool, x *Term) *Term {
	if op == token.SHR && signed {
		return bvBin("bvashr", x, mkBV(x.S.W, uint64(x.S.W-1)))
	}
	return mkBV(x.S.W, 0)
}

// ---------------------------------------------------------------- conv

func (r *run) conv(tDst, tSrc types.Type, x value) value {
	ut_src := tSrc.Underlying()
	ut_dst := tDst.Underlying()

	switch ut_dst.(type) {
	case *types.Signature, *types.Pointer:
		return x
	}
	if b, ok := ut_dst.(*types.Basic); ok && b.Kind() == types.UnsafePointer {
		return x
	}

	switch src := ut_src.(type) {
	case *types.Pointer:
		return x
	case *types.Slice:
		// []byte or []rune -> string
		switch src.Elem().Underlying().(*types.Basic).Kind() {
		case types.Byte:
			xs := x.([]value)
			b := make([]*Term, len(xs))
			for i, e := range xs {
				b[i] = e.(*Term)
			}
			return mkStrBytes(b)
		case types.Rune:
			xs := x.([]value)
			rs := make([]rune, len(xs))
			for i, e := range xs {
				t := e.(*Term)
				if !t.IsConst() {
					panic(engineError{"[]rune->string with symbolic rune"})
				}
				rs[i] = rune(t.sval())
			}
			return mkStr(string(rs))
		}
	case *types.Basic:
		if src.Info()&types.IsString != 0 {
			xs := x.(sval)
			if ds, ok := ut_dst.(*types.Slice); ok {
				switch ds.Elem().Underlying().(*types.Basic).Kind() {
				case types.Byte:
					bs := xs.bytes()
					res := make([]value, len(bs))
					for i, b := range bs {
						res[i] = b
					}
					return res
				case types.Rune:
					s, ok := xs.concrete()
					if !ok {
						panic(engineError{"string->[]rune with symbolic bytes"})
					}
					// capacity = length (the runtime may round the capacity up to a
					// size class; slicing beyond the length is treated as out of range)
					res := make([]value, 0, utf8.RuneCountInString(s))
					for _, c := range s {
						res = append(res, mkBV(32, uint64(c)))
					}
					return res
				}
			}
			if isString(ut_dst) {
				return x
			}
			panic(engineError{"string conversion to " + tDst.String()})
		}
		if src.Info()&types.IsInteger != 0 {
			xt := x.(*Term)
			_, ssigned, _ := intInfo(src)
			if dw, _, ok := intInfo(ut_dst); ok {
				return bvResize(xt, dw, ssigned)
			}
			if isString(ut_dst) {
				if !xt.IsConst() {
					panic(engineError{"int->string with symbolic value"})
				}
				return mkStr(string(rune(xt.sval())))
			}
			if isFloat(ut_dst) {
				return intToFloat(r, xt, ssigned)
			}
		}
		if src.Info()&types.IsFloat != 0 {
			if dw, dsigned, ok := intInfo(ut_dst); ok {
				return floatToInt(r, x, dw, dsigned)
			}
			if isFloat(ut_dst) {
				if db := ut_dst.(*types.Basic); db.Kind() == types.Float32 {
					if f, ok := x.(fval); ok {
						return fval(float32(f))
					}
				}
				return x
			}
		}
		if src.Info()&types.IsBoolean != 0 && isBoolean(ut_dst) {
			return x
		}
	}
	panic(engineError{fmt.Sprintf("unsupported conversion: %s -> %s", tSrc, tDst)})
}

// ---------------------------------------------------------------- type assert

func (r *run) typeAssert(instr *ssa.TypeAssert, itf iface) value {
	var v value
	err := ""
	if itf.t == nil {
		err = fmt.Sprintf("interface conversion: interface is nil, not %s", instr.AssertedType)
	} else if idst, ok := instr.AssertedType.Underlying().(*types.Interface); ok {
		v = itf
		if meth, _ := types.MissingMethod(itf.t, idst, true); meth != nil {
			err = fmt.Sprintf("interface conversion: %v is not %v: missing method %s", itf.t, idst, meth.Name())
		}
	} else if types.Identical(itf.t, instr.AssertedType) {
		v = itf.v
	} else {
		err = fmt.Sprintf("interface conversion: interface is %s, not %s", itf.t, instr.AssertedType)
	}
	if err != "" {
		if !instr.CommaOk {
			panic(runtimePanic(err))
		}
		return tuple{zero(instr.AssertedType), tFalse}
	}
	if instr.CommaOk {
		return tuple{v, tTrue}
	}
	return v
}

// ---------------------------------------------------------------- builtins

func (r *run) callBuiltin(caller *frame, callpos token.Pos, fn *ssa.Builtin, args []value) value {
	switch fn.Name() {
	case "append":
		if len(args) == 1 {
			return args[0]
		}
		var add []value
		switch y := args[1].(type) {
		case sval:
			for _, b := range y.bytes() {
				add = append(add, b)
			}
		case []value:
			add = y
		default:
			panic(engineError{fmt.Sprintf("append: %T", y)})
		}
		x := args[0].([]value)
		if len(add) == 0 {
			return x
		}
		if len(r.frozen) > 0 && cap(x) >= len(x)+len(add) {
			// appending in place writes the cells behind the slice
			full := x[:len(x)+len(add)]
			for i := len(x); i < len(full); i++ {
				if label, ok := r.frozen[&full[i]]; ok {
					r.frozenHit(label)
					break
				}
			}
		}
		cp := make([]value, len(add))
		for i, e := range add {
			cp[i] = copyVal(e)
		}
		return append(x, cp...)

	case "copy":
		dst := args[0].([]value)
		var src []value
		switch y := args[1].(type) {
		case sval:
			for _, b := range y.bytes() {
				src = append(src, b)
			}
		case []value:
			src = y
		}
		n := len(src)
		if len(dst) < n {
			n = len(dst)
		}
		tmp := make([]value, n)
		for i := 0; i < n; i++ {
			tmp[i] = copyVal(src[i])
		}
		for i := 0; i < n; i++ {
			if label, ok := r.frozen[&dst[i]]; ok {
				r.frozenHit(label)
			}
			store(&dst[i], tmp[i])
		}
		return mkBV(64, uint64(n))

	case "close":
		if ch, ok := args[0].(*schan); ok && ch != nil {
			ch.closed = true
			return nil
		}
		panic(engineError{"close(chan) on a channel the engine does not model"})

	case "delete":
		m := args[0].(*smap)
		if m != nil {
			m.delete(r, args[1])
		}
		return nil

	case "clear":
		switch x := args[0].(type) {
		case *smap:
			if x != nil {
				x.clear()
			}
		case []value:
			for i := range x {
				if label, ok := r.frozen[&x[i]]; ok {
					r.frozenHit(label)
				}
				x[i] = zeroLike(x[i])
			}
		}
		return nil

	case "print", "println":
		return nil

	case "len":
		switch x := args[0].(type) {
		case sval:
			return mkBV(64, uint64(x.Len()))
		case array:
			return mkBV(64, uint64(len(x)))
		case *value:
			if x == nil {
				return mkBV(64, uint64(deref(fn.Type().(*types.Signature).Params().At(0).Type()).Underlying().(*types.Array).Len()))
			}
			return mkBV(64, uint64(len((*x).(array))))
		case []value:
			return mkBV(64, uint64(len(x)))
		case *smap:
			if x == nil {
				return mkBV(64, 0)
			}
			x.resolveAll(r)
			return mkBV(64, uint64(x.len()))
		case *opaque:
			return mkBV(64, 0)
		default:
			panic(engineError{fmt.Sprintf("len: illegal operand: %T", x)})
		}

	case "cap":
		switch x := args[0].(type) {
		case array:
			return mkBV(64, uint64(cap(x)))
		case *value:
			return mkBV(64, uint64(cap((*x).(array))))
		case []value:
			return mkBV(64, uint64(cap(x)))
		default:
			panic(engineError{fmt.Sprintf("cap: illegal operand: %T", x)})
		}

	case "min", "max":
		res := args[0]
		for _, a := range args[1:] {
			res = r.minmax(fn, fn.Name() == "min", res, a)
		}
		return res

	case "panic":
		panic(targetPanic{v: args[0]})

	case "recover":
		return r.doRecover(caller)

	case "ssa:wrapnilchk":
		recv := args[0]
		if p, ok := recv.(*value); ok && p == nil {
			recvType := toString(args[1])
			methodName := toString(args[2])
			panic(runtimePanic(fmt.Sprintf("value method %s.%s called using nil pointer", recvType, methodName)))
		}
		return recv
	}
	panic(engineError{"unknown built-in: " + fn.Name()})
}

func zeroLike(v value) value {
	switch v := v.(type) {
	case *Term:
		if v.S.K == sBool {
			return tFalse
		}
		return mkBV(v.S.W, 0)
	case sval:
		return sval{}
	case fval:
		return fval(0)
	case *value:
		return (*value)(nil)
	case iface:
		return iface{}
	}
	panic(engineError{fmt.Sprintf("zeroLike %T", v)})
}

func (r *run) minmax(fn *ssa.Builtin, isMin bool, x, y value) value {
	t := fn.Type().(*types.Signature).Params().At(0).Type()
	less := r.binop(token.LSS, t, x, y).(*Term)
	xt, ok1 := x.(*Term)
	yt, ok2 := y.(*Term)
	if ok1 && ok2 {
		if isMin {
			return mkIte(less, xt, yt)
		}
		return mkIte(less, yt, xt)
	}
	if r.branch(less) == isMin {
		return x
	}
	return y
}

// ---------------------------------------------------------------- iterators

type iter interface {
	next(r *run) tuple
}

type stringIter struct {
	s sval
	i int
}

func (it *stringIter) next(r *run) tuple {
	if it.i >= it.s.Len() {
		return tuple{tFalse, mkBV(64, 0), mkBV(32, 0)}
	}
	b := it.s.at(it.i)
	pos := it.i
	if !b.IsConst() {
		// symbolic byte: stated ASCII assumption
		r.assume(bvCmp("bvult", b, mkBV(8, 0x80)))
		r.note("string range over symbolic bytes assumes ASCII")
		it.i++
		return tuple{tTrue, mkBV(64, uint64(pos)), bvResize(b, 32, false)}
	}
	if b.Val < utf8.RuneSelf {
		it.i++
		return tuple{tTrue, mkBV(64, uint64(pos)), mkBV(32, b.Val)}
	}
	// multi-byte: needs concrete continuation bytes
	var buf []byte
	for k := it.i; k < it.s.Len() && k < it.i+4; k++ {
		t := it.s.at(k)
		if !t.IsConst() {
			break
		}
		buf = append(buf, byte(t.Val))
	}
	ch, n := utf8.DecodeRune(buf)
	it.i += n
	return tuple{tTrue, mkBV(64, uint64(pos)), mkBV(32, uint64(ch))}
}

type intIter struct {
	n, i int64
	w    int
}

func (it *intIter) next(r *run) tuple {
	if it.i >= it.n {
		return tuple{tFalse, mkBV(it.w, 0), nil}
	}
	v := it.i
	it.i++
	return tuple{tTrue, mkBV(it.w, uint64(v)), nil}
}

func (r *run) rangeIter(x value, t types.Type) iter {
	switch x := x.(type) {
	case *smap:
		return newMapIter(r, x)
	case sval:
		return &stringIter{s: x}
	}
	panic(engineError{fmt.Sprintf("cannot range over %T", x)})
}
