package main

// Pairwise schedule composition (DESIGN appendix C): the per-operation event
// traces extracted by symbolic execution are composed two at a time into an
// integer-clock query whose model is an interleaving in which two conflicting
// accesses are adjacent, i.e. unordered by any synchronisation.

import (
	"fmt"
	"sort"
	"strings"
)

type tev struct {
	kind string // acqW acqR relW relR rd wr
	obj  string
}

func parseTrace(evs []string) []tev {
	var out []tev
	for _, e := range evs {
		i := strings.Index(e, ":")
		if i < 0 {
			continue
		}
		out = append(out, tev{e[:i], e[i+1:]})
	}
	return out
}

type critSec struct {
	mutex      string
	write      bool
	start, end int
}

func sections(t []tev) []critSec {
	var out []critSec
	open := map[string]int{}
	mode := map[string]bool{}
	for i, e := range t {
		switch e.kind {
		case "acqW", "acqR":
			open[e.obj] = i
			mode[e.obj] = e.kind == "acqW"
		case "relW", "relR":
			if s, ok := open[e.obj]; ok {
				out = append(out, critSec{e.obj, mode[e.obj], s, i})
				delete(open, e.obj)
			}
		}
	}
	return out
}

func (e *engine) composeRaces(res *entryResult) {
	sol, err := NewSolver(e.solverBin, e.solverTimeout, nil)
	if err != nil {
		res.Inconclusive = append(res.Inconclusive, "race composition: solver start failed: "+err.Error())
		return
	}
	defer sol.Close()
	traces := res.Traces
	sort.Slice(traces, func(i, j int) bool {
		if traces[i].Op != traces[j].Op {
			return traces[i].Op < traces[j].Op
		}
		return strings.Join(traces[i].Events, ";") < strings.Join(traces[j].Events, ";")
	})
	reported := map[string]bool{}
	label := "C11.no-unsynchronised-conflicting-access"
	for _, t := range traces {
		if t.Label != "" {
			label = t.Label
		}
	}
	for i := 0; i < len(traces); i++ {
		for j := i; j < len(traces); j++ {
			p, q := parseTrace(traces[i].Events), parseTrace(traces[j].Events)
			// conflicting access pairs
			type pair struct{ a, b int }
			var conf []pair
			for a, ea := range p {
				if ea.kind != "rd" && ea.kind != "wr" {
					continue
				}
				for b, eb := range q {
					if (eb.kind == "rd" || eb.kind == "wr") && ea.obj == eb.obj && (ea.kind == "wr" || eb.kind == "wr") {
						conf = append(conf, pair{a, b})
					}
				}
			}
			if len(conf) == 0 {
				continue
			}
			var sb strings.Builder
			sb.WriteString("(push)\n")
			var all []string
			for a := range p {
				fmt.Fprintf(&sb, "(declare-fun p%d () Int)\n", a)
				all = append(all, fmt.Sprintf("p%d", a))
				if a > 0 {
					fmt.Fprintf(&sb, "(assert (< p%d p%d))\n", a-1, a)
				}
			}
			for b := range q {
				fmt.Fprintf(&sb, "(declare-fun q%d () Int)\n", b)
				all = append(all, fmt.Sprintf("q%d", b))
				if b > 0 {
					fmt.Fprintf(&sb, "(assert (< q%d q%d))\n", b-1, b)
				}
			}
			fmt.Fprintf(&sb, "(assert (distinct %s))\n", strings.Join(all, " "))
			for _, sp := range sections(p) {
				for _, sq := range sections(q) {
					if sp.mutex == sq.mutex && (sp.write || sq.write) {
						fmt.Fprintf(&sb, "(assert (or (< p%d q%d) (< q%d p%d)))\n", sp.end, sq.start, sq.end, sp.start)
					}
				}
			}
			sb.WriteString("(assert (or")
			for _, c := range conf {
				fmt.Fprintf(&sb, " (= q%d (+ p%d 1)) (= p%d (+ q%d 1))", c.b, c.a, c.a, c.b)
			}
			sb.WriteString("))\n(check-sat)\n")
			sol.send(sb.String())
			sol.in.Flush()
			ans := sol.readAnswer()
			res.RaceQueries++
			switch ans {
			case "sat":
				res.Sat++
			case "unsat":
				res.Unsat++
			default:
				res.UnknownQ++
				res.Inconclusive = append(res.Inconclusive, "race composition: solver unknown for "+traces[i].Op+"||"+traces[j].Op)
			}
			if ans == "sat" {
				// which pair is adjacent in the model?
				sol.send("(get-value (" + strings.Join(all, " ") + "))")
				sol.in.Flush()
				m := map[string]string{}
				parseValues(sol.readSexp(), m)
				val := func(n string) int {
					var x int
					s := strings.TrimSpace(m[n])
					s = strings.Trim(strings.ReplaceAll(strings.ReplaceAll(s, "(- ", "-"), ")", ""), " ")
					fmt.Sscanf(s, "%d", &x)
					return x
				}
				loc, ka, kb := "", "", ""
				for _, c := range conf {
					d := val(fmt.Sprintf("p%d", c.a)) - val(fmt.Sprintf("q%d", c.b))
					if d == 1 || d == -1 {
						loc, ka, kb = p[c.a].obj, p[c.a].kind, q[c.b].kind
						break
					}
				}
				key := traces[i].Op + "||" + traces[j].Op + "@" + loc
				if !reported[key] {
					reported[key] = true
					// the interleaving
					type sched struct {
						c int
						s string
					}
					var sc []sched
					for a, ev := range p {
						sc = append(sc, sched{val(fmt.Sprintf("p%d", a)), "T1:" + ev.kind + ":" + ev.obj})
					}
					for b, ev := range q {
						sc = append(sc, sched{val(fmt.Sprintf("q%d", b)), "T2:" + ev.kind + ":" + ev.obj})
					}
					sort.Slice(sc, func(x, y int) bool { return sc[x].c < sc[y].c })
					var order []string
					for _, x := range sc {
						order = append(order, x.s)
					}
					res.Obligations++
					res.Violated = append(res.Violated, obligRec{Kind: "race", Label: label, Status: "violated",
						Entry: res.Entry, Detail: fmt.Sprintf("%s (%s) || %s (%s) on %s", traces[i].Op, ka, traces[j].Op, kb, loc),
						Facts: map[string]string{"opA": traces[i].Op, "opB": traces[j].Op, "location": loc, "schedule": strings.Join(order, " ")}})
				}
			} else if ans == "unsat" {
				res.Obligations++
				res.Proved++
				res.ProvedLabels[label]++
			}
			sol.send("(pop)")
		}
	}
}
