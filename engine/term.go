package main

// SMT terms: booleans, fixed-width bit-vectors and (for the one float kernel)
// reals.  Constructors fold constants so that the solver only ever sees
// genuinely symbolic sub-terms.

import (
	"fmt"
	"math/big"
	"strings"
	"sync/atomic"
)

type sortKind uint8

const (
	sBool sortKind = iota
	sBV
	sReal
)

type Sort struct {
	K sortKind
	W int
}

func (s Sort) String() string {
	switch s.K {
	case sBool:
		return "Bool"
	case sBV:
		return fmt.Sprintf("(_ BitVec %d)", s.W)
	}
	return "Real"
}

var boolSort = Sort{K: sBool}
var realSort = Sort{K: sReal}

func bvSort(w int) Sort { return Sort{K: sBV, W: w} }

type Term struct {
	Op   string // "const", "var", or an SMT-LIB operator
	S    Sort
	Val  uint64   // const: value (masked to width) / bool 0,1
	R    *big.Rat // real constant
	Name string   // var
	Args []*Term
	Ext  [2]int // extract hi lo / extension amount in Ext[0]
	id   int64
}

var termIDs int64

func newTerm(op string, s Sort, args ...*Term) *Term {
	return &Term{Op: op, S: s, Args: args, id: atomic.AddInt64(&termIDs, 1)}
}

func nextID() int64 { return atomic.AddInt64(&termIDs, 1) }

func mask(w int) uint64 {
	if w >= 64 {
		return ^uint64(0)
	}
	return (uint64(1) << uint(w)) - 1
}

func (t *Term) IsConst() bool { return t.Op == "const" }

var tTrue = &Term{Op: "const", S: boolSort, Val: 1}
var tFalse = &Term{Op: "const", S: boolSort, Val: 0}

func mkBool(b bool) *Term {
	if b {
		return tTrue
	}
	return tFalse
}

func mkBV(w int, v uint64) *Term {
	return &Term{Op: "const", S: bvSort(w), Val: v & mask(w)}
}

func mkVar(name string, s Sort) *Term {
	t := newTerm("var", s)
	t.Name = name
	return t
}

// signed value of a constant
func (t *Term) sval() int64 {
	w := t.S.W
	v := t.Val
	if w < 64 && v&(1<<uint(w-1)) != 0 {
		v |= ^mask(w)
	}
	return int64(v)
}

func (t *Term) isTrue() bool  { return t.Op == "const" && t.S.K == sBool && t.Val == 1 }
func (t *Term) isFalse() bool { return t.Op == "const" && t.S.K == sBool && t.Val == 0 }

func mkNot(a *Term) *Term {
	if a.IsConst() {
		return mkBool(a.Val == 0)
	}
	if a.Op == "not" {
		return a.Args[0]
	}
	return newTerm("not", boolSort, a)
}

func mkAnd(a, b *Term) *Term {
	if a.isFalse() || b.isFalse() {
		return tFalse
	}
	if a.isTrue() {
		return b
	}
	if b.isTrue() {
		return a
	}
	if a == b {
		return a
	}
	return newTerm("and", boolSort, a, b)
}

func mkOr(a, b *Term) *Term {
	if a.isTrue() || b.isTrue() {
		return tTrue
	}
	if a.isFalse() {
		return b
	}
	if b.isFalse() {
		return a
	}
	if a == b {
		return a
	}
	return newTerm("or", boolSort, a, b)
}

func mkImplies(a, b *Term) *Term { return mkOr(mkNot(a), b) }

func mkIte(c, a, b *Term) *Term {
	if c.isTrue() {
		return a
	}
	if c.isFalse() {
		return b
	}
	if a == b {
		return a
	}
	if a.IsConst() && b.IsConst() && a.S == b.S && a.Val == b.Val && a.S.K != sReal {
		return a
	}
	if a.S.K == sBool {
		if a.isTrue() && b.isFalse() {
			return c
		}
		if a.isFalse() && b.isTrue() {
			return mkNot(c)
		}
	}
	return newTerm("ite", a.S, c, a, b)
}

func mkEq(a, b *Term) *Term {
	if a.S != b.S {
		panic(engineError{fmt.Sprintf("mkEq: sort mismatch %v vs %v", a.S, b.S)})
	}
	if a == b {
		return tTrue
	}
	if a.IsConst() && b.IsConst() {
		if a.S.K == sReal {
			return mkBool(a.R.Cmp(b.R) == 0)
		}
		return mkBool(a.Val == b.Val)
	}
	if a.S.K == sBool {
		if a.IsConst() {
			a, b = b, a
		}
		if b.IsConst() {
			if b.Val == 1 {
				return a
			}
			return mkNot(a)
		}
	}
	return newTerm("=", boolSort, a, b)
}

// bvBin builds a binary bit-vector operation with constant folding.
func bvBin(op string, a, b *Term) *Term {
	if a.S != b.S || a.S.K != sBV {
		panic(engineError{fmt.Sprintf("bvBin %s: sort mismatch %v vs %v", op, a.S, b.S)})
	}
	w := a.S.W
	if a.IsConst() && b.IsConst() {
		x, y := a.Val, b.Val
		sx, sy := a.sval(), b.sval()
		var r uint64
		switch op {
		case "bvadd":
			r = x + y
		case "bvsub":
			r = x - y
		case "bvmul":
			r = x * y
		case "bvand":
			r = x & y
		case "bvor":
			r = x | y
		case "bvxor":
			r = x ^ y
		case "bvudiv":
			if y == 0 {
				r = mask(w)
			} else {
				r = x / y
			}
		case "bvurem":
			if y == 0 {
				r = x
			} else {
				r = x % y
			}
		case "bvsdiv":
			if sy == 0 {
				if sx < 0 {
					r = 1
				} else {
					r = mask(w)
				}
			} else if sy == -1 {
				r = uint64(-sx)
			} else {
				r = uint64(sx / sy)
			}
		case "bvsrem":
			if sy == 0 {
				r = x
			} else if sy == -1 {
				r = 0
			} else {
				r = uint64(sx % sy)
			}
		case "bvshl":
			if y >= uint64(w) {
				r = 0
			} else {
				r = x << y
			}
		case "bvlshr":
			if y >= uint64(w) {
				r = 0
			} else {
				r = x >> y
			}
		case "bvashr":
			if y >= uint64(w) {
				if sx < 0 {
					r = mask(w)
				} else {
					r = 0
				}
			} else {
				r = uint64(sx >> y)
			}
		default:
			panic(engineError{"bvBin: unknown op " + op})
		}
		return mkBV(w, r)
	}
	// cheap identities
	switch op {
	case "bvand":
		if (a.IsConst() && a.Val == 0) || (b.IsConst() && b.Val == 0) {
			return mkBV(w, 0)
		}
		if a.IsConst() && a.Val == mask(w) {
			return b
		}
		if b.IsConst() && b.Val == mask(w) {
			return a
		}
	case "bvor", "bvxor", "bvadd":
		if a.IsConst() && a.Val == 0 {
			return b
		}
		if b.IsConst() && b.Val == 0 {
			return a
		}
	case "bvsub", "bvshl", "bvlshr", "bvashr":
		if b.IsConst() && b.Val == 0 {
			return a
		}
	}
	return newTerm(op, a.S, a, b)
}

// bvCmp builds a comparison.
func bvCmp(op string, a, b *Term) *Term {
	if a.S != b.S || a.S.K != sBV {
		panic(engineError{fmt.Sprintf("bvCmp %s: sort mismatch %v vs %v", op, a.S, b.S)})
	}
	if a.IsConst() && b.IsConst() {
		x, y := a.Val, b.Val
		sx, sy := a.sval(), b.sval()
		switch op {
		case "bvult":
			return mkBool(x < y)
		case "bvule":
			return mkBool(x <= y)
		case "bvugt":
			return mkBool(x > y)
		case "bvuge":
			return mkBool(x >= y)
		case "bvslt":
			return mkBool(sx < sy)
		case "bvsle":
			return mkBool(sx <= sy)
		case "bvsgt":
			return mkBool(sx > sy)
		case "bvsge":
			return mkBool(sx >= sy)
		}
		panic(engineError{"bvCmp: unknown op " + op})
	}
	return newTerm(op, boolSort, a, b)
}

func bvNot(a *Term) *Term {
	if a.IsConst() {
		return mkBV(a.S.W, ^a.Val)
	}
	return newTerm("bvnot", a.S, a)
}

func bvNeg(a *Term) *Term {
	if a.IsConst() {
		return mkBV(a.S.W, -a.Val)
	}
	return newTerm("bvneg", a.S, a)
}

// bvResize converts a to width w, sign- or zero-extending by 'signed'.
func bvResize(a *Term, w int, signed bool) *Term {
	if a.S.K != sBV {
		panic(engineError{"bvResize of non-bv"})
	}
	if a.S.W == w {
		return a
	}
	if a.IsConst() {
		if w < a.S.W {
			return mkBV(w, a.Val)
		}
		if signed {
			return mkBV(w, uint64(a.sval()))
		}
		return mkBV(w, a.Val)
	}
	if w < a.S.W {
		t := newTerm("extract", bvSort(w), a)
		t.Ext = [2]int{w - 1, 0}
		return t
	}
	op := "zero_extend"
	if signed {
		op = "sign_extend"
	}
	t := newTerm(op, bvSort(w), a)
	t.Ext = [2]int{w - a.S.W, 0}
	return t
}

// ---------------------------------------------------------------- reals

func mkReal(r *big.Rat) *Term { return &Term{Op: "const", S: realSort, R: r} }

func mkRealF(f float64) *Term {
	r := new(big.Rat)
	r.SetFloat64(f)
	return mkReal(r)
}

func realBin(op string, a, b *Term) *Term {
	if a.IsConst() && b.IsConst() {
		r := new(big.Rat)
		switch op {
		case "+":
			return mkReal(r.Add(a.R, b.R))
		case "-":
			return mkReal(r.Sub(a.R, b.R))
		case "*":
			return mkReal(r.Mul(a.R, b.R))
		case "/":
			if b.R.Sign() != 0 {
				return mkReal(r.Quo(a.R, b.R))
			}
		}
	}
	return newTerm(op, realSort, a, b)
}

func realCmp(op string, a, b *Term) *Term {
	if a.IsConst() && b.IsConst() {
		c := a.R.Cmp(b.R)
		switch op {
		case "<":
			return mkBool(c < 0)
		case "<=":
			return mkBool(c <= 0)
		case ">":
			return mkBool(c > 0)
		case ">=":
			return mkBool(c >= 0)
		}
	}
	return newTerm(op, boolSort, a, b)
}

// ---------------------------------------------------------------- printing

func (t *Term) leaf() bool { return t.Op == "const" || t.Op == "var" }

func constStr(t *Term) string {
	switch t.S.K {
	case sBool:
		if t.Val == 1 {
			return "true"
		}
		return "false"
	case sBV:
		if t.S.W%4 == 0 {
			return fmt.Sprintf("#x%0*x", t.S.W/4, t.Val)
		}
		return fmt.Sprintf("#b%0*b", t.S.W, t.Val)
	}
	// real
	num, den := new(big.Int).Set(t.R.Num()), t.R.Denom()
	neg := num.Sign() < 0
	if neg {
		num.Neg(num)
	}
	s := fmt.Sprintf("(/ %s.0 %s.0)", num.String(), den.String())
	if neg {
		s = "(- " + s + ")"
	}
	return s
}

// ref returns the textual reference of t for use inside another term:
// leaves inline, everything else by its defined name.
func (t *Term) ref() string {
	switch t.Op {
	case "const":
		return constStr(t)
	case "var":
		return t.Name
	}
	return fmt.Sprintf("t!%d", t.id)
}

// body prints one level of t, referring to the arguments by ref().
func (t *Term) body() string {
	var sb strings.Builder
	switch t.Op {
	case "extract":
		fmt.Fprintf(&sb, "((_ extract %d %d) %s)", t.Ext[0], t.Ext[1], t.Args[0].ref())
		return sb.String()
	case "zero_extend", "sign_extend":
		fmt.Fprintf(&sb, "((_ %s %d) %s)", t.Op, t.Ext[0], t.Args[0].ref())
		return sb.String()
	case "bvtoreal":
		x := t.Args[0].ref()
		if t.Ext[1] == 1 {
			w := t.Ext[0]
			pow := new(big.Int).Lsh(big.NewInt(1), uint(w))
			fmt.Fprintf(&sb, "(to_real (ite (bvslt %s (_ bv0 %d)) (- (bv2int %s) %s) (bv2int %s)))", x, w, x, pow.String(), x)
		} else {
			fmt.Fprintf(&sb, "(to_real (bv2int %s))", x)
		}
		return sb.String()
	}
	sb.WriteString("(")
	sb.WriteString(t.Op)
	for _, a := range t.Args {
		sb.WriteString(" ")
		sb.WriteString(a.ref())
	}
	sb.WriteString(")")
	return sb.String()
}

// String prints the full term (for samples in the evidence; may be large).
func (t *Term) String() string {
	if t.leaf() {
		return t.ref()
	}
	var sb strings.Builder
	t.write(&sb, 0)
	return sb.String()
}

func (t *Term) write(sb *strings.Builder, depth int) {
	if t.leaf() {
		sb.WriteString(t.ref())
		return
	}
	if depth > 6 {
		sb.WriteString("…")
		return
	}
	switch t.Op {
	case "extract":
		fmt.Fprintf(sb, "((_ extract %d %d) ", t.Ext[0], t.Ext[1])
	case "zero_extend", "sign_extend":
		fmt.Fprintf(sb, "((_ %s %d) ", t.Op, t.Ext[0])
	default:
		sb.WriteString("(" + t.Op + " ")
	}
	for i, a := range t.Args {
		if i > 0 {
			sb.WriteString(" ")
		}
		a.write(sb, depth+1)
	}
	sb.WriteString(")")
}
