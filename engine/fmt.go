package main

// fmt.Sprintf / Errorf summary.  With concrete arguments the host fmt is
// used (the engine links the real library); symbolic string arguments are
// spliced in byte-for-byte for %s %v (and %q, approximately); %x on strings
// and byte slices is encoded nibble-wise.

import (
	"fmt"
	"go/token"
	"go/types"
	"strings"
)

// hostArg converts a concrete interpreter value to a host Go value.
func (r *run) hostArg(fr *frame, a iface) (interface{}, bool) {
	if a.t == nil {
		return nil, true
	}
	// error / Stringer first (as fmt does for %v %s %q)
	if m := r.findMethod(a.t, "Error"); m != nil && m.Signature.Params().Len() == 0 {
		if p, isPtr := a.v.(*value); isPtr && p == nil {
			return "<nil>", true
		}
		s := r.call(fr, token.NoPos, m, []value{a.v}).(sval)
		if c, ok := s.concrete(); ok {
			return hostStringer(c), true
		}
		return nil, false
	}
	if m := r.findMethod(a.t, "String"); m != nil && m.Signature.Params().Len() == 0 && m.Signature.Results().Len() == 1 && isString(m.Signature.Results().At(0).Type()) {
		if p, isPtr := a.v.(*value); isPtr && p == nil {
			return "<nil>", true
		}
		if m.Blocks != nil || intrinsics[m.String()] != nil || r.eng.models[m.String()] != nil {
			res, ok := r.tryCallString(fr, m, a.v)
			if ok {
				return hostStringer(res), true
			}
		}
	}
	switch v := a.v.(type) {
	case *Term:
		if !v.IsConst() {
			return nil, false
		}
		if v.S.K == sBool {
			return v.Val == 1, true
		}
		_, signed, _ := intInfo(a.t)
		if signed {
			return v.sval(), true
		}
		return v.Val, true
	case fval:
		return float64(v), true
	case sval:
		c, ok := v.concrete()
		return c, ok
	case []value:
		// []byte or []string
		if st, ok := a.t.Underlying().(*types.Slice); ok {
			if isString(st.Elem()) {
				out := make([]string, len(v))
				for i, e := range v {
					c, ok := e.(sval).concrete()
					if !ok {
						return nil, false
					}
					out[i] = c
				}
				return out, true
			}
			if b, ok := st.Elem().Underlying().(*types.Basic); ok && b.Kind() == types.Uint8 {
				out := make([]byte, len(v))
				for i, e := range v {
					t := e.(*Term)
					if !t.IsConst() {
						return nil, false
					}
					out[i] = byte(t.Val)
				}
				return out, true
			}
		}
		return fmt.Sprintf("<slice len %d>", len(v)), true
	case *value:
		if v == nil {
			return nil, true
		}
		return fmt.Sprintf("%p", v), true
	case iface:
		return r.hostArg(fr, v)
	}
	return fmt.Sprintf("<%s>", a.t), true
}

type hostStringer string

func (h hostStringer) String() string { return string(h) }

func (r *run) tryCallString(fr *frame, m value, recv value) (s string, ok bool) {
	defer func() {
		if p := recover(); p != nil {
			if _, isEE := p.(engineError); isEE {
				ok = false
				return
			}
			panic(p)
		}
	}()
	res := r.call(fr, token.NoPos, m, []value{recv}).(sval)
	return res.concrete()
}

func (r *run) sprintf(fr *frame, format sval, args []value) sval {
	f, ok := format.concrete()
	if !ok {
		panic(engineError{"fmt with symbolic format string"})
	}
	// fast path: everything concrete
	host := make([]interface{}, len(args))
	allc := true
	for i, a := range args {
		h, ok := r.hostArg(fr, a.(iface))
		if !ok {
			allc = false
			break
		}
		host[i] = h
	}
	if allc {
		return mkStr(fmt.Sprintf(f, host...))
	}
	// symbolic splice
	var out sval
	argi := 0
	for i := 0; i < len(f); i++ {
		c := f[i]
		if c != '%' {
			out = strConcat(out, mkStr(string(c)))
			continue
		}
		j := i + 1
		for j < len(f) && strings.IndexByte("+-# 0123456789.", f[j]) >= 0 {
			j++
		}
		if j >= len(f) {
			break
		}
		verb := f[j]
		spec := f[i : j+1]
		i = j
		if verb == '%' {
			out = strConcat(out, mkStr("%"))
			continue
		}
		if argi >= len(args) {
			out = strConcat(out, mkStr("%!"+string(verb)+"(MISSING)"))
			continue
		}
		a := args[argi].(iface)
		argi++
		if h, ok := r.hostArg(fr, a); ok {
			out = strConcat(out, mkStr(fmt.Sprintf(spec, h)))
			continue
		}
		out = strConcat(out, r.fmtArg(fr, verb, a))
	}
	return out
}

var hexdigits = "0123456789abcdef"

func hexNibble(n *Term, upper bool) *Term {
	// n is 8 bits, value 0..15
	base := uint64('a' - 10)
	if upper {
		base = uint64('A' - 10)
	}
	return mkIte(bvCmp("bvult", n, mkBV(8, 10)), bvBin("bvadd", n, mkBV(8, '0')), bvBin("bvadd", n, mkBV(8, base)))
}

// fmtArg formats one (partly) symbolic argument.
func (r *run) fmtArg(fr *frame, verb byte, a iface) sval {
	if a.t == nil {
		return mkStr("<nil>")
	}
	if m := r.findMethod(a.t, "Error"); m != nil && m.Signature.Params().Len() == 0 {
		if p, isPtr := a.v.(*value); !isPtr || p != nil {
			return r.call(fr, token.NoPos, m, []value{a.v}).(sval)
		}
	}
	switch v := a.v.(type) {
	case sval:
		switch verb {
		case 's', 'v':
			return v
		case 'q':
			r.note("%%q of a symbolic string approximated without escaping")
			return strConcat(strConcat(mkStr(`"`), v), mkStr(`"`))
		case 'x', 'X':
			var out []*Term
			for _, b := range v.bytes() {
				out = append(out, hexNibble(bvBin("bvlshr", b, mkBV(8, 4)), verb == 'X'), hexNibble(bvBin("bvand", b, mkBV(8, 15)), verb == 'X'))
			}
			return mkStrBytes(out)
		}
	case []value:
		if st, ok := a.t.Underlying().(*types.Slice); ok {
			if b, ok := st.Elem().Underlying().(*types.Basic); ok && b.Kind() == types.Uint8 {
				bs := bytesOf(v)
				switch verb {
				case 's':
					return mkStrBytes(bs)
				case 'x', 'X':
					var out []*Term
					for _, b := range bs {
						out = append(out, hexNibble(bvBin("bvlshr", b, mkBV(8, 4)), verb == 'X'), hexNibble(bvBin("bvand", b, mkBV(8, 15)), verb == 'X'))
					}
					return mkStrBytes(out)
				}
			}
			if isString(st.Elem()) && (verb == 'v' || verb == 's') {
				out := mkStr("[")
				for i, e := range v {
					if i > 0 {
						out = strConcat(out, mkStr(" "))
					}
					out = strConcat(out, e.(sval))
				}
				return strConcat(out, mkStr("]"))
			}
		}
	case *Term:
		if v.S.K == sBool && (verb == 'v' || verb == 't') {
			if r.branch(v) {
				return mkStr("true")
			}
			return mkStr("false")
		}
		if v.S.K == sBV && (verb == 'd' || verb == 'v') {
			_, signed, _ := intInfo(a.t)
			// decimal rendering needs a concrete value: fork over feasible
			// values when the harness bounded them tightly, else placeholder
			if k, ok := r.smallConcretize(v, signed); ok {
				return mkStr(fmt.Sprint(k))
			}
		}
	}
	r.note("formatted symbolic %s with verb %%%c replaced by a placeholder", a.t, verb)
	return mkStr("<sym>")
}

// smallConcretize returns the value of t if the path condition forces a
// single value; otherwise reports false (the caller prints a placeholder).
func (r *run) smallConcretize(t *Term, signed bool) (int64, bool) {
	v, ok := r.sol.Eval(t)
	if !ok {
		return 0, false
	}
	c := mkBV(t.S.W, v)
	if !r.feasibleAll(mkEq(t, c)) {
		return 0, false
	}
	if signed {
		return c.sval(), true
	}
	return int64(c.Val), true
}

// feasibleAll: does pc imply c?
func (r *run) feasibleAll(c *Term) bool {
	if c.IsConst() {
		return c.Val == 1
	}
	if r.pos < len(r.prefix) {
		// replay: the decision is re-derived identically because pc is identical
	}
	res, _ := r.sol.Check(mkNot(c), false)
	return res == "unsat"
}
