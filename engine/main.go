package main

// vsym — symbolic execution of Go SSA with an SMT back end.
//
//   vsym run -repo /repo -harness a.go[,b.go] -api api.go -out res.json
//            [-entry E1,E2] [-workers N] [-thorough] [-solver z3]
//
// The harness files carry directives:
//   //vsym:pkg   <import path of the package the harness is injected into>
//   //vsym:entry <function>            (repeatable)
//   //vsym:model <callee> <harnessFn>  (callee as printed by ssa.Function.String)
//   //vsym:bound <free text copied into the evidence>
//   //vsym:assume <free text copied into the evidence>
//   //vsym:thorough-entry <function>   (entry only run in the thorough tier)

import (
	"bufio"
	"crypto/sha256"
	"encoding/json"
	"flag"
	"fmt"
	"go/types"
	"os"
	"path/filepath"
	"regexp"
	"sort"
	"strings"
	"time"

	"golang.org/x/tools/go/packages"
	"golang.org/x/tools/go/ssa"
	"golang.org/x/tools/go/ssa/ssautil"
)

type directives struct {
	pkg      string
	entries  []string
	tEntries []string
	models   [][2]string
	modelRes [][2]string
	bounds   []string
	assumes  []string
}

func parseDirectives(files []string) (*directives, error) {
	d := &directives{}
	var mainModels [][2]string // the harness file's own models override those of included files
	for fi, f := range files {
		fh, err := os.Open(f)
		if err != nil {
			return nil, err
		}
		sc := bufio.NewScanner(fh)
		sc.Buffer(make([]byte, 1<<20), 1<<20)
		for sc.Scan() {
			line := strings.TrimSpace(sc.Text())
			if !strings.HasPrefix(line, "//vsym:") {
				continue
			}
			rest := strings.TrimPrefix(line, "//vsym:")
			sp := strings.IndexAny(rest, " \t")
			if sp < 0 {
				continue
			}
			key, val := rest[:sp], strings.TrimSpace(rest[sp+1:])
			switch key {
			case "pkg":
				d.pkg = val
			case "entry":
				if fi == 0 { // included files contribute models and code, not entries
					d.entries = append(d.entries, strings.Fields(val)[0])
				}
			case "thorough-entry":
				if fi == 0 {
					d.tEntries = append(d.tEntries, strings.Fields(val)[0])
				}
			case "model":
				fs := strings.Fields(val)
				if len(fs) < 2 {
					return nil, fmt.Errorf("bad model directive: %s", line)
				}
				if fi == 0 {
					mainModels = append(mainModels, [2]string{fs[0], fs[1]})
				} else {
					d.models = append(d.models, [2]string{fs[0], fs[1]})
				}
			case "model-re":
				fs := strings.Fields(val)
				if len(fs) < 2 {
					return nil, fmt.Errorf("bad model-re directive: %s", line)
				}
				d.modelRes = append(d.modelRes, [2]string{fs[0], fs[1]})
			case "bound":
				d.bounds = append(d.bounds, val)
			case "assume":
				d.assumes = append(d.assumes, val)
			}
		}
		fh.Close()
	}
	d.models = append(d.models, mainModels...)
	if d.pkg == "" {
		return nil, fmt.Errorf("no //vsym:pkg directive")
	}
	return d, nil
}

type funcInfo struct {
	Name   string `json:"name"`
	Pos    string `json:"pos"`
	Instrs int    `json:"instrs"`
	Hash   string `json:"hash"`
}

type output struct {
	Package      string         `json:"package"`
	Thorough     bool           `json:"thorough"`
	Entries      []*entryResult `json:"entries"`
	Functions    []funcInfo     `json:"functions_encoded"`
	ModelFuncs   []string       `json:"models"`
	ExternalSSA  []string       `json:"external_bodies_executed"`
	LazyInits    []string       `json:"external_package_inits_run"`
	Notes        []string       `json:"notes"`
	Bounds       []string       `json:"bounds"`
	Assumes      []string       `json:"assumptions"`
	LoadS        float64        `json:"load_s"`
	WallS        float64        `json:"wall_s"`
	Solver       string         `json:"solver"`
	Error        string         `json:"error,omitempty"`
	MissingCover []string       `json:"missing_covers,omitempty"`
}

func fatal(out string, o *output, err error) {
	o.Error = err.Error()
	writeOut(out, o)
	fmt.Fprintln(os.Stderr, "vsym:", err)
	os.Exit(2)
}

func writeOut(path string, o *output) {
	b, _ := json.MarshalIndent(o, "", " ")
	if path == "" || path == "-" {
		os.Stdout.Write(b)
		return
	}
	os.WriteFile(path, b, 0o644)
}

func main() {
	if len(os.Args) < 2 || os.Args[1] != "run" {
		fmt.Fprintln(os.Stderr, "usage: vsym run [flags]")
		os.Exit(2)
	}
	fs := flag.NewFlagSet("run", flag.ExitOnError)
	repo := fs.String("repo", "/repo", "repository root")
	harness := fs.String("harness", "", "comma-separated harness files")
	api := fs.String("api", "", "API template file")
	outp := fs.String("out", "-", "result JSON")
	entryF := fs.String("entry", "", "comma-separated entries (default: all)")
	workers := fs.Int("workers", 8, "parallel workers")
	thorough := fs.Bool("thorough", false, "thorough tier")
	solver := fs.String("solver", "z3", "solver binary")
	timeout := fs.Int("timeout", 60000, "per-query timeout (ms)")
	maxSteps := fs.Int("max-steps", 20000000, "instruction budget per path")
	maxChoices := fs.Int("max-choices", 4000, "fork budget per path")
	maxPaths := fs.Int("max-paths", 2000000, "path budget per entry")
	maxSeconds := fs.Int("max-seconds", 900, "wall-clock budget per entry (exceeded = truncated = inconclusive)")
	maxLen := fs.Int("max-len", 8, "default bound for symbolic allocation lengths")
	seed := fs.Int64("seed", 0, "seed for the sampling of alternative counterexamples (verdicts do not depend on it)")
	qlog := fs.String("qlog", "", "directory for per-worker SMT-LIB logs (cross-solver re-check)")
	trace := fs.Bool("trace", false, "trace calls")
	noMergeF := fs.Bool("no-merge", false, "disable if-conversion of pure diamonds (debugging / cross-check)")
	fs.Parse(os.Args[2:])
	traceCalls = *trace
	noMerge = *noMergeF

	o := &output{Thorough: *thorough, Solver: *solver}
	t0 := time.Now()
	hfiles := strings.Split(*harness, ",")
	d, err := parseDirectives(hfiles)
	if err != nil {
		fatal(*outp, o, err)
	}
	o.Package = d.pkg
	o.Bounds = d.bounds
	o.Assumes = d.assumes

	// locate the package directory
	cfg0 := &packages.Config{Mode: packages.NeedName | packages.NeedFiles, Dir: *repo}
	p0, err := packages.Load(cfg0, d.pkg)
	if err != nil || len(p0) != 1 || len(p0[0].GoFiles) == 0 {
		fatal(*outp, o, fmt.Errorf("cannot locate package %s: %v", d.pkg, err))
	}
	pkgDir := filepath.Dir(p0[0].GoFiles[0])
	pkgName := p0[0].Name
	modPrefix := "github.com/theparanoids/ysshra"

	overlay := map[string][]byte{}
	for i, f := range hfiles {
		b, err := os.ReadFile(f)
		if err != nil {
			fatal(*outp, o, err)
		}
		overlay[filepath.Join(pkgDir, fmt.Sprintf("zz_vsym_h%d_%s", i, filepath.Base(f)))] = b
	}
	if *api != "" {
		b, err := os.ReadFile(*api)
		if err != nil {
			fatal(*outp, o, err)
		}
		s := strings.Replace(string(b), "package PKGNAME", "package "+pkgName, 1)
		overlay[filepath.Join(pkgDir, "zz_vsym_api.go")] = []byte(s)
	}
	cfg := &packages.Config{Mode: packages.LoadAllSyntax, Dir: *repo, Overlay: overlay}
	pkgs, err := packages.Load(cfg, d.pkg)
	if err != nil {
		fatal(*outp, o, err)
	}
	var errs []string
	packages.Visit(pkgs, nil, func(p *packages.Package) {
		for _, e := range p.Errors {
			errs = append(errs, e.Error())
		}
	})
	if len(errs) > 0 {
		fatal(*outp, o, fmt.Errorf("harness does not compile against the current tree:\n%s", strings.Join(errs, "\n")))
	}
	prog, spkgs := ssautil.AllPackages(pkgs, ssa.InstantiateGenerics)
	prog.Build()
	hpkg := spkgs[0]
	o.LoadS = time.Since(t0).Seconds()

	eng := &engine{
		prog: prog, hpkg: hpkg, repoPrefix: modPrefix,
		models: map[string]*ssa.Function{}, noInit: map[string]string{},
		maxSteps: *maxSteps, maxChoices: *maxChoices, maxAlloc: 16 << 20, maxLen: *maxLen, maxPaths: *maxPaths, maxSeconds: *maxSeconds, qlogDir: *qlog, seed: *seed,
		workers: *workers, solverBin: *solver, solverTimeout: *timeout, fset: prog.Fset,
		covered: map[string]bool{}, allFuncs: map[*ssa.Function]bool{}, allNotes: map[string]bool{}, lazyInits: map[string]bool{},
		thorough: *thorough,
	}
	rt := prog.ImportedPackage("runtime")
	if rt == nil {
		fatal(*outp, o, fmt.Errorf("runtime package not loaded"))
	}
	eng.runtimeErrorString = rt.Type("errorString").Object().Type()
	ep := prog.ImportedPackage("errors")
	if ep == nil {
		fatal(*outp, o, fmt.Errorf("errors package not loaded"))
	}
	eng.errorStringPtr = types.NewPointer(ep.Type("errorString").Object().Type())

	for _, m := range d.models {
		fn := hpkg.Func(m[1])
		if fn == nil {
			fatal(*outp, o, fmt.Errorf("model function %s not found in harness package", m[1]))
		}
		eng.models[m[0]] = fn
		o.ModelFuncs = append(o.ModelFuncs, m[0]+" => "+m[1])
	}
	for _, m := range d.modelRes {
		fn := hpkg.Func(m[1])
		if fn == nil {
			fatal(*outp, o, fmt.Errorf("model function %s not found in harness package", m[1]))
		}
		re, rerr := regexp.Compile(m[0])
		if rerr != nil {
			fatal(*outp, o, rerr)
		}
		eng.modelRes = append(eng.modelRes, modelRe{re, fn})
		o.ModelFuncs = append(o.ModelFuncs, "/"+m[0]+"/ => "+m[1])
	}
	// validate that every modelled callee exists (a renamed callee must not
	// silently disable a model)
	known := map[string]bool{}
	for fn := range ssautil.AllFunctions(prog) {
		known[fn.String()] = true
	}
	for _, m := range d.models {
		if !known[m[0]] {
			// the callee is not part of the program (any more): the model is
			// unused; recorded so that a renamed callee does not go unnoticed
			eng.allNotes["modelled callee "+m[0]+" does not exist in the loaded program (model unused)"] = true
		}
	}

	entries := d.entries
	if *thorough {
		entries = append(entries, d.tEntries...)
	}
	if *entryF != "" {
		entries = strings.Split(*entryF, ",")
	}
	for _, en := range entries {
		fn := hpkg.Func(en)
		if fn == nil {
			fatal(*outp, o, fmt.Errorf("entry %s not found", en))
		}
		res := eng.explore(fn, nil, nil)
		o.Entries = append(o.Entries, res)
		fmt.Fprintf(os.Stderr, "  %-28s paths=%d obligations=%d proved=%d violated=%d unknown=%d inconclusive=%d  sat/unsat/unk=%d/%d/%d solver=%.1fs wall=%.1fs\n",
			en, res.Paths, res.Obligations, res.Proved, len(res.Violated), len(res.Unknown), len(res.Inconclusive), res.Sat, res.Unsat, res.UnknownQ, res.SolverS, res.WallS)
	}

	for fn := range eng.allFuncs {
		if fn.Pkg != nil && eng.isRepoPkg(fn.Pkg) || (fn.Parent() != nil && fn.Parent().Pkg != nil && eng.isRepoPkg(fn.Parent().Pkg)) {
			pos := eng.pos(fn.Pos())
			if strings.Contains(pos, "zz_vsym_") {
				continue
			}
			n := 0
			h := sha256.New()
			for _, b := range fn.Blocks {
				for _, in := range b.Instrs {
					n++
					fmt.Fprintln(h, in.String())
				}
			}
			o.Functions = append(o.Functions, funcInfo{Name: fn.String(), Pos: pos, Instrs: n, Hash: fmt.Sprintf("%x", h.Sum(nil))[:12]})
		} else if fn.Blocks != nil {
			o.ExternalSSA = append(o.ExternalSSA, fn.String())
		}
	}
	sort.Slice(o.Functions, func(i, j int) bool { return o.Functions[i].Name < o.Functions[j].Name })
	sort.Strings(o.ExternalSSA)
	for n := range eng.allNotes {
		o.Notes = append(o.Notes, n)
	}
	sort.Strings(o.Notes)
	for p := range eng.lazyInits {
		o.LazyInits = append(o.LazyInits, p)
	}
	sort.Strings(o.LazyInits)
	o.WallS = time.Since(t0).Seconds()
	if qprofOn {
		type kv struct {
			k string
			v int
		}
		var l []kv
		for k, v := range qprof {
			l = append(l, kv{k, v})
		}
		sort.Slice(l, func(i, j int) bool { return l[i].v > l[j].v })
		for i, e := range l {
			if i < 15 {
				fmt.Fprintf(os.Stderr, "  qprof %8d %s\n", e.v, e.k)
			}
		}
	}
	writeOut(*outp, o)
}

var traceCalls bool

// pkgHandler returns a no-op emulation for logging / telemetry packages.
func (e *engine) pkgHandler(fn *ssa.Function) externalFn {
	if fn.Pkg == nil || fn.Pkg.Pkg == nil {
		return nil
	}
	p := fn.Pkg.Pkg.Path()
	if strings.HasPrefix(p, "github.com/rs/zerolog") || p == "log" || strings.HasPrefix(p, "go.opentelemetry.io/") || strings.HasPrefix(p, "github.com/grpc-ecosystem/go-grpc-middleware") {
		return func(fr *frame, args []value) value { return opaqueResults(fn.Signature) }
	}
	if e.hpkg == fn.Pkg {
		if f := apiIntrinsics[fn.Name()]; f != nil {
			return f
		}
	}
	return nil
}
