package main

// Floating point.  Concrete float64 values are computed natively.  Symbolic
// floats use the tagged-real relaxation of DESIGN 2.6: a float is a real term
// plus a concrete class tag (finite / +Inf / -Inf / NaN); every operation on
// finite operands introduces a fresh real constrained to lie within one
// rounding step of the exact result, monotone through a few representable
// constants.

import (
	"fmt"
	"go/token"
	"math"
	"math/big"
)

type fclass uint8

const (
	fFinite fclass = iota
	fPosInf
	fNegInf
	fNaN
)

type fsym struct {
	cls fclass
	t   *Term // real term (finite only)
}

func toFsym(v value) *fsym {
	switch v := v.(type) {
	case *fsym:
		return v
	case fval:
		f := float64(v)
		switch {
		case math.IsNaN(f):
			return &fsym{cls: fNaN}
		case math.IsInf(f, 1):
			return &fsym{cls: fPosInf}
		case math.IsInf(f, -1):
			return &fsym{cls: fNegInf}
		}
		return &fsym{cls: fFinite, t: mkRealF(f)}
	}
	panic(engineError{fmt.Sprintf("toFsym %T", v)})
}

var relEps = new(big.Rat).SetFrac(big.NewInt(1), new(big.Int).Lsh(big.NewInt(1), 52)) // 2^-52 (one ulp, generous)

// round introduces y ≈ x within one rounding step.
func (r *run) fround(x *Term) *Term {
	if x.IsConst() {
		f, _ := x.R.Float64()
		return mkRealF(f)
	}
	y := r.fresh("fp_round", "real", realSort)
	eps := mkReal(relEps)
	one := mkReal(big.NewRat(1, 1))
	lo := realBin("*", x, realBin("-", one, eps))
	hi := realBin("*", x, realBin("+", one, eps))
	zero := mkReal(new(big.Rat))
	tiny := mkRealF(5e-324)
	// x >= 0: lo-tiny <= y <= hi+tiny ; x < 0: hi-tiny <= y <= lo+tiny
	pos := mkAnd(realCmp("<=", realBin("-", lo, tiny), y), realCmp("<=", y, realBin("+", hi, tiny)))
	neg := mkAnd(realCmp("<=", realBin("-", hi, tiny), y), realCmp("<=", y, realBin("+", lo, tiny)))
	r.assume(mkIte(realCmp(">=", x, zero), pos, neg))
	// monotone through representable constants
	for _, c := range []float64{-2, -1, 0, 1, 2, 9223372036854775808.0, -9223372036854775808.0} {
		ct := mkRealF(c)
		r.assume(mkImplies(realCmp("<=", x, ct), realCmp("<=", y, ct)))
		r.assume(mkImplies(realCmp(">=", x, ct), realCmp(">=", y, ct)))
	}
	return y
}

func fNeg(x *fsym) value {
	switch x.cls {
	case fPosInf:
		return &fsym{cls: fNegInf}
	case fNegInf:
		return &fsym{cls: fPosInf}
	case fNaN:
		return x
	}
	return &fsym{cls: fFinite, t: realBin("-", mkReal(new(big.Rat)), x.t)}
}

func fEq(x, y value) *Term {
	a, b := toFsym(x), toFsym(y)
	if a.cls == fNaN || b.cls == fNaN {
		return tFalse
	}
	if a.cls != b.cls {
		return tFalse
	}
	if a.cls != fFinite {
		return tTrue
	}
	return mkEq(a.t, b.t)
}

func fBinop(r *run, op token.Token, x, y value) value {
	xf, xok := x.(fval)
	yf, yok := y.(fval)
	if xok && yok {
		a, b := float64(xf), float64(yf)
		switch op {
		case token.ADD:
			return fval(a + b)
		case token.SUB:
			return fval(a - b)
		case token.MUL:
			return fval(a * b)
		case token.QUO:
			return fval(a / b)
		case token.EQL:
			return mkBool(a == b)
		case token.NEQ:
			return mkBool(a != b)
		case token.LSS:
			return mkBool(a < b)
		case token.LEQ:
			return mkBool(a <= b)
		case token.GTR:
			return mkBool(a > b)
		case token.GEQ:
			return mkBool(a >= b)
		}
		panic(engineError{"float binop " + op.String()})
	}
	a, b := toFsym(x), toFsym(y)
	zero := mkReal(new(big.Rat))
	switch op {
	case token.EQL:
		return fEq(a, b)
	case token.NEQ:
		return mkNot(fEq(a, b))
	case token.LSS, token.LEQ, token.GTR, token.GEQ:
		if a.cls == fNaN || b.cls == fNaN {
			return tFalse
		}
		if a.cls == fFinite && b.cls == fFinite {
			return realCmp(map[token.Token]string{token.LSS: "<", token.LEQ: "<=", token.GTR: ">", token.GEQ: ">="}[op], a.t, b.t)
		}
		rank := func(f *fsym) int {
			switch f.cls {
			case fNegInf:
				return -1
			case fPosInf:
				return 1
			}
			return 0
		}
		ra, rb := rank(a), rank(b)
		switch op {
		case token.LSS:
			return mkBool(ra < rb)
		case token.LEQ:
			return mkBool(ra <= rb)
		case token.GTR:
			return mkBool(ra > rb)
		}
		return mkBool(ra >= rb)
	case token.MUL:
		if a.cls == fNaN || b.cls == fNaN {
			return &fsym{cls: fNaN}
		}
		if a.cls == fFinite && b.cls == fFinite {
			return &fsym{cls: fFinite, t: r.fround(realBin("*", a.t, b.t))}
		}
		// one operand infinite: sign of the other decides; zero gives NaN
		inf, fin := a, b
		if a.cls == fFinite {
			inf, fin = b, a
		}
		if fin.cls != fFinite {
			// inf * inf
			if (fin.cls == fPosInf) == (inf.cls == fPosInf) {
				return &fsym{cls: fPosInf}
			}
			return &fsym{cls: fNegInf}
		}
		if r.branch(mkEq(fin.t, zero)) {
			return &fsym{cls: fNaN}
		}
		posv := r.branch(realCmp(">", fin.t, zero))
		if posv == (inf.cls == fPosInf) {
			return &fsym{cls: fPosInf}
		}
		return &fsym{cls: fNegInf}
	case token.ADD, token.SUB:
		if a.cls == fNaN || b.cls == fNaN {
			return &fsym{cls: fNaN}
		}
		if op == token.SUB {
			b = fNeg(b).(*fsym)
		}
		if a.cls == fFinite && b.cls == fFinite {
			return &fsym{cls: fFinite, t: r.fround(realBin("+", a.t, b.t))}
		}
		if a.cls != fFinite && b.cls != fFinite && a.cls != b.cls {
			return &fsym{cls: fNaN}
		}
		if a.cls != fFinite {
			return &fsym{cls: a.cls}
		}
		return &fsym{cls: b.cls}
	case token.QUO:
		if a.cls == fFinite && b.cls == fFinite {
			if r.branch(mkEq(b.t, zero)) {
				panic(engineError{"symbolic float division by zero not modelled"})
			}
			return &fsym{cls: fFinite, t: r.fround(realBin("/", a.t, b.t))}
		}
	}
	panic(engineError{"symbolic float op " + op.String()})
}

func intToFloat(r *run, x *Term, signed bool) value {
	if x.IsConst() {
		if signed {
			return fval(float64(x.sval()))
		}
		return fval(float64(x.Val))
	}
	// exact integer value as a real via bv2nat-free encoding: fresh real tied
	// to the bit-vector by an int variable
	iv := r.fresh("int2real", "int", Sort{K: sReal})
	w := x.S.W
	// constrain iv = value(x) using bv2int
	conv := &Term{Op: "bvtoreal", S: realSort, Args: []*Term{x}, id: nextID(), Ext: [2]int{w, boolToInt(signed)}}
	r.assume(mkEq(iv, conv))
	// int64 -> float64 rounds for |x| > 2^53
	return &fsym{cls: fFinite, t: r.fround(iv)}
}

func boolToInt(b bool) int {
	if b {
		return 1
	}
	return 0
}

func floatToInt(r *run, x value, w int, signed bool) value {
	if f, ok := x.(fval); ok {
		ff := float64(f)
		if signed {
			return mkBV(w, uint64(int64(ff)))
		}
		return mkBV(w, uint64(ff))
	}
	fs := x.(*fsym)
	// Go leaves out-of-range conversions implementation-defined; the
	// obligation is "finite and in range", reported through the float hook.
	if fs.cls != fFinite {
		r.floatConvIssue("conversion of " + []string{"finite", "+Inf", "-Inf", "NaN"}[fs.cls] + " to integer")
		return mkBV(w, uint64(1)<<uint(w-1)) // amd64 result
	}
	lim := new(big.Rat).SetInt(new(big.Int).Lsh(big.NewInt(1), uint(w-1)))
	inr := mkAnd(realCmp(">=", fs.t, mkReal(new(big.Rat).Neg(lim))), realCmp("<", fs.t, mkReal(lim)))
	if !r.branch(inr) {
		r.floatConvIssue("conversion of out-of-range float to integer")
		return mkBV(w, uint64(1)<<uint(w-1))
	}
	// result i with i <= x < i+1 (x>=0) / i-1 < x <= i (x<0): keep it as a
	// real-valued integer term tied to a fresh bit-vector
	iv := r.fresh("float2int", fmt.Sprintf("i%d", w), bvSort(w))
	conv := &Term{Op: "bvtoreal", S: realSort, Args: []*Term{iv}, id: nextID(), Ext: [2]int{w, boolToInt(signed)}}
	zero := mkReal(new(big.Rat))
	one := mkReal(big.NewRat(1, 1))
	pos := mkAnd(realCmp("<=", conv, fs.t), realCmp("<", fs.t, realBin("+", conv, one)))
	neg := mkAnd(realCmp("<", realBin("-", conv, one), fs.t), realCmp("<=", fs.t, conv))
	r.assume(mkIte(realCmp(">=", fs.t, zero), pos, neg))
	return iv
}

func (r *run) floatConvIssue(what string) {
	r.facts["float-conv"] = what
}
