package main

// Floating point.  Concrete float64 values are computed natively.  Symbolic
// floats use the tagged-real relaxation of DESIGN 2.6: a float is a real term
// plus a concrete class tag (finite / +Inf / -Inf / NaN); every operation on
// finite operands introduces a fresh real constrained to lie within one
// rounding step of the exact result, monotone through a few representable
// constants.

import (
	"fmt"
	"go/token"
	"math"
	"math/big"
)

type fclass uint8

const (
	fFinite fclass = iota
	fPosInf
	fNegInf
	fNaN
)

type fsym struct {
	cls fclass
	t   *Term // real term (finite only)
	// fromInt: this float is exactly the conversion of that integer of at
	// most 32 bits (such conversions are exact in float64); converting it
	// back to an integer gives that integer again
	fromInt       *Term
	fromIntSigned bool
}

func toFsym(v value) *fsym {
	switch v := v.(type) {
	case *fsym:
		return v
	case fval:
		f := float64(v)
		switch {
		case math.IsNaN(f):
			return &fsym{cls: fNaN}
		case math.IsInf(f, 1):
			return &fsym{cls: fPosInf}
		case math.IsInf(f, -1):
			return &fsym{cls: fNegInf}
		}
		return &fsym{cls: fFinite, t: mkRealF(f)}
	}
	panic(engineError{fmt.Sprintf("toFsym %T", v)})
}

var relEps = new(big.Rat).SetFrac(big.NewInt(1), new(big.Int).Lsh(big.NewInt(1), 52)) // 2^-52 (one ulp, generous)

// round introduces y ≈ x within one rounding step.
func (r *run) fround(x *Term) *Term {
	if x.IsConst() {
		f, _ := x.R.Float64()
		return mkRealF(f)
	}
	y := r.fresh("fp_round", "real", realSort)
	eps := mkReal(relEps)
	one := mkReal(big.NewRat(1, 1))
	lo := realBin("*", x, realBin("-", one, eps))
	hi := realBin("*", x, realBin("+", one, eps))
	zero := mkReal(new(big.Rat))
	tiny := mkRealF(5e-324)
	// x >= 0: lo-tiny <= y <= hi+tiny ; x < 0: hi-tiny <= y <= lo+tiny
	pos := mkAnd(realCmp("<=", realBin("-", lo, tiny), y), realCmp("<=", y, realBin("+", hi, tiny)))
	neg := mkAnd(realCmp("<=", realBin("-", hi, tiny), y), realCmp("<=", y, realBin("+", lo, tiny)))
	r.assume(mkIte(realCmp(">=", x, zero), pos, neg))
	// monotone through representable constants
	for _, c := range []float64{-2, -1, 0, 1, 2, 9223372036854775808.0, -9223372036854775808.0} {
		ct := mkRealF(c)
		r.assume(mkImplies(realCmp("<=", x, ct), realCmp("<=", y, ct)))
		r.assume(mkImplies(realCmp(">=", x, ct), realCmp(">=", y, ct)))
	}
	return y
}

func fNeg(x *fsym) value {
	switch x.cls {
	case fPosInf:
		return &fsym{cls: fNegInf}
	case fNegInf:
		return &fsym{cls: fPosInf}
	case fNaN:
		return x
	}
	return &fsym{cls: fFinite, t: realBin("-", mkReal(new(big.Rat)), x.t)}
}

func fEq(x, y value) *Term {
	a, b := toFsym(x), toFsym(y)
	if a.cls == fNaN || b.cls == fNaN {
		return tFalse
	}
	if a.cls != b.cls {
		return tFalse
	}
	if a.cls != fFinite {
		return tTrue
	}
	return mkEq(a.t, b.t)
}

func fBinop(r *run, op token.Token, x, y value) value {
	xf, xok := x.(fval)
	yf, yok := y.(fval)
	if xok && yok {
		a, b := float64(xf), float64(yf)
		switch op {
		case token.ADD:
			return fval(a + b)
		case token.SUB:
			return fval(a - b)
		case token.MUL:
			return fval(a * b)
		case token.QUO:
			return fval(a / b)
		case token.EQL:
			return mkBool(a == b)
		case token.NEQ:
			return mkBool(a != b)
		case token.LSS:
			return mkBool(a < b)
		case token.LEQ:
			return mkBool(a <= b)
		case token.GTR:
			return mkBool(a > b)
		case token.GEQ:
			return mkBool(a >= b)
		}
		panic(engineError{"float binop " + op.String()})
	}
	a, b := toFsym(x), toFsym(y)
	zero := mkReal(new(big.Rat))
	switch op {
	case token.EQL:
		return fEq(a, b)
	case token.NEQ:
		return mkNot(fEq(a, b))
	case token.LSS, token.LEQ, token.GTR, token.GEQ:
		if a.cls == fNaN || b.cls == fNaN {
			return tFalse
		}
		if a.cls == fFinite && b.cls == fFinite {
			return realCmp(map[token.Token]string{token.LSS: "<", token.LEQ: "<=", token.GTR: ">", token.GEQ: ">="}[op], a.t, b.t)
		}
		rank := func(f *fsym) int {
			switch f.cls {
			case fNegInf:
				return -1
			case fPosInf:
				return 1
			}
			return 0
		}
		ra, rb := rank(a), rank(b)
		switch op {
		case token.LSS:
			return mkBool(ra < rb)
		case token.LEQ:
			return mkBool(ra <= rb)
		case token.GTR:
			return mkBool(ra > rb)
		}
		return mkBool(ra >= rb)
	case token.MUL:
		if a.cls == fNaN || b.cls == fNaN {
			return &fsym{cls: fNaN}
		}
		if a.cls == fFinite && b.cls == fFinite {
			return &fsym{cls: fFinite, t: r.fround(realBin("*", a.t, b.t))}
		}
		// one operand infinite: sign of the other decides; zero gives NaN
		inf, fin := a, b
		if a.cls == fFinite {
			inf, fin = b, a
		}
		if fin.cls != fFinite {
			// inf * inf
			if (fin.cls == fPosInf) == (inf.cls == fPosInf) {
				return &fsym{cls: fPosInf}
			}
			return &fsym{cls: fNegInf}
		}
		if r.branch(mkEq(fin.t, zero)) {
			return &fsym{cls: fNaN}
		}
		posv := r.branch(realCmp(">", fin.t, zero))
		if posv == (inf.cls == fPosInf) {
			return &fsym{cls: fPosInf}
		}
		return &fsym{cls: fNegInf}
	case token.ADD, token.SUB:
		if a.cls == fNaN || b.cls == fNaN {
			return &fsym{cls: fNaN}
		}
		if op == token.SUB {
			b = fNeg(b).(*fsym)
		}
		if a.cls == fFinite && b.cls == fFinite {
			return &fsym{cls: fFinite, t: r.fround(realBin("+", a.t, b.t))}
		}
		if a.cls != fFinite && b.cls != fFinite && a.cls != b.cls {
			return &fsym{cls: fNaN}
		}
		if a.cls != fFinite {
			return &fsym{cls: a.cls}
		}
		return &fsym{cls: b.cls}
	case token.QUO:
		if a.cls == fFinite && b.cls == fFinite {
			if r.branch(mkEq(b.t, zero)) {
				panic(engineError{"symbolic float division by zero not modelled"})
			}
			return &fsym{cls: fFinite, t: r.fround(realBin("/", a.t, b.t))}
		}
	}
	panic(engineError{"symbolic float op " + op.String()})
}

// twin returns the real-valued twin of a bit-vector variable (created on
// demand, unconstrained unless the harness linked it with vLinkReal).  The
// twin over-approximates the integer by a real in the same range.
func (r *run) twin(x *Term) *Term { return r.twinOf(x, true) }

func (r *run) twinOf(x *Term, signed bool) *Term {
	if t, ok := r.twins[x]; ok {
		return t
	}
	t := r.fresh("twin_"+x.Name, "real", realSort)
	r.twins[x] = t
	if x.Op == "var" {
		// exact link, used only to refine a counterexample into one whose
		// integers and reals agree (so that it replays natively)
		w := x.S.W
		lo, hi := "0.0", fmt.Sprintf("%s.0", new(big.Int).Lsh(big.NewInt(1), uint(w)).String())
		if signed {
			h := new(big.Int).Lsh(big.NewInt(1), uint(w-1)).String()
			lo, hi = "(- "+h+".0)", h+".0"
		}
		r.sol.links = append(r.sol.links, fmt.Sprintf("(and (= %s (to_real (to_int %s))) (<= %s %s) (< %s %s) (= %s ((_ int2bv %d) (to_int %s))))",
			t.Name, t.Name, lo, t.Name, t.Name, hi, x.Name, w, t.Name))
	}
	// cheap integrality: an integer is 0 or at least 1 in magnitude
	zero := mkReal(new(big.Rat))
	one := mkReal(big.NewRat(1, 1))
	mone := mkReal(big.NewRat(-1, 1))
	r.assume(mkOr(mkEq(t, zero), mkOr(realCmp(">=", t, one), realCmp("<=", t, mone))))
	return t
}

func intToFloat(r *run, x *Term, signed bool) value {
	if x.IsConst() {
		if signed {
			return fval(float64(x.sval()))
		}
		return fval(float64(x.Val))
	}
	if x.Op != "var" {
		// a computed integer: give it an unconstrained twin (over-approximation)
		r.note("int->float conversion of a computed symbolic integer over-approximated by an arbitrary real")
	}
	f := &fsym{cls: fFinite, t: r.fround(r.twinOf(x, signed))}
	if x.S.W <= 32 {
		f.fromInt, f.fromIntSigned = x, signed
	}
	return f
}

func floatToInt(r *run, x value, w int, signed bool) value {
	if f, ok := x.(fval); ok {
		ff := float64(f)
		if ff != ff || ff >= 9.3e18 || ff <= -9.3e18 {
			r.floatConvIssue(fmt.Sprintf("conversion of %v to integer", ff))
			return mkBV(w, uint64(1)<<uint(w-1))
		}
		if signed {
			return mkBV(w, uint64(int64(ff)))
		}
		return mkBV(w, uint64(ff))
	}
	fs := x.(*fsym)
	if fs.fromInt != nil && fs.cls == fFinite {
		// exact round trip of a small integer (value preserved when it fits;
		// an unsigned source of at most 32 bits always fits a wider target,
		// and a narrower target sees Go's conversion of the integer part)
		src := fs.fromInt
		switch {
		case src.S.W == w:
			if fs.fromIntSigned == signed || !fs.fromIntSigned {
				return src
			}
		case src.S.W < w:
			return bvResize(src, w, fs.fromIntSigned)
		}
	}
	// Go leaves out-of-range conversions implementation-defined (amd64 yields
	// the minimum integer); recorded as a fact of the path.
	if fs.cls != fFinite {
		r.floatConvIssue("conversion of " + []string{"finite", "+Inf", "-Inf", "NaN"}[fs.cls] + " to integer")
		return mkBV(w, uint64(1)<<uint(w-1))
	}
	lim := new(big.Rat).SetInt(new(big.Int).Lsh(big.NewInt(1), uint(w-1)))
	inr := mkAnd(realCmp(">=", fs.t, mkReal(new(big.Rat).Neg(lim))), realCmp("<", fs.t, mkReal(lim)))
	if !r.branch(inr) {
		r.floatConvIssue("conversion of out-of-range float to integer")
		return mkBV(w, uint64(1)<<uint(w-1))
	}
	// truncation toward zero, on the real twin of a fresh integer variable
	iv := r.fresh("float2int", fmt.Sprintf("i%d", w), bvSort(w))
	tw := r.twinOf(iv, signed)
	zero := mkReal(new(big.Rat))
	one := mkReal(big.NewRat(1, 1))
	pos := mkAnd(realCmp("<=", tw, fs.t), realCmp("<", fs.t, realBin("+", tw, one)))
	neg := mkAnd(realCmp("<", realBin("-", tw, one), fs.t), realCmp("<=", fs.t, tw))
	r.assume(mkIte(realCmp(">=", fs.t, zero), pos, neg))
	return iv
}

func (r *run) floatConvIssue(what string) {
	r.facts["float-conv"] = what
}
