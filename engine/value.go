package main

// Interpreter values (after golang.org/x/tools/go/ssa/interp, BSD licence),
// with symbolic scalars.
//
//   *Term      bool and every integer type (constant or symbolic)
//   fval       concrete float64/float32
//   *fsym      float64 in tagged-real relaxation (see float.go)
//   sval       string: concrete, or a vector of byte terms
//   []value    slice (native aliasing / len / cap)
//   array      array;  structure  struct;  *value  pointer
//   *smap      map (ordered entry list, symbolic-key aware)
//   iface      interface value (concrete dynamic type)
//   *ssa.Function, *closure, *ssa.Builtin   functions
//   tuple      multi-value results;  iter  range iterators
//   *opaque    value of a modelled external type that is only passed around

import (
	"fmt"
	"go/types"
	"strings"

	"golang.org/x/tools/go/ssa"
)

type value interface{}

type tuple []value
type array []value
type structure []value

type iface struct {
	t types.Type
	v value
}

type closure struct {
	Fn  *ssa.Function
	Env []value
}

type fval float64

type opaque struct {
	tag  string
	data interface{}
}

type bad struct{}

// sval is a string.  b != nil means (possibly) symbolic bytes.
type sval struct {
	s string
	b []*Term
}

func mkStr(s string) sval { return sval{s: s} }

func mkStrBytes(b []*Term) sval {
	allc := true
	for _, x := range b {
		if !x.IsConst() {
			allc = false
			break
		}
	}
	if allc {
		bs := make([]byte, len(b))
		for i, x := range b {
			bs[i] = byte(x.Val)
		}
		return sval{s: string(bs)}
	}
	if b == nil {
		b = []*Term{}
	}
	return sval{b: b}
}

func (x sval) Len() int {
	if x.b != nil {
		return len(x.b)
	}
	return len(x.s)
}

func (x sval) concrete() (string, bool) {
	if x.b == nil {
		return x.s, true
	}
	return "", false
}

func (x sval) bytes() []*Term {
	if x.b != nil {
		return x.b
	}
	r := make([]*Term, len(x.s))
	for i := 0; i < len(x.s); i++ {
		r[i] = mkBV(8, uint64(x.s[i]))
	}
	return r
}

func (x sval) at(i int) *Term {
	if x.b != nil {
		return x.b[i]
	}
	return mkBV(8, uint64(x.s[i]))
}

func (x sval) sub(lo, hi int) sval {
	if x.b != nil {
		return mkStrBytes(x.b[lo:hi:hi])
	}
	return sval{s: x.s[lo:hi]}
}

func strConcat(x, y sval) sval {
	if x.b == nil && y.b == nil {
		return sval{s: x.s + y.s}
	}
	b := append(append([]*Term{}, x.bytes()...), y.bytes()...)
	return mkStrBytes(b)
}

func strEq(x, y sval) *Term {
	if x.Len() != y.Len() {
		return tFalse
	}
	if x.b == nil && y.b == nil {
		return mkBool(x.s == y.s)
	}
	r := tTrue
	for i := 0; i < x.Len(); i++ {
		r = mkAnd(r, mkEq(x.at(i), y.at(i)))
		if r.isFalse() {
			return r
		}
	}
	return r
}

// strLess: lexicographic x < y.
func strLess(x, y sval) *Term {
	if x.b == nil && y.b == nil {
		return mkBool(x.s < y.s)
	}
	n := x.Len()
	if y.Len() < n {
		n = y.Len()
	}
	// from the back: less_i = x[i]<y[i] || (x[i]==y[i] && less_{i+1})
	r := mkBool(x.Len() < y.Len())
	for i := n - 1; i >= 0; i-- {
		r = mkOr(bvCmp("bvult", x.at(i), y.at(i)), mkAnd(mkEq(x.at(i), y.at(i)), r))
	}
	return r
}

func (x sval) String() string {
	if x.b == nil {
		return fmt.Sprintf("%q", x.s)
	}
	var sb strings.Builder
	sb.WriteString("sym\"")
	for _, t := range x.b {
		if t.IsConst() {
			fmt.Fprintf(&sb, "%s", string(rune(t.Val)))
		} else {
			sb.WriteString("?")
		}
	}
	sb.WriteString("\"")
	return sb.String()
}

// ---------------------------------------------------------------- types

func intInfo(t types.Type) (w int, signed bool, ok bool) {
	b, isb := t.Underlying().(*types.Basic)
	if !isb {
		return 0, false, false
	}
	switch b.Kind() {
	case types.Int, types.Int64, types.UntypedInt:
		return 64, true, true
	case types.Int8:
		return 8, true, true
	case types.Int16:
		return 16, true, true
	case types.Int32, types.UntypedRune:
		return 32, true, true
	case types.Uint, types.Uint64, types.Uintptr:
		return 64, false, true
	case types.Uint8:
		return 8, false, true
	case types.Uint16:
		return 16, false, true
	case types.Uint32:
		return 32, false, true
	}
	return 0, false, false
}

func isFloat(t types.Type) bool {
	b, ok := t.Underlying().(*types.Basic)
	return ok && b.Info()&types.IsFloat != 0
}

func isString(t types.Type) bool {
	b, ok := t.Underlying().(*types.Basic)
	return ok && b.Info()&types.IsString != 0
}

func isBoolean(t types.Type) bool {
	b, ok := t.Underlying().(*types.Basic)
	return ok && b.Info()&types.IsBoolean != 0
}

func deref(t types.Type) types.Type {
	if p, ok := t.Underlying().(*types.Pointer); ok {
		return p.Elem()
	}
	panic(engineError{"deref of non-pointer type " + t.String()})
}

// zero returns the zero value of type t.
func zero(t types.Type) value {
	switch t := t.(type) {
	case *types.Basic:
		if t.Kind() == types.UntypedNil {
			panic(engineError{"untyped nil has no zero value"})
		}
		if t.Info()&types.IsUntyped != 0 {
			t = types.Default(t).(*types.Basic)
		}
		switch {
		case t.Info()&types.IsBoolean != 0:
			return tFalse
		case t.Info()&types.IsInteger != 0:
			w, _, _ := intInfo(t)
			return mkBV(w, 0)
		case t.Info()&types.IsFloat != 0:
			return fval(0)
		case t.Info()&types.IsString != 0:
			return sval{}
		case t.Kind() == types.UnsafePointer:
			return (*value)(nil)
		case t.Info()&types.IsComplex != 0:
			return &opaque{tag: "complex"}
		}
		panic(engineError{"zero: unsupported basic type " + t.String()})
	case *types.Pointer:
		return (*value)(nil)
	case *types.Array:
		a := make(array, t.Len())
		for i := range a {
			a[i] = zero(t.Elem())
		}
		return a
	case *types.Named:
		return zero(t.Underlying())
	case *types.Alias:
		return zero(types.Unalias(t))
	case *types.Interface:
		return iface{}
	case *types.Slice:
		return []value(nil)
	case *types.Struct:
		s := make(structure, t.NumFields())
		for i := range s {
			s[i] = zero(t.Field(i).Type())
		}
		return s
	case *types.Tuple:
		if t.Len() == 1 {
			return zero(t.At(0).Type())
		}
		s := make(tuple, t.Len())
		for i := range s {
			s[i] = zero(t.At(i).Type())
		}
		return s
	case *types.Chan:
		return &opaque{tag: "nilchan"}
	case *types.Map:
		return (*smap)(nil)
	case *types.Signature:
		return (*ssa.Function)(nil)
	case *types.TypeParam:
		panic(engineError{"zero of type parameter"})
	}
	panic(engineError{fmt.Sprintf("zero: unexpected type %T %v", t, t)})
}

// load returns a copy of the value of type T in *addr.
func load(T types.Type, addr *value) value {
	return copyVal(*addr)
}

// copyVal copies aggregates (value semantics of arrays and structs).
func copyVal(v value) value {
	switch v := v.(type) {
	case structure:
		a := make(structure, len(v))
		for i := range a {
			a[i] = copyVal(v[i])
		}
		return a
	case array:
		a := make(array, len(v))
		for i := range a {
			a[i] = copyVal(v[i])
		}
		return a
	}
	return v
}

// store stores v into *addr, keeping the identity of sub-cells (pointers to
// fields/elements stay valid).
func store(addr *value, v value) {
	switch rhs := v.(type) {
	case structure:
		lhs, ok := (*addr).(structure)
		if !ok || len(lhs) != len(rhs) {
			*addr = copyVal(v)
			return
		}
		for i := range lhs {
			store(&lhs[i], rhs[i])
		}
	case array:
		lhs, ok := (*addr).(array)
		if !ok || len(lhs) != len(rhs) {
			*addr = copyVal(v)
			return
		}
		for i := range lhs {
			store(&lhs[i], rhs[i])
		}
	default:
		*addr = v
	}
}

func sameType(x, y types.Type) bool {
	if x == nil {
		return y == nil
	}
	return y != nil && types.Identical(x, y)
}

// equalsT returns the Bool term for x == y at static type t.
func equalsT(t types.Type, x, y value) *Term {
	switch x := x.(type) {
	case *Term:
		return mkEq(x, y.(*Term))
	case fval:
		if yy, ok := y.(fval); ok {
			return mkBool(x == yy)
		}
		return fEq(x, y)
	case *fsym:
		return fEq(x, y)
	case sval:
		return strEq(x, y.(sval))
	case *value:
		return mkBool(x == y.(*value))
	case *opaque:
		yy, ok := y.(*opaque)
		return mkBool(ok && x == yy)
	case structure:
		y := y.(structure)
		r := tTrue
		var st *types.Struct
		if t != nil {
			st, _ = t.Underlying().(*types.Struct)
		}
		for i := range x {
			var ft types.Type
			if st != nil {
				if st.Field(i).Name() == "_" {
					continue
				}
				ft = st.Field(i).Type()
			}
			r = mkAnd(r, equalsT(ft, x[i], y[i]))
			if r.isFalse() {
				return r
			}
		}
		return r
	case array:
		y := y.(array)
		var et types.Type
		if t != nil {
			if at, ok := t.Underlying().(*types.Array); ok {
				et = at.Elem()
			}
		}
		r := tTrue
		for i := range x {
			r = mkAnd(r, equalsT(et, x[i], y[i]))
			if r.isFalse() {
				return r
			}
		}
		return r
	case iface:
		y := y.(iface)
		if !sameType(x.t, y.t) {
			return tFalse
		}
		if x.t == nil {
			return tTrue
		}
		switch x.t.Underlying().(type) {
		case *types.Slice, *types.Map, *types.Signature:
			panic(runtimePanic("comparing uncomparable type " + x.t.String()))
		}
		return equalsT(x.t, x.v, y.v)
	case *smap:
		yy, _ := y.(*smap)
		return mkBool(x == yy)
	}
	panic(engineError{fmt.Sprintf("equalsT: comparing uncomparable %T (type %v)", x, t)})
}

// isNilValue reports whether v is the nil value of a nillable type.
func isNilValue(v value) bool {
	switch v := v.(type) {
	case *value:
		return v == nil
	case []value:
		return v == nil
	case *smap:
		return v == nil
	case iface:
		return v.t == nil
	case *ssa.Function:
		return v == nil
	case *closure:
		return v == nil
	case *opaque:
		return v == nil || v.tag == "nilchan"
	}
	return false
}

func toString(v value) string {
	var sb strings.Builder
	writeValue(&sb, v, 0)
	return sb.String()
}

func writeValue(sb *strings.Builder, v value, depth int) {
	if depth > 4 {
		sb.WriteString("…")
		return
	}
	switch v := v.(type) {
	case nil:
		sb.WriteString("<nil>")
	case *Term:
		if v.IsConst() {
			if v.S.K == sBool {
				fmt.Fprintf(sb, "%v", v.Val == 1)
			} else {
				fmt.Fprintf(sb, "%d", v.Val)
			}
		} else {
			sb.WriteString(v.String())
		}
	case fval:
		fmt.Fprintf(sb, "%v", float64(v))
	case sval:
		sb.WriteString(v.String())
	case *value:
		if v == nil {
			sb.WriteString("nil")
		} else {
			fmt.Fprintf(sb, "&")
			writeValue(sb, *v, depth+1)
		}
	case iface:
		if v.t == nil {
			sb.WriteString("nil-iface")
		} else {
			fmt.Fprintf(sb, "(%s) ", v.t)
			writeValue(sb, v.v, depth+1)
		}
	case structure:
		sb.WriteString("{")
		for i, e := range v {
			if i > 0 {
				sb.WriteString(" ")
			}
			writeValue(sb, e, depth+1)
		}
		sb.WriteString("}")
	case array:
		sb.WriteString("[")
		for i, e := range v {
			if i > 0 {
				sb.WriteString(" ")
			}
			writeValue(sb, e, depth+1)
		}
		sb.WriteString("]")
	case []value:
		sb.WriteString("[")
		for i, e := range v {
			if i > 0 {
				sb.WriteString(" ")
			}
			if i > 16 {
				sb.WriteString("…")
				break
			}
			writeValue(sb, e, depth+1)
		}
		sb.WriteString("]")
	case tuple:
		sb.WriteString("(")
		for i, e := range v {
			if i > 0 {
				sb.WriteString(", ")
			}
			writeValue(sb, e, depth+1)
		}
		sb.WriteString(")")
	case *smap:
		if v == nil {
			sb.WriteString("nil-map")
		} else {
			fmt.Fprintf(sb, "map[%d entries]", v.len())
		}
	case *ssa.Function:
		if v == nil {
			sb.WriteString("nil-func")
		} else {
			sb.WriteString(v.String())
		}
	case *closure:
		sb.WriteString("closure:" + v.Fn.String())
	case *opaque:
		sb.WriteString("opaque:" + v.tag)
	default:
		fmt.Fprintf(sb, "<%T>", v)
	}
}
