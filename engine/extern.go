package main

// Engine intrinsics: the harness API (vNondet…, vAssume, vAssert, …), bounded
// summaries of string/byte primitives over possibly-symbolic bytes, and
// emulations of functions that have no interpretable body.

import (
	"fmt"
	"go/token"
	"go/types"
	"math"
	"math/big"
	"path/filepath"
	"regexp"
	"sort"
	"strconv"
	"strings"

	"golang.org/x/tools/go/ssa"
)

type externalFn func(fr *frame, args []value) value

var intrinsics = map[string]externalFn{}

// apiIntrinsics are looked up by bare function name inside the harness package.
var apiIntrinsics = map[string]externalFn{}

func concreteString(v value, what string) string {
	s, ok := v.(sval).concrete()
	if !ok {
		panic(engineError{what + " must be a concrete string"})
	}
	return s
}

func concreteInt(v value, what string) int {
	t := v.(*Term)
	if !t.IsConst() {
		panic(engineError{what + " must be a concrete integer"})
	}
	return int(t.sval())
}

func bytesOf(v value) []*Term {
	switch v := v.(type) {
	case sval:
		return v.bytes()
	case []value:
		r := make([]*Term, len(v))
		for i, e := range v {
			r[i] = e.(*Term)
		}
		return r
	}
	panic(engineError{fmt.Sprintf("bytesOf %T", v)})
}

func toSlice(b []*Term) []value {
	r := make([]value, len(b))
	for i, t := range b {
		r[i] = t
	}
	return r
}

func bytesEqTerm(a, b []*Term) *Term {
	if len(a) != len(b) {
		return tFalse
	}
	r := tTrue
	for i := range a {
		r = mkAnd(r, mkEq(a[i], b[i]))
		if r.isFalse() {
			return r
		}
	}
	return r
}

func init() {
	nondet := func(kind string, w int) externalFn {
		return func(fr *frame, args []value) value {
			name := concreteString(args[0], "nondet name")
			if w == 0 {
				return fr.r.fresh(name, kind, boolSort)
			}
			return fr.r.fresh(name, kind, bvSort(w))
		}
	}
	apiIntrinsics["vNondetBool"] = nondet("bool", 0)
	apiIntrinsics["vNondetU8"] = nondet("u8", 8)
	apiIntrinsics["vNondetU16"] = nondet("u16", 16)
	apiIntrinsics["vNondetU32"] = nondet("u32", 32)
	apiIntrinsics["vNondetU64"] = nondet("u64", 64)
	apiIntrinsics["vNondetI64"] = nondet("i64", 64)
	apiIntrinsics["vNondetInt"] = nondet("i64", 64)
	apiIntrinsics["vNondetBytes"] = func(fr *frame, args []value) value {
		name := concreteString(args[0], "nondet name")
		n := concreteInt(args[1], "vNondetBytes length")
		res := make([]value, n)
		for i := range res {
			res[i] = fr.r.fresh(fmt.Sprintf("%s_%d", name, i), "u8", bvSort(8))
		}
		return res
	}
	apiIntrinsics["vNondetString"] = func(fr *frame, args []value) value {
		name := concreteString(args[0], "nondet name")
		n := concreteInt(args[1], "vNondetString length")
		b := make([]*Term, n)
		for i := range b {
			b[i] = fr.r.fresh(fmt.Sprintf("%s_%d", name, i), "u8", bvSort(8))
		}
		return mkStrBytes(b)
	}
	apiIntrinsics["vAssume"] = func(fr *frame, args []value) value {
		c := args[0].(*Term)
		if c.IsConst() {
			if c.Val == 0 {
				panic(pathEnd{"assume false"})
			}
			return nil
		}
		if !fr.r.feasibleForAssume(c) {
			panic(pathEnd{"assume infeasible"})
		}
		fr.r.assume(c)
		return nil
	}
	apiIntrinsics["vAssert"] = func(fr *frame, args []value) value {
		label := concreteString(args[1], "assert label")
		fr.r.obligation("assert", label, args[0].(*Term))
		return nil
	}
	apiIntrinsics["vCover"] = func(fr *frame, args []value) value {
		fr.r.cover(concreteString(args[1], "cover label"), args[0].(*Term))
		return nil
	}
	apiIntrinsics["vReach"] = func(fr *frame, args []value) value {
		fr.r.cover(concreteString(args[0], "reach label"), tTrue)
		return nil
	}
	apiIntrinsics["vChoose"] = func(fr *frame, args []value) value {
		n := concreteInt(args[0], "vChoose n")
		name := concreteString(args[1], "vChoose name")
		k := fr.r.chooseFree(n, name)
		fr.r.nondets = append(fr.r.nondets, nondetRec{Name: name, Kind: "choose", Value: fmt.Sprint(k)})
		return mkBV(64, uint64(k))
	}
	apiIntrinsics["vAnd"] = func(fr *frame, args []value) value { return mkAnd(args[0].(*Term), args[1].(*Term)) }
	apiIntrinsics["vOr"] = func(fr *frame, args []value) value { return mkOr(args[0].(*Term), args[1].(*Term)) }
	apiIntrinsics["vNot"] = func(fr *frame, args []value) value { return mkNot(args[0].(*Term)) }
	apiIntrinsics["vImplies"] = func(fr *frame, args []value) value {
		return mkImplies(args[0].(*Term), args[1].(*Term))
	}
	apiIntrinsics["vIff"] = func(fr *frame, args []value) value { return mkEq(args[0].(*Term), args[1].(*Term)) }
	apiIntrinsics["vIteU8"] = func(fr *frame, args []value) value {
		return mkIte(args[0].(*Term), args[1].(*Term), args[2].(*Term))
	}
	apiIntrinsics["vIteInt"] = apiIntrinsics["vIteU8"]
	apiIntrinsics["vEqBytes"] = func(fr *frame, args []value) value {
		return bytesEqTerm(bytesOf(args[0]), bytesOf(args[1]))
	}
	apiIntrinsics["vEqString"] = func(fr *frame, args []value) value {
		return strEq(args[0].(sval), args[1].(sval))
	}
	// vProvable(c): true iff the path condition implies c (one validity
	// query, no fork).  Natively: c itself.
	apiIntrinsics["vProvable"] = func(fr *frame, args []value) value {
		c := args[0].(*Term)
		if c.IsConst() {
			return c
		}
		if fr.r.feasibleAll(c) {
			return mkBool(true)
		}
		return mkBool(false)
	}
	// vRetype(v, proto): v with the dynamic type of proto when both are
	// pointers to types with identical underlying types (a local
	// `type plain T` alias used inside an UnmarshalJSON hook), else nil.
	apiIntrinsics["vRetype"] = func(fr *frame, args []value) value {
		v, p := args[0].(iface), args[1].(iface)
		if v.t == nil || p.t == nil {
			return iface{}
		}
		vp, ok1 := v.t.Underlying().(*types.Pointer)
		pp, ok2 := p.t.Underlying().(*types.Pointer)
		if !ok1 || !ok2 || !types.Identical(vp.Elem().Underlying(), pp.Elem().Underlying()) {
			return iface{}
		}
		return iface{t: p.t, v: v.v}
	}
	// vFreeze(label, xs...): everything reachable from the xs (slice
	// elements, pointees, struct fields, maps; depth 5) becomes read-only:
	// a later write is a violation of obligation <label>.  vThaw() ends it.
	// Natively: a deep snapshot, compared by vCheckFrozen().
	apiIntrinsics["vFreeze"] = func(fr *frame, args []value) value {
		label := concreteString(args[0], "label")
		var walk func(v value, depth int)
		walk = func(v value, depth int) {
			if depth > 5 {
				return
			}
			switch x := v.(type) {
			case iface:
				walk(x.v, depth)
			case []value:
				full := x[:cap(x)]
				for i := range full {
					fr.r.frozen[&full[i]] = label
					if i < len(x) {
						walk(x[i], depth+1)
					}
				}
			case *value:
				if x != nil {
					if _, seen := fr.r.frozen[x]; seen {
						return
					}
					fr.r.frozen[x] = label
					walk(*x, depth+1)
				}
			case structure:
				for i := range x {
					fr.r.frozen[&x[i]] = label
					walk(x[i], depth+1)
				}
			case array:
				for i := range x {
					fr.r.frozen[&x[i]] = label
					walk(x[i], depth+1)
				}
			case *smap:
				if x != nil {
					fr.r.frozenMap[x] = label
				}
			}
		}
		if vs, ok := args[1].([]value); ok {
			for _, v := range vs {
				walk(v, 0)
			}
		}
		return nil
	}
	apiIntrinsics["vThaw"] = func(fr *frame, args []value) value {
		fr.r.frozen = map[*value]string{}
		fr.r.frozenMap = map[*smap]string{}
		return nil
	}
	apiIntrinsics["vCheckFrozen"] = func(fr *frame, args []value) value { return nil }
	// vSetField(ptr, name, v): assign v to the named field of the struct
	// behind ptr, converting between integer widths the way a weakly typed
	// configuration decoder does (truncation); false if there is no such field.
	apiIntrinsics["vSetField"] = func(fr *frame, args []value) value {
		x, ok := args[0].(iface)
		if !ok || x.t == nil {
			return tFalse
		}
		pt, ok := x.t.Underlying().(*types.Pointer)
		if !ok {
			return tFalse
		}
		st, ok := pt.Elem().Underlying().(*types.Struct)
		cell := ptrOf(x)
		if !ok || cell == nil {
			return tFalse
		}
		fields, ok := (*cell).(structure)
		if !ok {
			return tFalse
		}
		name := concreteString(args[1], "field name")
		for i := 0; i < st.NumFields() && i < len(fields); i++ {
			if st.Field(i).Name() != name {
				continue
			}
			v := args[2].(iface)
			val := v.v
			if t, isTerm := val.(*Term); isTerm && v.t != nil {
				if _, _, isInt := intInfo(st.Field(i).Type()); isInt {
					val = fr.r.conv(st.Field(i).Type(), v.t, t)
				}
			}
			fr.r.storeTo(&fields[i], val)
			return tTrue
		}
		return tFalse
	}
	apiIntrinsics["vFact"] = func(fr *frame, args []value) value {
		fr.r.facts[concreteString(args[0], "fact key")] = toStringPlain(args[1])
		return nil
	}
	apiIntrinsics["vMapOrderAll"] = func(fr *frame, args []value) value {
		fr.r.mapOrderAll = true
		return nil
	}
	apiIntrinsics["vAllocWatch"] = func(fr *frame, args []value) value {
		fr.r.allocWatch = true
		return nil
	}
	apiIntrinsics["vMaxLen"] = func(fr *frame, args []value) value {
		fr.r.maxLen = concreteInt(args[0], "vMaxLen")
		return nil
	}
	apiIntrinsics["vPick"] = func(fr *frame, args []value) value {
		t := args[0].(*Term)
		lo := concreteInt(args[1], "vPick lo")
		hi := concreteInt(args[2], "vPick hi")
		return mkBV(t.S.W, uint64(fr.r.concretize(t, lo, hi+1)))
	}
	apiIntrinsics["vIsNative"] = func(fr *frame, args []value) value { return tFalse }
	apiIntrinsics["vIsSymbolic"] = func(fr *frame, args []value) value {
		return mkBool(!args[0].(*Term).IsConst())
	}
	apiIntrinsics["vOpaque"] = func(fr *frame, args []value) value {
		return &opaque{tag: concreteString(args[0], "opaque tag")}
	}
	apiIntrinsics["vNote"] = func(fr *frame, args []value) value {
		fr.r.note("%s", concreteString(args[0], "note"))
		return nil
	}
	// vCatch(f) runs f and reports whether it panicked (for "never crashes"
	// clauses that want to continue afterwards).
	apiIntrinsics["vCatch"] = func(fr *frame, args []value) (res value) {
		panicked := false
		func() {
			defer func() {
				if p := recover(); p != nil {
					if tp, ok := p.(targetPanic); ok {
						panicked = true
						fr.r.facts["panic"] = tp.String()
						return
					}
					panic(p)
				}
			}()
			fr.r.call(fr, token.NoPos, args[0], nil)
		}()
		return mkBool(panicked)
	}

	// ------------------------------------------------------------ bytes / strings
	intrinsics["bytes.Equal"] = func(fr *frame, args []value) value {
		return bytesEqTerm(bytesOf(args[0]), bytesOf(args[1]))
	}
	intrinsics["internal/bytealg.Equal"] = intrinsics["bytes.Equal"]
	indexByte := func(fr *frame, args []value) value {
		b := bytesOf(args[0])
		c := args[1].(*Term)
		for i, x := range b {
			if fr.r.branch(mkEq(x, c)) {
				return mkBV(64, uint64(i))
			}
		}
		return mkBV(64, ^uint64(0))
	}
	intrinsics["bytes.IndexByte"] = indexByte
	intrinsics["strings.IndexByte"] = indexByte
	intrinsics["internal/bytealg.IndexByte"] = indexByte
	intrinsics["internal/bytealg.IndexByteString"] = indexByte
	intrinsics["internal/stringslite.IndexByte"] = indexByte
	index := func(fr *frame, args []value) value {
		s := bytesOf(args[0])
		sep := bytesOf(args[1])
		m := len(sep)
		for i := 0; i+m <= len(s); i++ {
			if fr.r.branch(bytesEqTerm(s[i:i+m], sep)) {
				return mkBV(64, uint64(i))
			}
		}
		return mkBV(64, ^uint64(0))
	}
	intrinsics["strings.Index"] = index
	intrinsics["bytes.Index"] = index
	intrinsics["internal/bytealg.Index"] = index
	intrinsics["internal/bytealg.IndexString"] = index
	intrinsics["internal/stringslite.Index"] = index
	intrinsics["strings.Contains"] = func(fr *frame, args []value) value {
		s := bytesOf(args[0])
		sep := bytesOf(args[1])
		m := len(sep)
		r := tFalse
		for i := 0; i+m <= len(s); i++ {
			r = mkOr(r, bytesEqTerm(s[i:i+m], sep))
		}
		return r
	}
	intrinsics["bytes.Contains"] = intrinsics["strings.Contains"]
	count := func(fr *frame, args []value) value {
		if a, ok := args[0].(sval); ok {
			if b, ok2 := args[1].(sval); ok2 {
				if ca, c1 := a.concrete(); c1 {
					if cb, c2 := b.concrete(); c2 {
						return mkBV(64, uint64(int64(strings.Count(ca, cb))))
					}
				}
			}
		}
		s := bytesOf(args[0])
		sep := bytesOf(args[1])
		m := len(sep)
		if m == 0 {
			// utf8.RuneCountInString(s)+1 — ASCII assumption for symbolic bytes
			return mkBV(64, uint64(len(s)+1))
		}
		n := 0
		for i := 0; i+m <= len(s); {
			if fr.r.branch(bytesEqTerm(s[i:i+m], sep)) {
				n++
				i += m
			} else {
				i++
			}
		}
		return mkBV(64, uint64(n))
	}
	intrinsics["strings.Count"] = count
	intrinsics["bytes.Count"] = count
	countByte := func(fr *frame, args []value) value {
		s := bytesOf(args[0])
		c := args[1].(*Term)
		n := 0
		for _, x := range s {
			if fr.r.branch(mkEq(x, c)) {
				n++
			}
		}
		return mkBV(64, uint64(n))
	}
	intrinsics["internal/bytealg.Count"] = countByte
	intrinsics["internal/bytealg.CountString"] = countByte
	intrinsics["internal/bytealg.MakeNoZero"] = func(fr *frame, args []value) value {
		n := concreteInt(args[0], "MakeNoZero")
		res := make([]value, n)
		for i := range res {
			res[i] = mkBV(8, 0)
		}
		return res
	}
	intrinsics["strings.Clone"] = func(fr *frame, args []value) value { return args[0] }
	intrinsics["internal/stringslite.Clone"] = intrinsics["strings.Clone"]
	intrinsics["strings.ToLower"] = func(fr *frame, args []value) value {
		s := args[0].(sval)
		if c, ok := s.concrete(); ok {
			return mkStr(strings.ToLower(c))
		}
		b := s.bytes()
		out := make([]*Term, len(b))
		for i, x := range b {
			if !x.IsConst() {
				fr.r.assume(bvCmp("bvult", x, mkBV(8, 0x80)))
				fr.r.note("strings.ToLower over symbolic bytes assumes ASCII")
			}
			isUp := mkAnd(bvCmp("bvuge", x, mkBV(8, 'A')), bvCmp("bvule", x, mkBV(8, 'Z')))
			out[i] = mkIte(isUp, bvBin("bvadd", x, mkBV(8, 32)), x)
		}
		return mkStrBytes(out)
	}
	// strings.Compare / bytes.Compare / cmp.Compare on strings: -1, 0, +1
	compare := func(a, b sval) value {
		lt, gt := strLess(a, b), strLess(b, a)
		return mkIte(lt, mkBV(64, ^uint64(0)), mkIte(gt, mkBV(64, 1), mkBV(64, 0)))
	}
	intrinsics["strings.Compare"] = func(fr *frame, args []value) value {
		return compare(args[0].(sval), args[1].(sval))
	}
	intrinsics["internal/bytealg.CompareString"] = intrinsics["strings.Compare"]
	intrinsics["bytes.Compare"] = func(fr *frame, args []value) value {
		return compare(mkStrBytes(bytesOf(args[0])), mkStrBytes(bytesOf(args[1])))
	}
	intrinsics["internal/bytealg.Compare"] = intrinsics["bytes.Compare"]
	intrinsics["strings.EqualFold"] = func(fr *frame, args []value) value {
		a, b := args[0].(sval), args[1].(sval)
		ca, ok1 := a.concrete()
		cb, ok2 := b.concrete()
		if ok1 && ok2 {
			return mkBool(strings.EqualFold(ca, cb))
		}
		la := intrinsics["strings.ToLower"](fr, []value{a}).(sval)
		lb := intrinsics["strings.ToLower"](fr, []value{b}).(sval)
		return strEq(la, lb)
	}

	// bytes.EqualFold: ASCII case folding byte by byte (bytes >= 0x80 must be
	// equal: an under-approximation of Unicode folding, recorded as a note)
	intrinsics["bytes.EqualFold"] = func(fr *frame, args []value) value {
		a, b := bytesOf(args[0]), bytesOf(args[1])
		if len(a) != len(b) {
			fr.r.note("bytes.EqualFold on slices of different length treated as unequal (ASCII model)")
			return tFalse
		}
		fold := func(x *Term) *Term {
			isUp := mkAnd(bvCmp("bvuge", x, mkBV(8, 'A')), bvCmp("bvule", x, mkBV(8, 'Z')))
			return mkIte(isUp, bvBin("bvadd", x, mkBV(8, 32)), x)
		}
		res := tTrue
		for i := range a {
			res = mkAnd(res, mkEq(fold(a[i]), fold(b[i])))
		}
		fr.r.note("bytes.EqualFold modelled with ASCII case folding")
		return res
	}

	// strings.Builder (uses unsafe)
	builderBuf := func(args []value) *value {
		p := args[0].(*value)
		if p == nil {
			panic(runtimePanic("invalid memory address or nil pointer dereference"))
		}
		st := (*p).(structure)
		return &st[1]
	}
	intrinsics["(*strings.Builder).String"] = func(fr *frame, args []value) value {
		buf, _ := (*builderBuf(args)).([]value)
		return mkStrBytes(bytesOf(buf))
	}
	intrinsics["(*strings.Builder).Len"] = func(fr *frame, args []value) value {
		buf, _ := (*builderBuf(args)).([]value)
		return mkBV(64, uint64(len(buf)))
	}
	intrinsics["(*strings.Builder).Cap"] = intrinsics["(*strings.Builder).Len"]
	intrinsics["(*strings.Builder).Reset"] = func(fr *frame, args []value) value {
		*builderBuf(args) = []value(nil)
		return nil
	}
	intrinsics["(*strings.Builder).Grow"] = func(fr *frame, args []value) value { return nil }
	intrinsics["(*strings.Builder).grow"] = func(fr *frame, args []value) value { return nil }
	intrinsics["(*strings.Builder).copyCheck"] = func(fr *frame, args []value) value { return nil }
	bwrite := func(fr *frame, args []value) value {
		bp := builderBuf(args)
		buf, _ := (*bp).([]value)
		add := bytesOf(args[1])
		*bp = append(buf, toSlice(add)...)
		return tuple{mkBV(64, uint64(len(add))), iface{}}
	}
	intrinsics["(*strings.Builder).WriteString"] = bwrite
	intrinsics["(*strings.Builder).Write"] = bwrite
	intrinsics["(*strings.Builder).WriteByte"] = func(fr *frame, args []value) value {
		bp := builderBuf(args)
		buf, _ := (*bp).([]value)
		*bp = append(buf, args[1])
		return iface{}
	}
	intrinsics["(*strings.Builder).WriteRune"] = func(fr *frame, args []value) value {
		bp := builderBuf(args)
		buf, _ := (*bp).([]value)
		t := args[1].(*Term)
		if !t.IsConst() {
			fr.r.assume(bvCmp("bvult", t, mkBV(32, 0x80)))
			*bp = append(buf, bvResize(t, 8, false))
			return tuple{mkBV(64, 1), iface{}}
		}
		s := string(rune(t.sval()))
		*bp = append(buf, toSlice(mkStr(s).bytes())...)
		return tuple{mkBV(64, uint64(len(s))), iface{}}
	}

	// ------------------------------------------------------------ errors / fmt
	intrinsics["fmt.Sprintf"] = func(fr *frame, args []value) value {
		return fr.r.sprintf(fr, args[0].(sval), args[1].([]value))
	}
	intrinsics["fmt.Errorf"] = func(fr *frame, args []value) value {
		msg := fr.r.sprintf(fr, args[0].(sval), args[1].([]value))
		return fr.r.newError(msg)
	}
	intrinsics["fmt.Sprint"] = func(fr *frame, args []value) value {
		var out sval
		for _, a := range args[0].([]value) {
			out = strConcat(out, fr.r.fmtArg(fr, 'v', a.(iface)))
		}
		return out
	}
	intrinsics["fmt.Sprintln"] = func(fr *frame, args []value) value {
		var out sval
		for i, a := range args[0].([]value) {
			if i > 0 {
				out = strConcat(out, mkStr(" "))
			}
			out = strConcat(out, fr.r.fmtArg(fr, 'v', a.(iface)))
		}
		return strConcat(out, mkStr("\n"))
	}
	noop := func(fr *frame, args []value) value { return zeroResult(fr.fn) }
	for _, n := range []string{"fmt.Println", "fmt.Printf", "fmt.Print", "fmt.Fprintf", "fmt.Fprintln", "fmt.Fprint"} {
		intrinsics[n] = noop
	}
	intrinsics["runtime/debug.Stack"] = func(fr *frame, args []value) value {
		return toSlice(mkStr("<stack>").bytes())
	}
	intrinsics["runtime.KeepAlive"] = noop
	intrinsics["runtime.SetFinalizer"] = noop
	intrinsics["runtime.Gosched"] = noop
	intrinsics["time.Sleep"] = noop
	intrinsics["errors.Is"] = func(fr *frame, args []value) value {
		err := args[0].(iface)
		target := args[1].(iface)
		for depth := 0; depth < 8 && err.t != nil; depth++ {
			switch err.t.Underlying().(type) {
			case *types.Pointer, *types.Basic:
				if e := equalsT(nil, err, target); e.isTrue() {
					return tTrue
				}
			}
			m := fr.r.findMethod(err.t, "Unwrap")
			if m == nil {
				break
			}
			res := fr.r.call(fr, token.NoPos, m, []value{err.v})
			next, ok := res.(iface)
			if !ok {
				break
			}
			err = next
		}
		return tFalse
	}

	// ------------------------------------------------------------ sync / atomic
	lockEv := func(ev string) externalFn {
		return func(fr *frame, args []value) value {
			fr.r.waitFrom = fr.caller
			fr.r.syncEvent(ev, args[0])
			return nil
		}
	}
	intrinsics["(*sync.Mutex).Lock"] = lockEv("Lock")
	intrinsics["(*sync.Mutex).Unlock"] = lockEv("Unlock")
	intrinsics["(*sync.RWMutex).Lock"] = lockEv("Lock")
	intrinsics["(*sync.RWMutex).Unlock"] = lockEv("Unlock")
	intrinsics["(*sync.RWMutex).RLock"] = lockEv("RLock")
	intrinsics["(*sync.RWMutex).RUnlock"] = lockEv("RUnlock")
	intrinsics["(*sync.Cond).Wait"] = lockEv("CondWait")
	intrinsics["(*sync.Cond).Broadcast"] = lockEv("CondBroadcast")
	intrinsics["(*sync.Cond).Signal"] = lockEv("CondSignal")
	intrinsics["(*sync.Mutex).TryLock"] = func(fr *frame, args []value) value {
		fr.r.syncEvent("Lock", args[0])
		return tTrue
	}
	// sync.Pool, worst case for reuse: Get hands out the most recently Put
	// object (exactly as it was put back); New only when the pool is empty.
	poolNew := func(fr *frame, p *value) value {
		recv := fr.fn.Signature.Recv()
		if recv == nil {
			return iface{}
		}
		pt, ok := recv.Type().Underlying().(*types.Pointer)
		if !ok {
			return iface{}
		}
		st, ok := pt.Elem().Underlying().(*types.Struct)
		fields, ok2 := (*p).(structure)
		if !ok || !ok2 {
			return iface{}
		}
		for i := 0; i < st.NumFields() && i < len(fields); i++ {
			if st.Field(i).Name() == "New" {
				if fields[i] == nil {
					return iface{}
				}
				if c, isC := fields[i].(*closure); isC && c == nil {
					return iface{}
				}
				if f, isF := fields[i].(*ssa.Function); isF && f == nil {
					return iface{}
				}
				return fr.r.call(fr, token.NoPos, fields[i], nil)
			}
		}
		return iface{}
	}
	intrinsics["(*sync.Pool).Get"] = func(fr *frame, args []value) value {
		p := args[0].(*value)
		if q := fr.r.pools[p]; len(q) > 0 {
			v := q[len(q)-1]
			fr.r.pools[p] = q[:len(q)-1]
			fr.r.markPooled(v, false)
			return v
		}
		return poolNew(fr, p)
	}
	intrinsics["(*sync.Pool).Put"] = func(fr *frame, args []value) value {
		p := args[0].(*value)
		if x, ok := args[1].(iface); ok && x.t == nil {
			return nil
		}
		fr.r.pools[p] = append(fr.r.pools[p], args[1])
		if fr.r.poolStrict {
			fr.r.markPooled(args[1], true)
		}
		return nil
	}
	intrinsics["(*sync.Once).Do"] = func(fr *frame, args []value) value {
		p := args[0].(*value)
		st := (*p).(structure)
		// field 0: done (atomic.Uint32 or uint32 depending on version)
		if fr.r.onceDone[p] {
			return nil
		}
		fr.r.onceDone[p] = true
		_ = st
		// what runs under a Once happens before every return of Do: for the
		// lock-set view of the traces it is initialisation, not a shared access
		saved := fr.r.tracing
		fr.r.tracing = false
		defer func() { fr.r.tracing = saved }()
		fr.r.call(fr, token.NoPos, args[1], nil)
		return nil
	}
	for _, w := range []string{"Int32", "Int64", "Uint32", "Uint64", "Uintptr"} {
		intrinsics["sync/atomic.Load"+w] = func(fr *frame, args []value) value { return fr.r.loadFrom(args[0]) }
		intrinsics["sync/atomic.Store"+w] = func(fr *frame, args []value) value {
			fr.r.storeTo(args[0], args[1])
			return nil
		}
		intrinsics["sync/atomic.Add"+w] = func(fr *frame, args []value) value {
			nv := bvBin("bvadd", fr.r.loadFrom(args[0]).(*Term), args[1].(*Term))
			fr.r.storeTo(args[0], nv)
			return nv
		}
		intrinsics["sync/atomic.Swap"+w] = func(fr *frame, args []value) value {
			old := fr.r.loadFrom(args[0])
			fr.r.storeTo(args[0], args[1])
			return old
		}
		intrinsics["sync/atomic.CompareAndSwap"+w] = func(fr *frame, args []value) value {
			old := fr.r.loadFrom(args[0]).(*Term)
			if fr.r.branch(mkEq(old, args[1].(*Term))) {
				fr.r.storeTo(args[0], args[2])
				return tTrue
			}
			return tFalse
		}
	}
	intrinsics["sync/atomic.LoadPointer"] = func(fr *frame, args []value) value { return fr.r.loadFrom(args[0]) }
	intrinsics["sync/atomic.StorePointer"] = func(fr *frame, args []value) value {
		fr.r.storeTo(args[0], args[1])
		return nil
	}
	intrinsics["sync/atomic.SwapPointer"] = func(fr *frame, args []value) value {
		old := fr.r.loadFrom(args[0])
		fr.r.storeTo(args[0], args[1])
		return old
	}
	intrinsics["sync/atomic.CompareAndSwapPointer"] = func(fr *frame, args []value) value {
		old := fr.r.loadFrom(args[0])
		po, _ := old.(*value)
		pe, _ := args[1].(*value)
		if po == pe {
			fr.r.storeTo(args[0], args[2])
			return tTrue
		}
		return tFalse
	}

	// atomic accesses are synchronised by definition: not recorded as shared
	// accesses of a trace (a package-level counter is not a data race)
	for name, f := range intrinsics {
		if strings.HasPrefix(name, "sync/atomic.") {
			f := f
			intrinsics[name] = func(fr *frame, args []value) value {
				saved := fr.r.tracing
				fr.r.tracing = false
				defer func() { fr.r.tracing = saved }()
				return f(fr, args)
			}
		}
	}

	// sort.Slice: identity permutation; the comparator is exercised once per
	// adjacent pair (stated model: order is not part of any property).
	intrinsics["sort.Slice"] = func(fr *frame, args []value) value {
		x := args[0].(iface)
		sl, _ := x.v.([]value)
		for i := 0; i+1 < len(sl); i++ {
			res := fr.r.call(fr, token.NoPos, args[1], []value{mkBV(64, uint64(i)), mkBV(64, uint64(i+1))})
			_ = res
		}
		fr.r.note("sort.Slice modelled as identity permutation (comparator exercised on adjacent pairs)")
		return nil
	}
	intrinsics["sort.SliceStable"] = intrinsics["sort.Slice"]
}

func toStringPlain(v value) string {
	switch v := v.(type) {
	case sval:
		if s, ok := v.concrete(); ok {
			return s
		}
		return v.String()
	case iface:
		return toStringPlain(v.v)
	}
	return toString(v)
}

// feasibleForAssume: an assumption that is infeasible ends the path silently.
func (r *run) feasibleForAssume(c *Term) bool {
	if r.pos < len(r.prefix) {
		return true // replaying: the suffix was feasible when recorded
	}
	return r.feasible(c)
}

func (r *run) findMethod(t types.Type, name string) *ssa.Function {
	ms := r.eng.prog.MethodSets.MethodSet(t)
	for i := 0; i < ms.Len(); i++ {
		sel := ms.At(i)
		if sel.Obj().Name() == name {
			return r.eng.prog.MethodValue(sel)
		}
	}
	return nil
}

func (r *run) newError(msg sval) value {
	var cell value = structure{msg}
	return iface{t: r.eng.errorStringPtr, v: &cell}
}

// syncEvent logs lock/cond events into the harness-visible ghost log and
// flags self-deadlock / unlock-of-unlocked on the path.
func (r *run) syncEvent(ev string, obj value) {
	p, _ := obj.(*value)
	id := r.syncIDs[p]
	if id == 0 {
		id = len(r.syncIDs) + 1
		r.syncIDs[p] = id
	}
	if ev == "CondWait" {
		// a Wait returns only after a wake-up: when the same invocation waits
		// on the same condition variable again with no Broadcast / Signal in
		// between (a `for !flag { Wait() }` loop whose flag nobody set), it
		// blocks for good: the path ends there (what it did so far stands)
		for i := len(r.syncLog) - 1; i >= 0; i-- {
			e := r.syncLog[i]
			if e.ptr != p {
				continue
			}
			if e.ev == "CondBroadcast" || e.ev == "CondSignal" {
				break
			}
			if e.ev == "CondWait" && e.from != nil && e.from == r.waitFrom {
				r.facts["blocked"] = fmt.Sprintf("waits again on condition variable #%d that nobody signals", id)
				panic(pathEnd{"blocked in Cond.Wait"})
			}
		}
	}
	r.syncLog = append(r.syncLog, syncEv{ev: ev, obj: id, ptr: p, from: r.waitFrom})
	if r.tracing {
		switch ev {
		case "Lock":
			r.traceEvent("acqW:" + r.nameOf(p))
		case "RLock":
			r.traceEvent("acqR:" + r.nameOf(p))
		case "Unlock":
			r.traceEvent("relW:" + r.nameOf(p))
		case "RUnlock":
			r.traceEvent("relR:" + r.nameOf(p))
		}
	}
	switch ev {
	case "Lock":
		if r.held[p] != 0 {
			r.violation("deadlock", "no-self-deadlock", fmt.Sprintf("Lock of mutex #%d already held by this operation", id))
			panic(pathEnd{"deadlock"})
		}
		r.held[p] = 2
	case "RLock":
		if r.held[p] == 2 {
			r.violation("deadlock", "no-self-deadlock", fmt.Sprintf("RLock of mutex #%d write-held by this operation", id))
			panic(pathEnd{"deadlock"})
		}
		r.held[p] = 1
	case "Unlock":
		if r.held[p] != 2 {
			panic(targetPanic{runtime: true, msg: "fatal error: sync: unlock of unlocked mutex"})
		}
		r.held[p] = 0
	case "RUnlock":
		if r.held[p] != 1 {
			panic(targetPanic{runtime: true, msg: "fatal error: sync: RUnlock of unlocked RWMutex"})
		}
		r.held[p] = 0
	}
}

type syncEv struct {
	ev   string
	obj  int
	ptr  *value
	from *frame // CondWait: the invocation that waits
}

func init() {
	apiIntrinsics["vThorough"] = func(fr *frame, args []value) value { return mkBool(fr.r.eng.thorough) }
	apiIntrinsics["vSyncLog"] = func(fr *frame, args []value) value {
		var sb strings.Builder
		for _, e := range fr.r.syncLog {
			fmt.Fprintf(&sb, "%s#%d;", e.ev, e.obj)
		}
		return mkStr(sb.String())
	}
}

func init() {
	// vMapPutIf(m, key, val, present): m[key] = val exists only if present.
	apiIntrinsics["vMapPutIf"] = func(fr *frame, args []value) value {
		m := args[0].(iface).v.(*smap)
		key := args[1].(iface).v
		val := args[2]
		if mt, ok := args[0].(iface).t.Underlying().(*types.Map); ok {
			if _, isIface := mt.Elem().Underlying().(*types.Interface); !isIface {
				val = args[2].(iface).v
			}
		}
		p := args[3].(*Term)
		if p.isFalse() {
			return nil
		}
		m.insert(fr.r, key, val)
		if !p.isTrue() {
			m.entries[len(m.entries)-1].present = p
		}
		return nil
	}
	// vJSONFields(v): "GoName|jsonName|omitempty" for each exported field of
	// the struct (or pointer to struct) v, read from the loaded source's tags.
	apiIntrinsics["vJSONFields"] = func(fr *frame, args []value) value {
		t := args[0].(iface).t
		if p, ok := t.Underlying().(*types.Pointer); ok {
			t = p.Elem()
		}
		st, ok := t.Underlying().(*types.Struct)
		if !ok {
			panic(engineError{"vJSONFields: not a struct"})
		}
		var out []value
		for i := 0; i < st.NumFields(); i++ {
			f := st.Field(i)
			if !f.Exported() {
				continue
			}
			name, omit := f.Name(), false
			tag := reflectTag(st.Tag(i), "json")
			if tag == "-" {
				continue
			}
			parts := strings.Split(tag, ",")
			if parts[0] != "" {
				name = parts[0]
			}
			for _, o := range parts[1:] {
				if o == "omitempty" {
					omit = true
				}
			}
			out = append(out, mkStr(fmt.Sprintf("%s|%s|%v", f.Name(), name, omit)))
		}
		return out
	}
}

func reflectTag(tag, key string) string {
	// minimal reflect.StructTag.Get
	for tag != "" {
		i := 0
		for i < len(tag) && tag[i] == ' ' {
			i++
		}
		tag = tag[i:]
		if tag == "" {
			break
		}
		i = 0
		for i < len(tag) && tag[i] > ' ' && tag[i] != ':' && tag[i] != '"' {
			i++
		}
		if i == 0 || i+1 >= len(tag) || tag[i] != ':' || tag[i+1] != '"' {
			break
		}
		name := tag[:i]
		tag = tag[i+1:]
		i = 1
		for i < len(tag) && tag[i] != '"' {
			if tag[i] == '\\' {
				i++
			}
			i++
		}
		if i >= len(tag) {
			break
		}
		val := tag[1:i]
		tag = tag[i+1:]
		if name == key {
			return val
		}
	}
	return ""
}

func init() {
	avField := func(args []value) *value {
		p := args[0].(*value)
		if p == nil {
			panic(runtimePanic("invalid memory address or nil pointer dereference"))
		}
		st := (*p).(structure)
		return &st[0]
	}
	intrinsics["(*sync/atomic.Value).Store"] = func(fr *frame, args []value) value {
		*avField(args) = args[1]
		return nil
	}
	intrinsics["(*sync/atomic.Value).Load"] = func(fr *frame, args []value) value {
		v, ok := (*avField(args)).(iface)
		if !ok {
			return iface{}
		}
		return v
	}
	intrinsics["(*sync/atomic.Value).Swap"] = func(fr *frame, args []value) value {
		old, _ := (*avField(args)).(iface)
		*avField(args) = args[1]
		return old
	}
}

func init() {
	// heavy constructors whose results are only passed around or handed to
	// modelled methods: a pointer to the zero value of the result type
	zeroPtr := func(fr *frame, args []value) value {
		res := fr.fn.Signature.Results().At(0).Type()
		var cell value = zero(deref(res))
		return &cell
	}
	intrinsics["github.com/go-playground/validator/v10.New"] = zeroPtr
	// regexp: compile natively, keep the host object behind the pointer
	intrinsics["regexp.MustCompile"] = func(fr *frame, args []value) value {
		pat := concreteString(args[0], "regexp pattern")
		var cell value = &opaque{tag: "regexp", data: regexp.MustCompile(pat)}
		return &cell
	}
	intrinsics["(*regexp.Regexp).MatchString"] = func(fr *frame, args []value) value {
		p := args[0].(*value)
		re := (*p).(*opaque).data.(*regexp.Regexp)
		s := args[1].(sval)
		if c, ok := s.concrete(); ok {
			return mkBool(re.MatchString(c))
		}
		return fr.r.regexpSymbolic(re, s)
	}
}

// regexpSymbolic decides a match over symbolic bytes for the pattern shapes
// the repository uses, by forking on byte classes; other patterns are
// unsupported (path inconclusive).
func (r *run) regexpSymbolic(re *regexp.Regexp, s sval) value {
	if re.String() == `^\d+\.\d+$` {
		b := s.bytes()
		isDigit := func(t *Term) *Term {
			return mkAnd(bvCmp("bvuge", t, mkBV(8, '0')), bvCmp("bvule", t, mkBV(8, '9')))
		}
		// digits+ '.' digits+ : fork on the position of the dot
		res := tFalse
		for dot := 1; dot+1 < len(b); dot++ {
			c := mkEq(b[dot], mkBV(8, '.'))
			for i, t := range b {
				if i != dot {
					c = mkAnd(c, isDigit(t))
				}
			}
			res = mkOr(res, c)
		}
		return res
	}
	panic(engineError{"regexp match over symbolic bytes for pattern " + re.String()})
}

func init() {
	// default clock: a fixed instant; harness models override it
	intrinsics["time.Now"] = func(fr *frame, args []value) value {
		return zero(fr.fn.Signature.Results().At(0).Type())
	}
	intrinsics["time.Since"] = func(fr *frame, args []value) value { return mkBV(64, 0) }
}

func init() {
	fmtInt := func(signed bool) externalFn {
		return func(fr *frame, args []value) value {
			t := args[0].(*Term)
			base := 10
			if len(args) > 1 {
				base = concreteInt(args[1], "strconv base")
			}
			if !t.IsConst() {
				if v, ok := fr.r.smallConcretize(t, signed); ok {
					return mkStr(strconv.FormatInt(v, base))
				}
				fr.r.note("decimal rendering of an unconstrained symbolic integer replaced by a placeholder")
				return mkStr("<sym-int>")
			}
			if signed {
				return mkStr(strconv.FormatInt(t.sval(), base))
			}
			return mkStr(strconv.FormatUint(t.Val, base))
		}
	}
	intrinsics["strconv.Itoa"] = fmtInt(true)
	intrinsics["strconv.FormatInt"] = fmtInt(true)
	intrinsics["strconv.FormatUint"] = fmtInt(false)
}

func init() {
	intrinsics["time.runtimeNano"] = func(fr *frame, args []value) value { return mkBV(64, 1) }
	noop := func(fr *frame, args []value) value { return zeroResult(fr.fn) }
	for _, n := range []string{"internal/godebug.setUpdate", "internal/godebug.registerMetric", "internal/godebug.setNewIncNonDefault",
		"(*internal/godebug.Setting).IncNonDefault", "sync.runtime_registerPoolCleanup", "sync.runtime_notifyListCheck",
		"sync.throw", "sync.fatal", "internal/poll.runtime_pollServerInit", "runtime.SetFinalizer"} {
		intrinsics[n] = noop
	}
	intrinsics["(*internal/godebug.Setting).Value"] = func(fr *frame, args []value) value { return mkStr("") }
}

func init() {
	// vSyncEventsOf(obj): the lock / condition events recorded on one object
	apiIntrinsics["vSyncEventsOf"] = func(fr *frame, args []value) value {
		var p *value
		switch a := args[0].(type) {
		case iface:
			if q, ok := a.v.(*value); ok {
				p = q
			} else if inner, ok := a.v.(iface); ok {
				p, _ = inner.v.(*value)
			}
		case *value:
			p = a
		}
		var sb strings.Builder
		for _, e := range fr.r.syncLog {
			if e.ptr == p {
				sb.WriteString(e.ev + ";")
			}
		}
		return mkStr(sb.String())
	}
	apiIntrinsics["vSyncReset"] = func(fr *frame, args []value) value {
		fr.r.syncLog = nil
		return nil
	}
}

func init() {
	// vSetOpaque(ptr, tag): *ptr = an opaque interface value carrying tag
	apiIntrinsics["vSetOpaque"] = func(fr *frame, args []value) value {
		p := args[0].(iface).v.(*value)
		*p = iface{t: opaqueIfaceType, v: &opaque{tag: concreteString(args[1], "opaque tag")}}
		return nil
	}
	// vOpaqueTag(x): the tag of an opaque interface value ("" otherwise)
	apiIntrinsics["vOpaqueTag"] = func(fr *frame, args []value) value {
		x := args[0].(iface)
		if inner, ok := x.v.(iface); ok {
			x = inner
		}
		if o, ok := x.v.(*opaque); ok {
			return mkStr(o.tag)
		}
		return mkStr("")
	}
	// vBoundMethodOf(f, recv, name): f is the method value recv.name
	apiIntrinsics["vBoundMethodOf"] = func(fr *frame, args []value) value {
		f := args[0].(iface)
		cl, ok := f.v.(*closure)
		if !ok || cl == nil || len(cl.Env) != 1 {
			return tFalse
		}
		name := concreteString(args[2], "method name")
		if !strings.HasSuffix(cl.Fn.Name(), name+"$bound") {
			return tFalse
		}
		recv := args[1].(iface)
		rp, ok1 := recv.v.(*value)
		ep, ok2 := cl.Env[0].(*value)
		return mkBool(ok1 && ok2 && rp == ep)
	}
}

// ---------------------------------------------------------------- trace mode (C11)

func ptrOf(v value) *value {
	switch a := v.(type) {
	case iface:
		if q, ok := a.v.(*value); ok {
			return q
		}
		if inner, ok := a.v.(iface); ok {
			return ptrOf(inner)
		}
	case *value:
		return a
	}
	return nil
}

func init() {
	apiIntrinsics["vName"] = func(fr *frame, args []value) value {
		if p := ptrOf(args[0]); p != nil {
			fr.r.names[p] = concreteString(args[1], "name")
		}
		return nil
	}
	apiIntrinsics["vWatch"] = func(fr *frame, args []value) value {
		if p := ptrOf(args[0]); p != nil {
			fr.r.watch[p] = concreteString(args[1], "location")
		}
		return nil
	}
	// vWatchAll(ptr, prefix): every field of the struct behind ptr becomes a
	// watched location named after the field (the contents of map-valued
	// fields too); sync.Mutex / sync.RWMutex fields are named prefix.field.
	// The harness needs no knowledge of the representation.
	apiIntrinsics["vWatchAll"] = func(fr *frame, args []value) value {
		x, ok := args[0].(iface)
		if !ok || x.t == nil {
			return nil
		}
		pt, ok := x.t.Underlying().(*types.Pointer)
		if !ok {
			panic(engineError{"vWatchAll: not a pointer to a struct"})
		}
		st, ok := pt.Elem().Underlying().(*types.Struct)
		if !ok {
			panic(engineError{"vWatchAll: not a pointer to a struct"})
		}
		cell := ptrOf(x)
		if cell == nil {
			return nil
		}
		fields, ok := (*cell).(structure)
		if !ok {
			panic(engineError{"vWatchAll: unexpected struct representation"})
		}
		prefix := concreteString(args[1], "prefix")
		for i := 0; i < st.NumFields() && i < len(fields); i++ {
			f := st.Field(i)
			fp := &fields[i]
			if n, isNamed := f.Type().(*types.Named); isNamed && n.Obj().Pkg() != nil && n.Obj().Pkg().Path() == "sync" &&
				(n.Obj().Name() == "Mutex" || n.Obj().Name() == "RWMutex") {
				fr.r.names[fp] = prefix + "." + f.Name()
				continue
			}
			switch f.Type().Underlying().(type) {
			case *types.Signature, *types.Interface, *types.Array:
				continue // set once at construction; calls through them are traced by the callee model
			}
			fr.r.watch[fp] = f.Name()
			if m, isMap := fields[i].(*smap); isMap && m != nil {
				fr.r.watchMap[m] = f.Name()
			}
		}
		return nil
	}
	// vPoolStrict(): from now on an object handed to sync.Pool.Put is off
	// limits until Get returns it again
	apiIntrinsics["vPoolStrict"] = func(fr *frame, args []value) value {
		fr.r.poolStrict = true
		return nil
	}
	// vTraceRaceLabel(label): the obligation label under which the pairwise
	// schedule composition of this entry's traces is reported
	apiIntrinsics["vTraceRaceLabel"] = func(fr *frame, args []value) value {
		fr.r.raceLabel = concreteString(args[0], "label")
		return nil
	}
	// vWatchGlobals(prefix): every package-level variable of the package
	// under test (not the harness's own) becomes a watched location named
	// after the variable (struct-valued ones field by field); package-level
	// sync.Mutex / sync.RWMutex variables are named prefix.<name>.
	apiIntrinsics["vWatchGlobals"] = func(fr *frame, args []value) value {
		prefix := concreteString(args[0], "prefix")
		pkg := fr.fn.Pkg
		if pkg == nil {
			return nil
		}
		var names []string
		for n := range pkg.Members {
			names = append(names, n)
		}
		sort.Strings(names)
		for _, n := range names {
			g, ok := pkg.Members[n].(*ssa.Global)
			if !ok || strings.HasPrefix(n, "init$") {
				continue
			}
			if pos := pkg.Prog.Fset.Position(g.Pos()); strings.Contains(filepath.Base(pos.Filename), "zz_vsym") {
				continue
			}
			cell := fr.r.globalAddr(g)
			t := deref(g.Type())
			isMutex := func(t types.Type) bool {
				nt, isNamed := t.(*types.Named)
				return isNamed && nt.Obj().Pkg() != nil && nt.Obj().Pkg().Path() == "sync" && (nt.Obj().Name() == "Mutex" || nt.Obj().Name() == "RWMutex")
			}
			if isMutex(t) {
				fr.r.names[cell] = prefix + "." + n
				continue
			}
			switch t.Underlying().(type) {
			case *types.Signature, *types.Interface:
				continue
			}
			fr.r.watch[cell] = n
			if m, isMap := (*cell).(*smap); isMap && m != nil {
				fr.r.watchMap[m] = n
			}
			if st, isStruct := t.Underlying().(*types.Struct); isStruct {
				if fields, ok2 := (*cell).(structure); ok2 {
					for i := 0; i < st.NumFields() && i < len(fields); i++ {
						if isMutex(st.Field(i).Type()) {
							fr.r.names[&fields[i]] = prefix + "." + n + "." + st.Field(i).Name()
							continue
						}
						fr.r.watch[&fields[i]] = n + "." + st.Field(i).Name()
						if m, isMap := fields[i].(*smap); isMap && m != nil {
							fr.r.watchMap[m] = n + "." + st.Field(i).Name()
						}
					}
				}
			}
		}
		return nil
	}
	apiIntrinsics["vWatchMap"] = func(fr *frame, args []value) value {
		if m, ok := args[0].(iface).v.(*smap); ok && m != nil {
			fr.r.watchMap[m] = concreteString(args[1], "location")
		}
		return nil
	}
	apiIntrinsics["vAccess"] = func(fr *frame, args []value) value {
		fr.r.traceEvent(concreteString(args[0], "kind") + ":" + concreteString(args[1], "location"))
		return nil
	}
	apiIntrinsics["vTraceReset"] = func(fr *frame, args []value) value {
		fr.r.trace = nil
		fr.r.tracing = true
		return nil
	}
	apiIntrinsics["vTraceEmit"] = func(fr *frame, args []value) value {
		op := concreteString(args[0], "operation name")
		fr.r.tracing = false
		for p, mode := range fr.r.held {
			if mode != 0 {
				fr.r.facts["opA"] = op
				fr.r.facts["opB"] = op
				fr.r.facts["kind"] = "lock-held"
				fr.r.violation("lock", "C11.nothing-held-at-return", "operation "+op+" returns while holding "+fr.r.nameOf(p))
			}
		}
		fr.r.traces = append(fr.r.traces, traceRec{Op: op, Events: append([]string(nil), fr.r.trace...), Label: fr.r.raceLabel})
		return nil
	}
}

type traceRec struct {
	Op     string   `json:"op"`
	Events []string `json:"events"`
	Label  string   `json:"label,omitempty"`
}

// markPooled: the memory behind a value handed to sync.Pool.Put belongs to
// the pool (that is, to whichever goroutine gets it next) until Get returns
// it; with vPoolStrict a later access by the putter is a violation.
func (r *run) markPooled(v value, on bool) {
	if x, ok := v.(iface); ok {
		v = x.v
	}
	set := func(c *value) {
		if on {
			r.pooled[c] = true
		} else {
			delete(r.pooled, c)
		}
	}
	switch x := v.(type) {
	case *smap:
		if x != nil {
			if on {
				r.pooledMap[x] = true
			} else {
				delete(r.pooledMap, x)
			}
		}
	case *value:
		if x == nil {
			return
		}
		set(x)
		switch inner := (*x).(type) {
		case structure:
			for i := range inner {
				set(&inner[i])
				if m, isMap := inner[i].(*smap); isMap && m != nil {
					r.markPooled(m, on)
				}
			}
		case array:
			for i := range inner {
				set(&inner[i])
			}
		}
	}
}

func (r *run) pooledHit() {
	// reported once per path; the object may be in use by another goroutine
	r.pooled = map[*value]bool{}
	r.pooledMap = map[*smap]bool{}
	r.facts["kind"] = "pool"
	r.violation("pool", "vsym.no-use-of-a-pooled-object-after-put", "an object is read or written after it was handed to sync.Pool.Put: another goroutine may already own it")
}

func (r *run) nameOf(p *value) string {
	if n, ok := r.names[p]; ok {
		return n
	}
	return fmt.Sprintf("mutex#%d", r.syncIDs[p])
}

func (r *run) traceEvent(e string) {
	if r.tracing {
		r.trace = append(r.trace, e)
	}
}

// ---------------------------------------------------------------- reals (C17 backoff)

func init() {
	apiIntrinsics["vNondetF64"] = func(fr *frame, args []value) value {
		name := concreteString(args[0], "nondet name")
		return &fsym{cls: fFinite, t: fr.r.fresh(name, "real", realSort)}
	}
	// vLinkReal(x, lo, hi): x (a symbolic int64) lies in [lo,hi] and so does its real twin
	apiIntrinsics["vLinkReal"] = func(fr *frame, args []value) value {
		x := args[0].(*Term)
		if x.IsConst() {
			return nil
		}
		lo, hi := args[1].(*Term), args[2].(*Term)
		tw := fr.r.twin(x)
		fr.r.assume(mkAnd(bvCmp("bvsge", x, lo), bvCmp("bvsle", x, hi)))
		fr.r.assume(mkAnd(realCmp(">=", tw, mkReal(new(big.Rat).SetInt64(lo.sval()))), realCmp("<=", tw, mkReal(new(big.Rat).SetInt64(hi.sval())))))
		zero := mkReal(new(big.Rat))
		fr.r.assume(mkEq(mkEq(x, mkBV(64, 0)), mkEq(tw, zero)))
		return nil
	}
	// vRealOf(x): the exact real value of an int64 (its twin when symbolic)
	apiIntrinsics["vRealOf"] = func(fr *frame, args []value) value {
		x := args[0].(*Term)
		if x.IsConst() {
			return &fsym{cls: fFinite, t: mkReal(new(big.Rat).SetInt64(x.sval()))}
		}
		return &fsym{cls: fFinite, t: fr.r.twin(x)}
	}
	exact := func(op string) externalFn {
		return func(fr *frame, args []value) value {
			a, b := toFsym(args[0]), toFsym(args[1])
			if a.cls != fFinite || b.cls != fFinite {
				panic(engineError{"exact real arithmetic on non-finite value"})
			}
			return &fsym{cls: fFinite, t: realBin(op, a.t, b.t)}
		}
	}
	apiIntrinsics["vRAdd"] = exact("+")
	apiIntrinsics["vRSub"] = exact("-")
	apiIntrinsics["vRMul"] = exact("*")
	apiIntrinsics["vRLe"] = func(fr *frame, args []value) value {
		a, b := toFsym(args[0]), toFsym(args[1])
		if a.cls != fFinite || b.cls != fFinite {
			return tFalse
		}
		return realCmp("<=", a.t, b.t)
	}
	apiIntrinsics["vIsNaN"] = func(fr *frame, args []value) value { return mkBool(toFsym(args[0]).cls == fNaN) }
	apiIntrinsics["vIsInf"] = func(fr *frame, args []value) value {
		c := toFsym(args[0]).cls
		return mkBool(c == fPosInf || c == fNegInf)
	}
	intrinsics["math.Inf"] = func(fr *frame, args []value) value {
		if args[0].(*Term).sval() >= 0 {
			return fval(math.Inf(1))
		}
		return fval(math.Inf(-1))
	}
	intrinsics["math.NaN"] = func(fr *frame, args []value) value { return fval(math.NaN()) }
	intrinsics["math.IsNaN"] = func(fr *frame, args []value) value { return mkBool(toFsym(args[0]).cls == fNaN) }
	intrinsics["math.IsInf"] = func(fr *frame, args []value) value {
		c := toFsym(args[0]).cls
		sign := args[1].(*Term).sval()
		return mkBool((sign >= 0 && c == fPosInf) || (sign <= 0 && c == fNegInf))
	}
}

func init() {
	apiIntrinsics["vRunGoroutines"] = func(fr *frame, args []value) value {
		fr.r.flushGoroutines()
		return nil
	}
}

func init() {
	// TrimSpace over possibly-symbolic bytes (ASCII bound stated for symbolic bytes)
	isSpace := func(r *run, b *Term) bool {
		if b.IsConst() {
			switch b.Val {
			case ' ', '\t', '\n', '\v', '\f', '\r', 0x85, 0xA0:
				return b.Val < 0x80 || false
			}
			return false
		}
		r.assume(bvCmp("bvult", b, mkBV(8, 0x80)))
		r.note("TrimSpace over symbolic bytes assumes ASCII")
		c := mkOr(mkEq(b, mkBV(8, ' ')), mkAnd(bvCmp("bvuge", b, mkBV(8, 9)), bvCmp("bvule", b, mkBV(8, 13))))
		return r.branch(c)
	}
	trim := func(r *run, b []*Term) (int, int) {
		lo, hi := 0, len(b)
		for lo < hi && isSpace(r, b[lo]) {
			lo++
		}
		for hi > lo && isSpace(r, b[hi-1]) {
			hi--
		}
		return lo, hi
	}
	intrinsics["strings.TrimSpace"] = func(fr *frame, args []value) value {
		s := args[0].(sval)
		if c, ok := s.concrete(); ok {
			return mkStr(strings.TrimSpace(c))
		}
		lo, hi := trim(fr.r, s.bytes())
		return s.sub(lo, hi)
	}
	intrinsics["bytes.TrimSpace"] = func(fr *frame, args []value) value {
		sl := args[0].([]value)
		lo, hi := trim(fr.r, bytesOf(sl))
		if lo == hi {
			return []value(nil)
		}
		return sl[lo:hi]
	}
}

func init() {
	// vTraceCheckAtomic(op, mutex): every shared access of the current trace lies
	// inside one and the same critical section of the named mutex.
	apiIntrinsics["vTraceCheckAtomic"] = func(fr *frame, args []value) value {
		op := concreteString(args[0], "operation name")
		mu := concreteString(args[1], "mutex name")
		// "prefix.*": any lock whose name starts with the prefix (the field
		// name of a mutex named by vWatchAll is not the harness's business)
		isMu := func(obj string) bool {
			if strings.HasSuffix(mu, "*") {
				return strings.HasPrefix(obj, mu[:len(mu)-1])
			}
			return obj == mu
		}
		evs := parseTrace(fr.r.trace)
		secs := 0
		inside := false
		used := false
		outside := ""
		for _, e := range evs {
			switch {
			case (e.kind == "acqW" || e.kind == "acqR") && isMu(e.obj):
				inside, used = true, false
			case (e.kind == "relW" || e.kind == "relR") && isMu(e.obj):
				if used {
					secs++
				}
				inside = false
			case e.kind == "rd" || e.kind == "wr":
				if inside {
					used = true
				} else if outside == "" {
					outside = e.kind + ":" + e.obj
				}
			}
		}
		if secs > 1 || outside != "" {
			fr.r.facts["opA"] = op
			fr.r.facts["opB"] = op
			fr.r.facts["kind"] = "atomicity"
			detail := fmt.Sprintf("operation %s spreads its shared accesses over %d critical sections of %s", op, secs, mu)
			if outside != "" {
				detail = fmt.Sprintf("operation %s accesses %s outside any critical section of %s", op, outside, mu)
			}
			fr.r.violation("atomicity", "C11.operation-is-one-critical-section", detail)
		} else {
			fr.r.obligs = append(fr.r.obligs, obligRec{Kind: "atomicity", Label: "C11.operation-is-one-critical-section", Status: "proved", Detail: "concrete", Entry: fr.r.entry})
		}
		return nil
	}
}

func init() {
	// The standard named curves: constructing them runs big-number code that
	// is out of reach (assembly kernels).  Without a harness model each is an
	// opaque object with a stable identity per run (curve arithmetic on it is
	// not modelled: methods are no-ops, as for other opaque values).
	for _, n := range []string{"P224", "P256", "P384", "P521"} {
		name := "crypto/elliptic." + n
		intrinsics[name] = func(fr *frame, args []value) value {
			if v, ok := fr.r.curves[name]; ok {
				return v
			}
			v := iface{t: opaqueIfaceType, v: &opaque{tag: "curve:" + name}}
			fr.r.curves[name] = v
			fr.r.note("%s() is an opaque curve object (no harness model given)", name)
			return v
		}
	}
}

// notIntrinsic: returned by an intrinsic that declines (the call proceeds as
// if there were no intrinsic)
var notIntrinsic value = &opaque{tag: "not-intrinsic"}

func init() {
	// encoding/json.Encoder on top of whatever contract model the harness
	// registered for encoding/json.Marshal: Encode(v) writes Marshal(v) and a
	// newline to the writer the encoder was made for.  Without such a model
	// the real code runs (and is usually beyond reach).
	intrinsics["encoding/json.NewEncoder"] = func(fr *frame, args []value) value {
		if fr.r.eng.modelFor("encoding/json.Marshal") == nil {
			return notIntrinsic
		}
		res := fr.fn.Signature.Results().At(0).Type()
		var cell value = zero(deref(res))
		p := &cell
		fr.r.jsonEncW[p] = args[0]
		return p
	}
	intrinsics["(*encoding/json.Encoder).Encode"] = func(fr *frame, args []value) value {
		m := fr.r.eng.modelFor("encoding/json.Marshal")
		p, _ := args[0].(*value)
		w, known := fr.r.jsonEncW[p]
		if m == nil || !known {
			return notIntrinsic
		}
		out := fr.r.callSSA(fr, token.NoPos, m, []value{args[1]}, nil).(tuple)
		if e, isIface := out[1].(iface); isIface && e.t != nil {
			return out[1]
		}
		text, _ := out[0].([]value)
		data := append(append([]value(nil), text...), mkBV(8, '\n'))
		wi := w.(iface)
		write := fr.r.eng.prog.LookupMethod(wi.t, nil, "Write")
		if write == nil {
			panic(engineError{"json.Encoder: the writer's dynamic type has no Write method"})
		}
		res := fr.r.callSSA(fr, token.NoPos, write, []value{wi.v, data}, nil).(tuple)
		return res[1]
	}
	intrinsics["(*encoding/json.Encoder).SetEscapeHTML"] = func(fr *frame, args []value) value {
		if p, _ := args[0].(*value); p != nil {
			if _, known := fr.r.jsonEncW[p]; known {
				fr.r.note("json.Encoder.SetEscapeHTML is ignored: the harness's Marshal model decides the escaping")
				return nil
			}
		}
		return notIntrinsic
	}
}

func init() {
	// vEmit(label, text): record a concrete observation (translator self-test)
	apiIntrinsics["vEmit"] = func(fr *frame, args []value) value {
		fr.r.emits = append(fr.r.emits, concreteString(args[0], "emit label")+"="+toStringPlain(args[1]))
		return nil
	}
}

func init() {
	// sync.Map with concrete keys (a per-run table behind the map's address)
	key := func(v value) string {
		switch k := v.(type) {
		case iface:
			return k.t.String() + ":" + toStringPlain(k.v)
		}
		return toStringPlain(v)
	}
	tbl := func(fr *frame, args []value) map[string]value {
		p := args[0].(*value)
		m := fr.r.syncMaps[p]
		if m == nil {
			m = map[string]value{}
			fr.r.syncMaps[p] = m
		}
		return m
	}
	intrinsics["(*sync.Map).Load"] = func(fr *frame, args []value) value {
		v, ok := tbl(fr, args)[key(args[1])]
		if !ok {
			return tuple{iface{}, tFalse}
		}
		return tuple{v, tTrue}
	}
	intrinsics["(*sync.Map).Store"] = func(fr *frame, args []value) value {
		tbl(fr, args)[key(args[1])] = args[2]
		return nil
	}
	intrinsics["(*sync.Map).LoadOrStore"] = func(fr *frame, args []value) value {
		m := tbl(fr, args)
		if v, ok := m[key(args[1])]; ok {
			return tuple{v, tTrue}
		}
		m[key(args[1])] = args[2]
		return tuple{args[2], tFalse}
	}
	intrinsics["(*sync.Map).Delete"] = func(fr *frame, args []value) value {
		delete(tbl(fr, args), key(args[1]))
		return nil
	}
}
