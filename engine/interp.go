package main

// Path-wise symbolic interpreter over go/ssa.  Structure after
// golang.org/x/tools/go/ssa/interp (BSD licence): frames, host panics for
// target panics, defer stacks; extended with symbolic scalars, forking via
// re-execution (explore.go), implicit runtime checks as explicit branches.

import (
	"fmt"
	"go/token"
	"go/types"
	"strings"

	"golang.org/x/tools/go/ssa"
)

// engineError: the engine cannot continue on this path (unsupported feature,
// unmodelled callee, internal inconsistency).  The path is INCONCLUSIVE.
type engineError struct{ msg string }

func (e engineError) Error() string { return e.msg }

// pathEnd: the path is cut silently (infeasible assumption).
type pathEnd struct{ why string }

// targetPanic: the program under analysis panicked.
type targetPanic struct {
	v       value // the panic value as the target sees it (iface or sval for runtime errors)
	runtime bool
	msg     string
}

func runtimePanic(msg string) targetPanic {
	return targetPanic{runtime: true, msg: "runtime error: " + msg}
}

type deferred struct {
	fn    value
	args  []value
	instr *ssa.Defer
	tail  *deferred
}

type frame struct {
	r                *run
	caller           *frame
	fn               *ssa.Function
	block, prevBlock *ssa.BasicBlock
	env              map[ssa.Value]value
	locals           []value
	defers           *deferred
	result           value
	panicking        bool
	panic            interface{}
	phitemps         []value
	skipPhis         bool
}

type continuation int

const (
	kNext continuation = iota
	kReturn
	kJump
)

func (fr *frame) get(key ssa.Value) value {
	switch key := key.(type) {
	case nil:
		return nil
	case *ssa.Function, *ssa.Builtin:
		return key
	case *ssa.Const:
		return constValue(key)
	case *ssa.Global:
		return fr.r.globalAddr(key)
	}
	if r, ok := fr.env[key]; ok {
		return r
	}
	panic(engineError{fmt.Sprintf("get: no value for %T: %v", key, key.Name())})
}

func (fr *frame) runDefer(d *deferred) {
	var ok bool
	defer func() {
		if !ok {
			p := recover()
			switch p.(type) {
			case engineError, pathEnd:
				panic(p)
			}
			fr.panicking = true
			fr.panic = p
		}
	}()
	fr.r.call(fr, d.instr.Pos(), d.fn, d.args)
	ok = true
}

func (fr *frame) runDefers() {
	for d := fr.defers; d != nil; d = d.tail {
		fr.runDefer(d)
	}
	fr.defers = nil
	if fr.panicking {
		panic(fr.panic)
	}
}

func (r *run) lookupMethod(typ types.Type, meth *types.Func) *ssa.Function {
	return r.eng.prog.LookupMethod(typ, meth.Pkg(), meth.Name())
}

func visitInstr(fr *frame, instr ssa.Instruction) continuation {
	r := fr.r
	switch instr := instr.(type) {
	case *ssa.DebugRef:

	case *ssa.UnOp:
		fr.env[instr] = r.unop(instr, fr.get(instr.X))

	case *ssa.BinOp:
		fr.env[instr] = r.binop(instr.Op, instr.X.Type(), fr.get(instr.X), fr.get(instr.Y))

	case *ssa.Call:
		fn, args := prepareCall(fr, &instr.Call)
		fr.env[instr] = r.call(fr, instr.Pos(), fn, args)

	case *ssa.ChangeInterface:
		fr.env[instr] = fr.get(instr.X)

	case *ssa.ChangeType:
		fr.env[instr] = fr.get(instr.X)

	case *ssa.Convert:
		fr.env[instr] = r.conv(instr.Type(), instr.X.Type(), fr.get(instr.X))

	case *ssa.SliceToArrayPointer:
		fr.env[instr] = sliceToArrayPointer(instr.Type(), fr.get(instr.X))

	case *ssa.MakeInterface:
		fr.env[instr] = iface{t: instr.X.Type(), v: fr.get(instr.X)}

	case *ssa.Extract:
		fr.env[instr] = fr.get(instr.Tuple).(tuple)[instr.Index]

	case *ssa.Slice:
		fr.env[instr] = r.slice(instr, fr.get(instr.X), fr.get(instr.Low), fr.get(instr.High), fr.get(instr.Max))

	case *ssa.Return:
		switch len(instr.Results) {
		case 0:
		case 1:
			fr.result = fr.get(instr.Results[0])
		default:
			var res []value
			for _, x := range instr.Results {
				res = append(res, fr.get(x))
			}
			fr.result = tuple(res)
		}
		fr.block = nil
		return kReturn

	case *ssa.RunDefers:
		fr.runDefers()

	case *ssa.Panic:
		panic(targetPanic{v: fr.get(instr.X)})

	case *ssa.Go:
		// bounded scheduler: the new goroutine runs to completion either right
		// here or when the harness reaches vRunGoroutines() / the entry returns
		fn, args := prepareCall(fr, &instr.Call)
		r.note("go statement: the goroutine body is executed atomically, either at the spawn point or at the next vRunGoroutines()/end of the entry (two schedules per goroutine)")
		if r.chooseFree(2, "goroutine-schedule") == 0 {
			r.runGoroutine(fr, fn, args)
		} else {
			r.pendingGo = append(r.pendingGo, pendingGo{fn, args})
		}

	case *ssa.Send:
		ch, ok := fr.get(instr.Chan).(*schan)
		if !ok || ch == nil {
			panic(engineError{"send on a channel the engine does not model"})
		}
		// a send never blocks in this model: what matters is the order in
		// which receivers may see the values of different senders
		ch.items = append(ch.items, chanItem{g: r.curG, v: copyVal(fr.get(instr.X))})

	case *ssa.Select:
		panic(engineError{fmt.Sprintf("unsupported instruction %T in %s", instr, fr.fn)})

	case *ssa.Store:
		r.storeTo(fr.get(instr.Addr), fr.get(instr.Val))

	case *ssa.If:
		c := fr.get(instr.Cond).(*Term)
		if !c.IsConst() && !noMerge && fr.tryMerge(c) {
			return kJump
		}
		succ := 1
		if r.branch(c) {
			succ = 0
		}
		fr.prevBlock, fr.block = fr.block, fr.block.Succs[succ]
		return kJump

	case *ssa.Jump:
		fr.prevBlock, fr.block = fr.block, fr.block.Succs[0]
		return kJump

	case *ssa.Defer:
		fn, args := prepareCall(fr, &instr.Call)
		defers := &fr.defers
		if instr.DeferStack != nil {
			if into := fr.get(instr.DeferStack); into != nil {
				defers = into.(**deferred)
			}
		}
		*defers = &deferred{fn: fn, args: args, instr: instr, tail: *defers}

	case *ssa.MakeChan:
		fr.env[instr] = &schan{}

	case *ssa.Alloc:
		var addr *value
		if instr.Heap {
			addr = new(value)
			fr.env[instr] = addr
		} else {
			addr = fr.env[instr].(*value)
		}
		*addr = zero(deref(instr.Type()))

	case *ssa.MakeSlice:
		n := r.allocLen(fr.get(instr.Len).(*Term), instr.Len.Type(), instr)
		c := r.allocLen(fr.get(instr.Cap).(*Term), instr.Cap.Type(), instr)
		if c < n {
			panic(runtimePanic("makeslice: cap out of range"))
		}
		sl := make([]value, c)
		tElt := instr.Type().Underlying().(*types.Slice).Elem()
		for i := range sl {
			sl[i] = zero(tElt)
		}
		fr.env[instr] = sl[:n]

	case *ssa.MakeMap:
		fr.env[instr] = newSmap(instr.Type().Underlying().(*types.Map))

	case *ssa.Range:
		fr.env[instr] = r.rangeIter(fr.get(instr.X), instr.X.Type())

	case *ssa.Next:
		fr.env[instr] = fr.get(instr.Iter).(iter).next(r)

	case *ssa.FieldAddr:
		p := fr.get(instr.X).(*value)
		if p == nil {
			panic(runtimePanic("invalid memory address or nil pointer dereference"))
		}
		fr.env[instr] = &(*p).(structure)[instr.Field]

	case *ssa.Field:
		fr.env[instr] = fr.get(instr.X).(structure)[instr.Field]

	case *ssa.IndexAddr:
		fr.env[instr] = r.indexAddr(fr.get(instr.X), fr.get(instr.Index).(*Term), instr.Index.Type())

	case *ssa.Index:
		fr.env[instr] = r.index(fr.get(instr.X), fr.get(instr.Index).(*Term), instr.Index.Type())

	case *ssa.Lookup:
		fr.env[instr] = r.lookup(instr, fr.get(instr.X), fr.get(instr.Index))

	case *ssa.MapUpdate:
		m := fr.get(instr.Map).(*smap)
		if m == nil {
			panic(targetPanic{msg: "assignment to entry in nil map", runtime: true})
		}
		m.insert(r, fr.get(instr.Key), fr.get(instr.Value))

	case *ssa.TypeAssert:
		fr.env[instr] = r.typeAssert(instr, fr.get(instr.X).(iface))

	case *ssa.MakeClosure:
		var bindings []value
		for _, b := range instr.Bindings {
			bindings = append(bindings, fr.get(b))
		}
		fr.env[instr] = &closure{instr.Fn.(*ssa.Function), bindings}

	case *ssa.Phi:
		panic(engineError{"phi outside block entry"})

	default:
		panic(engineError{fmt.Sprintf("unexpected instruction: %T", instr)})
	}
	return kNext
}

func prepareCall(fr *frame, call *ssa.CallCommon) (fn value, args []value) {
	v := fr.get(call.Value)
	if call.Method == nil {
		fn = v
	} else {
		recv := v.(iface)
		if recv.t == nil {
			panic(runtimePanic("invalid memory address or nil pointer dereference (method " + call.Method.Name() + " invoked on nil interface)"))
		}
		if _, isOpaque := recv.v.(*opaque); isOpaque && recv.t == opaqueIfaceType {
			for _, arg := range call.Args {
				args = append(args, fr.get(arg))
			}
			return &opaqueCall{sig: call.Method.Type().(*types.Signature)}, args
		}
		f := fr.r.lookupMethod(recv.t, call.Method)
		if f == nil {
			panic(engineError{fmt.Sprintf("method set for dynamic type %v does not contain %s", recv.t, call.Method)})
		}
		fn = f
		args = append(args, recv.v)
	}
	for _, arg := range call.Args {
		args = append(args, fr.get(arg))
	}
	return
}

func (r *run) call(caller *frame, callpos token.Pos, fn value, args []value) value {
	switch fn := fn.(type) {
	case *ssa.Function:
		if fn == nil {
			panic(runtimePanic("invalid memory address or nil pointer dereference (call of nil func)"))
		}
		return r.callSSA(caller, callpos, fn, args, nil)
	case *closure:
		if fn == nil {
			panic(runtimePanic("invalid memory address or nil pointer dereference (call of nil func)"))
		}
		return r.callSSA(caller, callpos, fn.Fn, args, fn.Env)
	case *ssa.Builtin:
		return r.callBuiltin(caller, callpos, fn, args)
	case *opaqueCall:
		return opaqueResults(fn.sig)
	}
	panic(engineError{fmt.Sprintf("cannot call %T", fn)})
}

func calledFromModel(caller *frame, m *ssa.Function) bool {
	if caller == nil || caller.fn == nil {
		return false
	}
	f := caller.fn
	for f.Parent() != nil {
		f = f.Parent()
	}
	return f == m
}

func (r *run) callSSA(caller *frame, callpos token.Pos, fn *ssa.Function, args []value, env []value) value {
	r.depth++
	r.stack = append(r.stack, fn)
	defer func() { r.depth--; r.stack = r.stack[:len(r.stack)-1] }()
	if r.depth > 400 {
		panic(engineError{"call depth exceeded in " + fn.String()})
	}
	fr := &frame{r: r, caller: caller, fn: fn}
	if fn.Parent() == nil {
		name := fn.String()
		if fn.Synthetic == "package initializer" {
			if !r.eng.isRepoPkg(fn.Pkg) && !r.forceInit[fn.Pkg] {
				return nil // external packages initialise lazily
			}
		}
		if m := r.eng.modelFor(name); m != nil && !calledFromModel(caller, m) {
			// harness model replaces the callee (a call made by the model's
			// own body reaches the real function: models may wrap it; calls
			// made further down - a hook of the repository called by the
			// model - are modelled again)
			r.noteFunc(m)
			// a model may declare a parameter as an interface where the callee
			// has a concrete (receiver) type: box the argument accordingly
			margs := args
			for i := range args {
				if i < len(m.Params) && i < len(fn.Params) {
					if _, want := m.Params[i].Type().Underlying().(*types.Interface); want {
						if _, is := args[i].(iface); !is {
							if _, src := fn.Params[i].Type().Underlying().(*types.Interface); !src {
								if len(margs) == len(args) && &margs[0] == &args[0] {
									margs = append([]value(nil), args...)
								}
								margs[i] = iface{t: fn.Params[i].Type(), v: args[i]}
							}
						}
					}
				}
			}
			return r.callSSA(caller, callpos, m, margs, nil)
		}
		if ext := intrinsics[name]; ext != nil {
			if v := ext(fr, args); v != notIntrinsic {
				return v
			}
		}
		if fn.Pkg != nil {
			if h := r.eng.pkgHandler(fn); h != nil {
				return h(fr, args)
			}
		}
		if fn.Blocks == nil {
			panic(engineError{"no body and no model for function: " + name})
		}
	}
	if fn.TypeParams().Len() > 0 && len(fn.TypeArgs()) == 0 {
		panic(engineError{"uninstantiated generic " + fn.String()})
	}
	r.noteFunc(fn)

	fr.env = make(map[ssa.Value]value)
	fr.block = fn.Blocks[0]
	fr.locals = make([]value, len(fn.Locals))
	for i, l := range fn.Locals {
		fr.locals[i] = zero(deref(l.Type()))
		fr.env[l] = &fr.locals[i]
	}
	for i, p := range fn.Params {
		fr.env[p] = args[i]
	}
	for i, fv := range fn.FreeVars {
		fr.env[fv] = env[i]
	}
	for fr.block != nil {
		runFrame(fr)
	}
	return fr.result
}

func runFrame(fr *frame) {
	defer func() {
		if fr.block == nil {
			return // normal return
		}
		p := recover()
		switch p.(type) {
		case engineError, pathEnd:
			panic(p)
		case targetPanic:
		default:
			// host runtime errors are engine bugs, never target behaviour
			panic(engineError{fmt.Sprintf("internal error in %s: %v", fr.fn, p)})
		}
		fr.panicking = true
		fr.panic = p
		fr.runDefers()
		fr.block = fr.fn.Recover
		if fr.block == nil {
			// recovered in a function without named results: return zero values
			fr.result = zeroResult(fr.fn)
		}
	}()

	for {
		nonPhis := executePhis(fr)
		for _, instr := range nonPhis {
			fr.r.steps++
			if fr.r.steps > fr.r.eng.maxSteps {
				panic(engineError{"step budget exceeded (unwinding bound) in " + fr.fn.String()})
			}
			if visitInstr(fr, instr) == kReturn {
				return
			}
		}
	}
}

func zeroResult(fn *ssa.Function) value {
	res := fn.Signature.Results()
	switch res.Len() {
	case 0:
		return nil
	case 1:
		return zero(res.At(0).Type())
	}
	return zero(res)
}

func executePhis(fr *frame) []ssa.Instruction {
	firstNonPhi := -1
	for i, instr := range fr.block.Instrs {
		if _, ok := instr.(*ssa.Phi); !ok {
			firstNonPhi = i
			break
		}
	}
	nonPhis := fr.block.Instrs[firstNonPhi:]
	if fr.skipPhis {
		fr.skipPhis = false
		return nonPhis
	}
	if firstNonPhi > 0 {
		phis := fr.block.Instrs[:firstNonPhi]
		predIndex := -1
		for i, p := range fr.block.Preds {
			if p == fr.prevBlock {
				predIndex = i
				break
			}
		}
		fr.phitemps = fr.phitemps[:0]
		for _, phi := range phis {
			phi := phi.(*ssa.Phi)
			fr.phitemps = append(fr.phitemps, fr.get(phi.Edges[predIndex]))
		}
		for i, phi := range phis {
			fr.env[phi.(*ssa.Phi)] = fr.phitemps[i]
		}
	}
	return nonPhis
}

// doRecover implements recover().
func (r *run) doRecover(caller *frame) value {
	if caller != nil && !caller.panicking &&
		caller.caller != nil && caller.caller.panicking {
		caller.caller.panicking = false
		p := caller.caller.panic
		caller.caller.panic = nil
		switch p := p.(type) {
		case targetPanic:
			if p.runtime {
				return iface{r.eng.runtimeErrorString, mkStr(p.msg)}
			}
			return p.v
		default:
			panic(engineError{fmt.Sprintf("unexpected panic type %T in recover()", p)})
		}
	}
	return iface{}
}

// ---------------------------------------------------------------- globals / init

func (r *run) globalAddr(g *ssa.Global) *value {
	if p, ok := r.globals[g]; ok {
		return p
	}
	cell := zero(deref(g.Type()))
	p := &cell
	r.globals[g] = p
	if g.Pkg != nil && !r.eng.isRepoPkg(g.Pkg) && !strings.HasPrefix(g.Name(), "init$") {
		r.lazyInit(g.Pkg)
		if msg, failed := r.initFailed[g.Pkg]; failed {
			// the package initialiser is not executable: sentinel errors are
			// materialised as distinct objects, anything else is inconclusive
			if v, isIface := (*p).(iface); isIface && v.t == nil && types.Identical(deref(g.Type()), types.Universe.Lookup("error").Type()) {
				*p = r.newError(mkStr(g.Pkg.Pkg.Path() + "." + g.Name()))
				r.note("sentinel error %s.%s materialised as a distinct object (package initialiser not executable)", g.Pkg.Pkg.Path(), g.Name())
			} else if isZeroValue(*p) {
				panic(engineError{"global " + g.Pkg.Pkg.Path() + "." + g.Name() + " read, but the package initialiser is not executable: " + msg})
			}
		}
	}
	return p
}

func isZeroValue(v value) bool {
	switch v := v.(type) {
	case *Term:
		return v.IsConst() && v.Val == 0
	case sval:
		return v.Len() == 0
	case fval:
		return v == 0
	case structure:
		for _, f := range v {
			if !isZeroValue(f) {
				return false
			}
		}
		return true
	case array:
		for _, f := range v {
			if !isZeroValue(f) {
				return false
			}
		}
		return true
	}
	return isNilValue(v)
}

// lazyInit runs the initialiser of an external package the first time one of
// its globals is touched.  Imported packages' initialisers are skipped (they
// run lazily themselves).
func (r *run) lazyInit(pkg *ssa.Package) {
	if r.initState[pkg] != 0 {
		return
	}
	r.initState[pkg] = 1
	if msg, bad := r.eng.noInit[pkg.Pkg.Path()]; bad {
		panic(engineError{"global of package " + pkg.Pkg.Path() + " read, whose initialiser is not executable: " + msg})
	}
	init := pkg.Func("init")
	if init == nil {
		return
	}
	r.forceInit[pkg] = true
	savedDepth := r.depth
	savedStack := len(r.stack)
	func() {
		defer func() {
			r.depth = savedDepth
			r.stack = r.stack[:savedStack]
			if p := recover(); p != nil {
				if ee, ok := p.(engineError); ok {
					r.initFailed[pkg] = ee.msg
					return
				}
				if tp, ok := p.(targetPanic); ok {
					r.initFailed[pkg] = "panicked: " + tp.String()
					return
				}
				panic(p)
			}
		}()
		r.callSSA(nil, token.NoPos, init, nil, nil)
	}()
	r.initState[pkg] = 2
	r.lazyInits = append(r.lazyInits, pkg.Pkg.Path())
}

func (p targetPanic) String() string {
	if p.runtime {
		return p.msg
	}
	if p.msg != "" {
		return p.msg
	}
	return toString(p.v)
}

// Opaque interface values: results of no-op'd telemetry/logging packages that
// are themselves interfaces.  Methods invoked on them are no-ops again.
var opaqueIfaceType = types.NewNamed(types.NewTypeName(token.NoPos, nil, "vsymOpaque", nil), types.NewStruct(nil, nil), nil)

type opaqueCall struct{ sig *types.Signature }

func opaqueResults(sig *types.Signature) value {
	res := sig.Results()
	mk := func(t types.Type) value {
		if it, ok := t.Underlying().(*types.Interface); ok {
			if types.Identical(t, types.Universe.Lookup("error").Type()) {
				return iface{}
			}
			_ = it
			return iface{t: opaqueIfaceType, v: &opaque{tag: "iface:" + t.String()}}
		}
		return zero(t)
	}
	switch res.Len() {
	case 0:
		return nil
	case 1:
		return mk(res.At(0).Type())
	}
	out := make(tuple, res.Len())
	for i := range out {
		out[i] = mk(res.At(i).Type())
	}
	return out
}

// ---------------------------------------------------------------- if-conversion

var noMerge = false

// sideBlock: x is a side-effect-free block reached only from pred that jumps
// on; returns its successor.
func sideBlock(x, pred *ssa.BasicBlock) (*ssa.BasicBlock, bool) {
	if len(x.Preds) != 1 || x.Preds[0] != pred || len(x.Instrs) == 0 || len(x.Instrs) > 12 {
		return nil, false
	}
	if _, ok := x.Instrs[len(x.Instrs)-1].(*ssa.Jump); !ok {
		return nil, false
	}
	for _, in := range x.Instrs[:len(x.Instrs)-1] {
		switch in := in.(type) {
		case *ssa.BinOp:
			switch in.Op {
			case token.QUO, token.REM:
				return nil, false
			case token.SHL, token.SHR:
				// a shift panics only for a negative signed count
				if _, signed, isInt := intInfo(in.Y.Type()); !isInt || signed {
					if k, isConst := in.Y.(*ssa.Const); !isConst || k.Value == nil || k.Int64() < 0 {
						return nil, false
					}
				}
			}
		case *ssa.UnOp:
			if in.Op == token.ARROW {
				return nil, false
			}
		case *ssa.Convert, *ssa.ChangeType:
		default:
			return nil, false
		}
	}
	return x.Succs[0], true
}

// speculate evaluates the pure instructions of x into scratch; false if any
// operand is not a plain scalar (so nothing can panic or fork).
func (fr *frame) speculate(x *ssa.BasicBlock, scratch map[ssa.Value]value) bool {
	get := func(v ssa.Value) (value, bool) {
		if r, ok := scratch[v]; ok {
			return r, true
		}
		switch v.(type) {
		case *ssa.Const:
			return constValue(v.(*ssa.Const)), true
		case *ssa.Global, *ssa.Function, *ssa.Builtin:
			return nil, false
		}
		r, ok := fr.env[v]
		return r, ok
	}
	scalar := func(v value) bool {
		_, ok := v.(*Term)
		return ok
	}
	for _, in := range x.Instrs[:len(x.Instrs)-1] {
		switch in := in.(type) {
		case *ssa.BinOp:
			a, ok1 := get(in.X)
			b, ok2 := get(in.Y)
			if !ok1 || !ok2 || !scalar(a) || !scalar(b) {
				return false
			}
			scratch[in] = fr.r.binop(in.Op, in.X.Type(), a, b)
		case *ssa.UnOp:
			a, ok := get(in.X)
			if !ok {
				return false
			}
			if in.Op == token.MUL {
				p, isPtr := a.(*value)
				if !isPtr || p == nil || !scalar(*p) {
					return false
				}
				scratch[in] = *p
			} else {
				if !scalar(a) {
					return false
				}
				scratch[in] = fr.r.unop(in, a)
			}
		case *ssa.Convert:
			a, ok := get(in.X)
			if !ok || !scalar(a) {
				return false
			}
			if _, _, isInt := intInfo(in.Type()); !isInt {
				return false
			}
			if _, _, isInt := intInfo(in.X.Type()); !isInt {
				return false
			}
			scratch[in] = fr.r.conv(in.Type(), in.X.Type(), a)
		case *ssa.ChangeType:
			a, ok := get(in.X)
			if !ok {
				return false
			}
			scratch[in] = a
		}
	}
	return true
}

// tryMerge turns a side-effect-free triangle or diamond below the current If
// into ite terms at the join's phis instead of forking.
func (fr *frame) tryMerge(c *Term) bool {
	b := fr.block
	T, F := b.Succs[0], b.Succs[1]
	var join *ssa.BasicBlock
	var predT, predF *ssa.BasicBlock // the join's predecessor on each side
	var sides []*ssa.BasicBlock
	jT, okT := sideBlock(T, b)
	jF, okF := sideBlock(F, b)
	switch {
	case okT && okF && jT == jF && jT != T && jT != F:
		join, predT, predF = jT, T, F
		sides = []*ssa.BasicBlock{T, F}
	case okT && jT == F:
		join, predT, predF = F, T, b
		sides = []*ssa.BasicBlock{T}
	case okF && jF == T:
		join, predT, predF = T, b, F
		sides = []*ssa.BasicBlock{F}
	default:
		return false
	}
	if len(join.Preds) != 2 {
		return false
	}
	scratch := map[ssa.Value]value{}
	for _, sb := range sides {
		if !fr.speculate(sb, scratch) {
			return false
		}
	}
	idx := func(p *ssa.BasicBlock) int {
		for i, q := range join.Preds {
			if q == p {
				return i
			}
		}
		return -1
	}
	iT, iF := idx(predT), idx(predF)
	if iT < 0 || iF < 0 || iT == iF {
		return false
	}
	get := func(v ssa.Value) (value, bool) {
		if r, ok := scratch[v]; ok {
			return r, true
		}
		switch k := v.(type) {
		case *ssa.Const:
			if k.Value == nil {
				if _, _, isInt := intInfo(k.Type()); !isInt && !isBoolean(k.Type()) {
					return nil, false
				}
			}
			return constValue(k), true
		case *ssa.Global, *ssa.Function, *ssa.Builtin:
			return nil, false
		}
		r, ok := fr.env[v]
		return r, ok
	}
	var phis []*ssa.Phi
	var vals []value
	for _, in := range join.Instrs {
		phi, ok := in.(*ssa.Phi)
		if !ok {
			break
		}
		vT, ok1 := get(phi.Edges[iT])
		vF, ok2 := get(phi.Edges[iF])
		if !ok1 || !ok2 {
			return false
		}
		tT, isT := vT.(*Term)
		tF, isF := vF.(*Term)
		if !isT || !isF || tT.S != tF.S {
			return false
		}
		phis = append(phis, phi)
		vals = append(vals, mkIte(c, tT, tF))
	}
	// commit
	for k, v := range scratch {
		fr.env[k] = v
	}
	for i, phi := range phis {
		fr.env[phi] = vals[i]
	}
	fr.r.merges++
	fr.r.symbolicPath = true
	fr.prevBlock, fr.block = predT, join
	fr.skipPhis = true
	return true
}

type pendingGo struct {
	fn   value
	args []value
}

// runGoroutine executes a spawned function to completion; a panic in it
// crashes the program (as in Go), which the caller sees as a target panic.
func (r *run) runGoroutine(fr *frame, fn value, args []value) {
	saved := r.curG
	r.nextG++
	r.curG = r.nextG
	defer func() { r.curG = saved }()
	r.call(nil, token.NoPos, fn, args)
}

// Channels (bounded model): a queue of (sender, value) pairs.  Sends never
// block; a receive takes the earliest pending value of any one sender (the
// values of one sender stay in order, different senders arrive in any order),
// or first lets a goroutine that was not yet scheduled run.
type schan struct {
	items  []chanItem
	closed bool
}

type chanItem struct {
	g int
	v value
}

func (r *run) chanRecv(ch *schan, elem types.Type) (value, bool) {
	for {
		var heads []int
		seen := map[int]bool{}
		for i, it := range ch.items {
			if !seen[it.g] {
				seen[it.g] = true
				heads = append(heads, i)
			}
		}
		n := len(heads) + len(r.pendingGo)
		if n == 0 {
			if ch.closed {
				return zero(elem), false
			}
			r.facts["blocked"] = "receives from a channel nobody sends on any more"
			panic(pathEnd{"blocked on a channel receive"})
		}
		k := 0
		if n > 1 {
			k = r.chooseFree(n, "channel-arrival")
		}
		if k < len(heads) {
			it := ch.items[heads[k]]
			ch.items = append(ch.items[:heads[k]:heads[k]], ch.items[heads[k]+1:]...)
			return it.v, true
		}
		g := r.pendingGo[k-len(heads)]
		j := k - len(heads)
		r.pendingGo = append(r.pendingGo[:j:j], r.pendingGo[j+1:]...)
		r.runGoroutine(nil, g.fn, g.args)
	}
}

func (r *run) flushGoroutines() {
	for len(r.pendingGo) > 0 {
		g := r.pendingGo[0]
		r.pendingGo = r.pendingGo[1:]
		r.runGoroutine(nil, g.fn, g.args)
	}
}
