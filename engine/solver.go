package main

// One long-lived `z3 -in` process per worker.  A run (one path) lives in a
// (push) scope; feasibility and obligation queries are nested push/pop pairs.
// Any "(error" line from the solver makes the current query inconclusive.

import (
	"bufio"
	"fmt"
	"io"
	"os"
	"os/exec"
	"strings"
	"time"
)

type Solver struct {
	cmd      *exec.Cmd
	in       *bufio.Writer
	out      *bufio.Reader
	defined  map[int64]bool
	declared map[string]bool
	vars     []*Term
	errs     []string
	log      io.Writer
	bin      string
	timeout  int
	links    []string // per run: exact integer/real links of twinned variables (counterexample refinement only)

	nSat, nUnsat, nUnknown int
	solveTime              time.Duration
}

func NewSolver(bin string, timeoutMs int, log io.Writer) (*Solver, error) {
	s := &Solver{bin: bin, timeout: timeoutMs, log: log}
	if err := s.start(); err != nil {
		return nil, err
	}
	return s, nil
}

func (s *Solver) start() error {
	args := []string{"-in"}
	if strings.Contains(s.bin, "cvc5") {
		args = []string{"--incremental", "--lang=smt2", "--produce-models", fmt.Sprintf("--tlimit-per=%d", s.timeout)}
	}
	s.cmd = exec.Command(s.bin, args...)
	in, err := s.cmd.StdinPipe()
	if err != nil {
		return err
	}
	out, err := s.cmd.StdoutPipe()
	if err != nil {
		return err
	}
	s.cmd.Stderr = os.Stderr
	if err := s.cmd.Start(); err != nil {
		return err
	}
	s.in = bufio.NewWriterSize(in, 1<<16)
	s.out = bufio.NewReaderSize(out, 1<<16)
	s.defined = map[int64]bool{}
	s.declared = map[string]bool{}
	if !strings.Contains(s.bin, "cvc5") {
		s.send(fmt.Sprintf("(set-option :timeout %d)", s.timeout))
		s.send("(set-option :model.completion true)")
	} else {
		s.send("(set-logic ALL)")
	}
	return nil
}

func (s *Solver) Close() {
	if s.cmd != nil {
		s.send("(exit)")
		s.in.Flush()
		s.cmd.Process.Kill()
		s.cmd.Wait()
		s.cmd = nil
	}
}

func (s *Solver) send(line string) {
	s.in.WriteString(line)
	s.in.WriteString("\n")
	if s.log != nil {
		io.WriteString(s.log, line+"\n")
	}
}

func (s *Solver) BeginRun() {
	s.send("(push)")
	s.defined = map[int64]bool{}
	s.declared = map[string]bool{}
	s.vars = s.vars[:0]
	s.errs = s.errs[:0]
	s.links = s.links[:0]
}

func (s *Solver) EndRun() {
	s.send("(pop)")
	s.in.Flush()
}

func (s *Solver) Declare(v *Term) {
	if s.declared[v.Name] {
		return
	}
	s.declared[v.Name] = true
	s.vars = append(s.vars, v)
	s.send(fmt.Sprintf("(declare-fun %s () %s)", v.Name, v.S))
}

func (s *Solver) define(t *Term) {
	if t.leaf() {
		if t.Op == "var" && !s.declared[t.Name] {
			s.Declare(t)
		}
		return
	}
	if s.defined[t.id] {
		return
	}
	// iterative post-order to avoid deep recursion on long chains
	type fr struct {
		t *Term
		i int
	}
	stack := []fr{{t, 0}}
	for len(stack) > 0 {
		top := &stack[len(stack)-1]
		if top.i < len(top.t.Args) {
			a := top.t.Args[top.i]
			top.i++
			if a.leaf() {
				if a.Op == "var" && !s.declared[a.Name] {
					s.Declare(a)
				}
				continue
			}
			if !s.defined[a.id] {
				stack = append(stack, fr{a, 0})
			}
			continue
		}
		if !s.defined[top.t.id] {
			s.defined[top.t.id] = true
			s.send(fmt.Sprintf("(define-fun t!%d () %s %s)", top.t.id, top.t.S, top.t.body()))
		}
		stack = stack[:len(stack)-1]
	}
}

func (s *Solver) Assert(t *Term) {
	if t.isTrue() {
		return
	}
	s.define(t)
	s.send("(assert " + t.ref() + ")")
}

func (s *Solver) readLine() (string, error) {
	line, err := s.out.ReadString('\n')
	return strings.TrimRight(line, "\r\n"), err
}

// readAnswer reads up to the sat/unsat/unknown line.
func (s *Solver) readAnswer() string {
	for {
		line, err := s.readLine()
		if err != nil {
			s.errs = append(s.errs, "solver died: "+err.Error())
			// restart so later queries do not hang
			s.cmd.Process.Kill()
			s.cmd.Wait()
			s.start()
			return "unknown"
		}
		switch line {
		case "sat", "unsat", "unknown":
			return line
		case "timeout":
			return "unknown"
		}
		if strings.HasPrefix(line, "(error") {
			s.errs = append(s.errs, line)
		}
	}
}

// Check decides pc ∧ extra.  With wantModel it returns the values of all
// variables declared in this run.
func (s *Solver) Check(extra *Term, wantModel bool) (string, map[string]string) {
	if extra != nil {
		s.define(extra)
	}
	nerr := len(s.errs)
	s.send("(push)")
	if extra != nil && !extra.isTrue() {
		s.send("(assert " + extra.ref() + ")")
	}
	s.send("(check-sat)")
	s.in.Flush()
	t0 := time.Now()
	res := s.readAnswer()
	s.solveTime += time.Since(t0)
	var model map[string]string
	if res == "sat" && wantModel && len(s.vars) > 0 {
		model = s.getValues()
		if len(s.links) > 0 {
			// the relaxation lets an integer and its real twin differ; prefer
			// a model in which they agree (the verdict is not affected)
			ne := len(s.errs)
			s.send("(push)")
			for _, l := range s.links {
				s.send("(assert " + l + ")")
			}
			s.send("(check-sat)")
			s.in.Flush()
			t1 := time.Now()
			if s.readAnswer() == "sat" {
				if m2 := s.getValues(); len(m2) > 0 {
					model = m2
				}
			}
			s.solveTime += time.Since(t1)
			s.send("(pop)")
			s.errs = s.errs[:ne]
		}
	}
	s.send("(pop)")
	if len(s.errs) > nerr {
		res = "unknown"
	}
	switch res {
	case "sat":
		s.nSat++
	case "unsat":
		s.nUnsat++
	default:
		s.nUnknown++
	}
	return res, model
}

func (s *Solver) getValues() map[string]string {
	model := map[string]string{}
	const chunk = 200
	for i := 0; i < len(s.vars); i += chunk {
		j := i + chunk
		if j > len(s.vars) {
			j = len(s.vars)
		}
		var sb strings.Builder
		sb.WriteString("(get-value (")
		for _, v := range s.vars[i:j] {
			sb.WriteString(v.Name)
			sb.WriteString(" ")
		}
		sb.WriteString("))")
		s.send(sb.String())
		s.in.Flush()
		txt := s.readSexp()
		parseValues(txt, model)
	}
	return model
}

// readSexp reads lines until parentheses balance.
func (s *Solver) readSexp() string {
	var sb strings.Builder
	depth := 0
	started := false
	for {
		line, err := s.readLine()
		if err != nil {
			return sb.String()
		}
		if strings.HasPrefix(line, "(error") {
			s.errs = append(s.errs, line)
			return sb.String()
		}
		sb.WriteString(line)
		sb.WriteString(" ")
		for _, c := range line {
			if c == '(' {
				depth++
				started = true
			} else if c == ')' {
				depth--
			}
		}
		if started && depth <= 0 {
			return sb.String()
		}
	}
}

// parseValues parses "((a #x01) (b true) (c (- 1.0)))".
func parseValues(txt string, out map[string]string) {
	txt = strings.TrimSpace(txt)
	if len(txt) < 2 {
		return
	}
	txt = txt[1 : len(txt)-1]
	i := 0
	for i < len(txt) {
		if txt[i] != '(' {
			i++
			continue
		}
		// find matching paren
		depth := 0
		j := i
		for ; j < len(txt); j++ {
			if txt[j] == '(' {
				depth++
			} else if txt[j] == ')' {
				depth--
				if depth == 0 {
					break
				}
			}
		}
		pair := strings.TrimSpace(txt[i+1 : j])
		sp := strings.IndexAny(pair, " \t")
		if sp > 0 {
			out[pair[:sp]] = strings.TrimSpace(pair[sp+1:])
		}
		i = j + 1
	}
}

func parseBVValue(v string) (uint64, bool) {
	var x uint64
	if strings.HasPrefix(v, "#x") {
		_, err := fmt.Sscanf(v[2:], "%x", &x)
		return x, err == nil
	}
	if strings.HasPrefix(v, "#b") {
		for _, c := range v[2:] {
			x = x<<1 | uint64(c-'0')
		}
		return x, true
	}
	if v == "true" {
		return 1, true
	}
	if v == "false" {
		return 0, true
	}
	return 0, false
}

// Eval returns a value of t in some model of the path condition.
func (s *Solver) Eval(t *Term) (uint64, bool) {
	s.define(t)
	s.send("(push)")
	s.send("(check-sat)")
	s.in.Flush()
	t0 := time.Now()
	res := s.readAnswer()
	s.solveTime += time.Since(t0)
	var v uint64
	ok := false
	if res == "sat" {
		s.nSat++
		s.send("(get-value (" + t.ref() + "))")
		s.in.Flush()
		m := map[string]string{}
		parseValues(s.readSexp(), m)
		for _, val := range m {
			v, ok = parseBVValue(val)
		}
	} else if res == "unsat" {
		s.nUnsat++
	} else {
		s.nUnknown++
	}
	s.send("(pop)")
	return v, ok
}
